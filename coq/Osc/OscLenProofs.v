(* C01: rtosc_message_length (the 32-bit ring-length walk) reports exactly the
   size of the OSC 1.0 encoding, whatever follows it in memory. *)
From Coq Require Import List ZArith Bool Lia.
From RtoscV Require Import Osc.OscModel Osc.OscBase Osc.OscEncProofs Osc.OscReadProofs.
Import ListNotations.
Local Open Scope Z_scope.
Ltac Zify.zify_post_hook ::= Z.div_mod_to_equations.

Lemma w32_small x : 0 <= x < W32 -> w32 x = x.
Proof. intros H. unfold w32. apply Z.mod_small. exact H. Qed.

Lemma from_length_le (m : list byte) p : (length (from m p) <= length m)%nat.
Proof. rewrite from_eq. rewrite skipn_length. lia. Qed.

Section OneSegment.
Variable r : ring.
Hypothesis seg1 : d1 r = [] /\ n1 r = 0.

Lemma deref_from p b t :
  0 <= p < n0 r -> from (d0 r) p = b :: t -> deref r p = Ok b.
Proof.
  intros Hp H. unfold deref. replace (p <? n0 r) with true by (symmetry; apply Z.ltb_lt; lia).
  eapply rd_from; [lia | eassumption].
Qed.

Lemma scan0_from s : forall fuel p t,
  nonul s -> 0 <= p -> p + zlen s < n0 r -> p + zlen s < W32 -> (length s < fuel)%nat ->
  from (d0 r) p = s ++ 0 :: t -> scan0 fuel r p = Ok (p + zlen s).
Proof.
  induction s as [|c s IH]; intros fuel p t Hs Hp Hn Hw Hf H.
  - destruct fuel; [cbn in Hf; lia|]. cbn [scan0]. cbn [app] in H.
    rewrite (deref_from p 0 t) by (auto; unfold zlen in *; cbn [length] in *; lia).
    cbn [bind]. change (0 =? 0) with true. cbn iota. f_equal. unfold zlen. cbn [length]. lia.
  - destruct fuel; [cbn in Hf; lia|]. cbn [scan0]. cbn [app] in H.
    inversion Hs as [|? ? Hc Hs']; subst. rewrite zlen_cons in *.
    pose proof (zlen_nonneg s).
    rewrite (deref_from p c _ ltac:(lia) H). cbn [bind]. rewrite (eqb0 c Hc).
    rewrite w32_small by (unfold W32 in *; lia).
    rewrite (IH fuel (p + 1) t Hs' ltac:(lia) ltac:(lia) ltac:(lia)).
    + f_equal. lia.
    + cbn [length] in Hf. lia.
    + eapply from_step; [lia | eassumption].
Qed.

Lemma read_tags_from s : forall fuel p t,
  nonul s -> 0 <= p -> p + zlen s < n0 r -> p + zlen s < W32 -> (length s < fuel)%nat ->
  from (d0 r) p = s ++ 0 :: t -> read_tags fuel r p = Ok s.
Proof.
  induction s as [|c s IH]; intros fuel p t Hs Hp Hn Hw Hf H.
  - destruct fuel; [cbn in Hf; lia|]. cbn [read_tags]. cbn [app] in H.
    rewrite (deref_from p 0 t) by (auto; unfold zlen in *; cbn [length] in *; lia).
    reflexivity.
  - destruct fuel; [cbn in Hf; lia|]. cbn [read_tags]. cbn [app] in H.
    inversion Hs as [|? ? Hc Hs']; subst. rewrite zlen_cons in *.
    pose proof (zlen_nonneg s).
    rewrite (deref_from p c _ ltac:(lia) H). cbn [bind]. rewrite (eqb0 c Hc).
    rewrite w32_small by (unfold W32 in *; lia).
    rewrite (IH fuel (p + 1) t Hs' ltac:(lia) ltac:(lia) ltac:(lia)).
    + reflexivity.
    + cbn [length] in Hf. lia.
    + eapply from_step; [lia | eassumption].
Qed.

Lemma deref32_from p x t :
  0 <= p -> p + 3 < n0 r -> p + 3 < W32 -> 0 <= x < 4294967296 ->
  from (d0 r) p = be32 x ++ t -> deref32 r p = Ok x.
Proof.
  intros Hp Hn Hw Hx H. unfold deref32. unfold be32 in H. cbn [app] in H.
  rewrite !w32_small by (unfold W32 in *; lia).
  rewrite (deref_from p _ _ ltac:(lia) H). pose proof (from_step _ p _ _ Hp H) as H1.
  rewrite (deref_from (p + 1) _ _ ltac:(lia) H1).
  pose proof (from_step _ (p + 1) _ _ ltac:(lia) H1) as H2.
  replace (p + 1 + 1) with (p + 2) in H2 by lia.
  rewrite (deref_from (p + 2) _ _ ltac:(lia) H2).
  pose proof (from_step _ (p + 2) _ _ ltac:(lia) H2) as H3.
  replace (p + 2 + 1) with (p + 3) in H3 by lia.
  rewrite (deref_from (p + 3) _ _ ltac:(lia) H3). cbn [bind]. f_equal.
  exact (unbe32_be32 x Hx).
Qed.

Lemma ring_total_seg : ring_total r = n0 r.
Proof. unfold ring_total. destruct seg1 as [_ ->]. lia. Qed.

(* the argument walk of rtosc_message_ring_length over encoded payloads *)
Lemma ring_args_enc fuel aligned tags : forall args pos rest',
  (length (d0 r) < fuel)%nat -> aligned mod 4 = 0 ->
  args_match tags args = true -> Forall payload_rd_wf args ->
  0 <= pos -> pos mod 4 = 0 ->
  from (d0 r) pos = concat (map enc_payload args) ++ rest' ->
  pos + zlen (concat (map enc_payload args)) <= n0 r ->
  pos + zlen (concat (map enc_payload args)) < W32 ->
  ring_args true fuel r aligned (nreserved tags) tags pos =
  Ok (pos + zlen (concat (map enc_payload args))).
Proof.
  induction tags as [|t ts IH]; intros args pos rest' Hfu Hal Hm Hw Hp Hp4 H Hn Hw32.
  - cbn [args_match] in Hm. destruct args; [|discriminate]. cbn. f_equal. lia.
  - pose proof (nreserved_nonneg ts) as Hnn.
    cbn [ring_args nreserved]. cbn [args_match] in Hm. unfold has_reserved.
    destruct (kind_of t) eqn:K.
    + destruct args as [|p ps]; [discriminate|]. apply andb_prop in Hm as [Hf Hm].
      destruct p; try discriminate. inversion Hw as [|? ? Hw1 Hw2]; subst.
      replace (1 + nreserved ts =? 0) with false by (symmetry; apply Z.eqb_neq; lia).
      replace (1 + nreserved ts - 1) with (nreserved ts) by lia.
      cbn [map concat] in *. rewrite zlen_app in *. change (zlen (enc_payload (P4 bits))) with 4 in *.
      pose proof (zlen_nonneg (concat (map enc_payload ps))).
      rewrite w32_small by (unfold W32 in *; lia).
      rewrite <- app_assoc in H. pose proof (from_skip _ pos _ _ Hp H) as Hnext.
      change (zlen (enc_payload (P4 bits))) with 4 in Hnext.
      rewrite (IH ps (pos + 4) rest') by (auto; lia). f_equal. lia.
    + destruct args as [|p ps]; [discriminate|]. apply andb_prop in Hm as [Hf Hm].
      destruct p; try discriminate. inversion Hw as [|? ? Hw1 Hw2]; subst.
      replace (1 + nreserved ts =? 0) with false by (symmetry; apply Z.eqb_neq; lia).
      replace (1 + nreserved ts - 1) with (nreserved ts) by lia.
      cbn [map concat] in *. rewrite zlen_app in *. change (zlen (enc_payload (P8 bits))) with 8 in *.
      pose proof (zlen_nonneg (concat (map enc_payload ps))).
      rewrite w32_small by (unfold W32 in *; lia).
      rewrite <- app_assoc in H. pose proof (from_skip _ pos _ _ Hp H) as Hnext.
      change (zlen (enc_payload (P8 bits))) with 8 in Hnext.
      rewrite (IH ps (pos + 8) rest') by (auto; lia). f_equal. lia.
    + destruct args as [|p ps]; [discriminate|]. apply andb_prop in Hm as [Hf Hm].
      destruct p; try discriminate. inversion Hw as [|? ? Hw1 Hw2]; subst.
      replace (1 + nreserved ts =? 0) with false by (symmetry; apply Z.eqb_neq; lia).
      replace (1 + nreserved ts - 1) with (nreserved ts) by lia.
      cbn [map concat] in *. rewrite zlen_app in *.
      rewrite (zlen_enc_payload (PStr s) I) in *.
      pose proof (zlen_nonneg (concat (map enc_payload ps))). pose proof (zlen_nonneg s).
      rewrite <- app_assoc in H. pose proof (from_skip _ pos _ _ Hp H) as Hnext.
      rewrite (zlen_enc_payload (PStr s) I) in Hnext.
      cbn [enc_payload] in H. unfold pad4z in H.
      assert (Hk : 1 <= 4 - zlen s mod 4) by lia.
      rewrite (zeros_pos _ Hk), <- !app_assoc in H. cbn [app] in H.
      assert (Hls : (length s < fuel)%nat).
      { pose proof (from_length_le (d0 r) pos) as L. rewrite H, app_length in L. lia. }
      unfold align4 in *.
      rewrite (scan0_from s fuel pos _ Hw1 Hp ltac:(lia) ltac:(lia) Hls H). cbn [bind].
      replace (pos + zlen s + (4 - (pos + zlen s - aligned) mod 4))
        with (pos + (zlen s + (4 - zlen s mod 4))) by lia.
      rewrite w32_small by (unfold W32 in *; lia).
      rewrite (IH ps (pos + (zlen s + (4 - zlen s mod 4))) rest') by (auto; lia). f_equal. lia.
    + destruct args as [|p ps]; [discriminate|]. apply andb_prop in Hm as [Hf Hm].
      destruct p as [| | |len d]; try discriminate. inversion Hw as [|? ? Hw1 Hw2]; subst.
      replace (1 + nreserved ts =? 0) with false by (symmetry; apply Z.eqb_neq; lia).
      replace (1 + nreserved ts - 1) with (nreserved ts) by lia.
      cbn [map concat] in *. rewrite zlen_app in *.
      pose proof (payload_rd_wf_wf _ Hw1) as Hwf.
      rewrite (zlen_enc_payload _ Hwf) in *.
      pose proof (zlen_nonneg (concat (map enc_payload ps))).
      destruct Hw1 as [Hl Hd].
      rewrite <- app_assoc in H. pose proof (from_skip _ pos _ _ Hp H) as Hnext.
      rewrite (zlen_enc_payload _ Hwf) in Hnext.
      cbn [enc_payload] in H. rewrite <- !app_assoc in H.
      assert (Hl32 : 0 <= len < 4294967296) by lia.
      rewrite (deref32_from pos len _ Hp ltac:(lia) ltac:(unfold W32 in *; lia) Hl32 H). cbn [bind].
      rewrite ring_total_seg.
      rewrite (w32_small (pos + 4)) by (unfold W32 in *; lia).
      replace (n0 r <? pos + 4 + len) with false by (symmetry; apply Z.ltb_ge; lia).
      cbn [andb]. rewrite (w32_small (pos + 4 + len)) by (unfold W32 in *; lia).
      assert (Hp2 : (if (pos + 4 + len - aligned) mod 4 =? 0 then pos + 4 + len
                     else w32 (pos + 4 + len + (4 - (pos + 4 + len - aligned) mod 4)))
                    = pos + (4 + len + (4 - len mod 4) mod 4)).
      { destruct ((pos + 4 + len - aligned) mod 4 =? 0) eqn:E;
          [apply Z.eqb_eq in E; lia | apply Z.eqb_neq in E].
        rewrite w32_small by (unfold W32 in *; lia). lia. }
      rewrite Hp2.
      rewrite (IH ps (pos + (4 + len + (4 - len mod 4) mod 4)) rest') by (auto; lia). f_equal. lia.
    + replace (0 + nreserved ts) with (nreserved ts) by lia.
      destruct (nreserved ts =? 0) eqn:E.
      * apply Z.eqb_eq in E. rewrite (nreserved_0_args ts args E Hm). cbn. f_equal. lia.
      * eapply IH; eassumption.
Qed.

End OneSegment.

(* for(int i=0; i<4; ++i) if(deref(++pos, ring)) break;  over the 1..4 NULs
   that end an OSC string, followed by ',' *)
Lemma nulword {B} r p k tailT (K : Z -> res B) :
  0 <= p -> 1 <= k <= 4 -> p + k < n0 r -> p + 4 < W32 ->
  from (d0 r) p = zeros k ++ 44 :: tailT ->
  (c1 <- deref r (w32 (p + 1)) ;;
   pos <- (if negb (c1 =? 0) then Ok (w32 (p + 1)) else
    c2 <- deref r (w32 (p + 2)) ;;
    if negb (c2 =? 0) then Ok (w32 (p + 2)) else
    c3 <- deref r (w32 (p + 3)) ;;
    if negb (c3 =? 0) then Ok (w32 (p + 3)) else
    c4 <- deref r (w32 (p + 4)) ;; Ok (w32 (p + 4))) ;;
   K pos)
  = K (p + k).
Proof.
  intros Hp Hk Hn Hw H.
  rewrite !w32_small by (unfold W32 in *; lia).
  assert (Hcase : k = 1 \/ k = 2 \/ k = 3 \/ k = 4) by lia.
  destruct Hcase as [E|[E|[E|E]]]; subst k.
  - change (zeros 1) with [0] in H. cbn [app] in H.
    pose proof (from_step _ p _ _ Hp H) as F1.
    assert (B1 : 0 <= p + 1 < n0 r) by lia.
    rewrite (deref_from r (p + 1) _ _ B1 F1). reflexivity.
  - change (zeros 2) with [0; 0] in H. cbn [app] in H.
    pose proof (from_step _ p _ _ Hp H) as F1.
    assert (B1 : 0 <= p + 1 < n0 r) by lia.
    rewrite (deref_from r (p + 1) _ _ B1 F1). cbn [bind]. change (negb (0 =? 0)) with false. cbn iota.
    pose proof (from_step _ (p + 1) _ _ ltac:(lia) F1) as F2. replace (p + 1 + 1) with (p + 2) in F2 by lia.
    assert (B2 : 0 <= p + 2 < n0 r) by lia.
    rewrite (deref_from r (p + 2) _ _ B2 F2). reflexivity.
  - change (zeros 3) with [0; 0; 0] in H. cbn [app] in H.
    pose proof (from_step _ p _ _ Hp H) as F1.
    assert (B1 : 0 <= p + 1 < n0 r) by lia.
    rewrite (deref_from r (p + 1) _ _ B1 F1). cbn [bind]. change (negb (0 =? 0)) with false. cbn iota.
    pose proof (from_step _ (p + 1) _ _ ltac:(lia) F1) as F2. replace (p + 1 + 1) with (p + 2) in F2 by lia.
    assert (B2 : 0 <= p + 2 < n0 r) by lia.
    rewrite (deref_from r (p + 2) _ _ B2 F2). cbn [bind]. change (negb (0 =? 0)) with false. cbn iota.
    pose proof (from_step _ (p + 2) _ _ ltac:(lia) F2) as F3. replace (p + 2 + 1) with (p + 3) in F3 by lia.
    assert (B3 : 0 <= p + 3 < n0 r) by lia.
    rewrite (deref_from r (p + 3) _ _ B3 F3). reflexivity.
  - change (zeros 4) with [0; 0; 0; 0] in H. cbn [app] in H.
    pose proof (from_step _ p _ _ Hp H) as F1.
    assert (B1 : 0 <= p + 1 < n0 r) by lia.
    rewrite (deref_from r (p + 1) _ _ B1 F1). cbn [bind]. change (negb (0 =? 0)) with false. cbn iota.
    pose proof (from_step _ (p + 1) _ _ ltac:(lia) F1) as F2. replace (p + 1 + 1) with (p + 2) in F2 by lia.
    assert (B2 : 0 <= p + 2 < n0 r) by lia.
    rewrite (deref_from r (p + 2) _ _ B2 F2). cbn [bind]. change (negb (0 =? 0)) with false. cbn iota.
    pose proof (from_step _ (p + 2) _ _ ltac:(lia) F2) as F3. replace (p + 2 + 1) with (p + 3) in F3 by lia.
    assert (B3 : 0 <= p + 3 < n0 r) by lia.
    rewrite (deref_from r (p + 3) _ _ B3 F3). cbn [bind]. change (negb (0 =? 0)) with false. cbn iota.
    pose proof (from_step _ (p + 3) _ _ ltac:(lia) F3) as F4. replace (p + 3 + 1) with (p + 4) in F4 by lia.
    assert (B4 : 0 <= p + 4 < n0 r) by lia.
    rewrite (deref_from r (p + 4) _ _ B4 F4). reflexivity.
Qed.

(* the one address that is not a message's: "#bundle" (OSC addresses start
   with '/'; the code special-cases exactly this string) *)
Definition bundle7 : list byte := [35; 98; 117; 110; 100; 108; 101].
Definition not_bundle_addr (a : list byte) : Prop := a <> bundle7.

(* comparing the first bytes of a list with the magic, as a pure function *)
Fixpoint magic_l (x l : list byte) {struct l} : option bool :=
  match l with
  | [] => Some true
  | c :: t => match x with
              | [] => None
              | b :: x' => if b =? c then magic_l x' t else Some false
              end
  end.

Lemma is_magic_list r : forall l i x b,
  0 <= i -> i + zlen l <= n0 r -> from (d0 r) i = x -> magic_l x l = Some b ->
  is_magic r i l = Ok b.
Proof.
  induction l as [|c t IH]; intros i x b Hi Hn Hx Hm; cbn [is_magic magic_l] in *.
  - inversion Hm; subst. reflexivity.
  - destruct x as [|b0 x']; [discriminate|].
    rewrite zlen_cons in Hn. pose proof (zlen_nonneg t).
    rewrite (deref_from r i b0 x' ltac:(lia) Hx). cbn [bind].
    destruct (b0 =? c).
    + apply (IH (i + 1) x' b); try lia; [eapply from_step; eassumption | assumption].
    + inversion Hm; subst. reflexivity.
Qed.

Lemma magic_l_addr a rest :
  nonul a -> a <> [] -> not_bundle_addr a -> magic_l (a ++ 0 :: rest) bundle_magic = Some false.
Proof.
  intros Hn Hne NB. unfold bundle_magic, not_bundle_addr, bundle7 in *.
  assert (Hz : forall c (l : list byte), nonul (c :: l) -> (c =? 0) = false)
    by (intros c l H; inversion H; subst; apply Z.eqb_neq; assumption).
  assert (Ht : forall c (l : list byte), nonul (c :: l) -> nonul l)
    by (intros c l H; inversion H; assumption).
  destruct a as [|a0 a]; [congruence|]. cbn [app magic_l].
  destruct (Z.eqb_spec a0 35) as [->|]; [|reflexivity]. apply Ht in Hn.
  destruct a as [|a1 a]; [reflexivity|]. cbn [app magic_l].
  destruct (Z.eqb_spec a1 98) as [->|]; [|reflexivity]. apply Ht in Hn.
  destruct a as [|a2 a]; [reflexivity|]. cbn [app magic_l].
  destruct (Z.eqb_spec a2 117) as [->|]; [|reflexivity]. apply Ht in Hn.
  destruct a as [|a3 a]; [reflexivity|]. cbn [app magic_l].
  destruct (Z.eqb_spec a3 110) as [->|]; [|reflexivity]. apply Ht in Hn.
  destruct a as [|a4 a]; [reflexivity|]. cbn [app magic_l].
  destruct (Z.eqb_spec a4 100) as [->|]; [|reflexivity]. apply Ht in Hn.
  destruct a as [|a5 a]; [reflexivity|]. cbn [app magic_l].
  destruct (Z.eqb_spec a5 108) as [->|]; [|reflexivity]. apply Ht in Hn.
  destruct a as [|a6 a]; [reflexivity|]. cbn [app magic_l].
  destruct (Z.eqb_spec a6 101) as [->|]; [|reflexivity]. apply Ht in Hn.
  destruct a as [|a7 a]; [exfalso; apply NB; reflexivity|]. cbn [app magic_l].
  rewrite (Hz a7 a Hn). reflexivity.
Qed.

Theorem message_length_enc a tags args rest n :
  msg_wf a tags args -> not_bundle_addr a ->
  zlen (enc_spec a tags args) < W32 ->
  zlen (enc_spec a tags args) <= n ->
  message_length (enc_spec a tags args ++ rest) n = Ok (zlen (enc_spec a tags args)).
Proof.
  intros WF NB Hsz Hn.
  set (m := enc_spec a tags args ++ rest).
  set (r := {| d0 := m; n0 := n; d1 := []; n1 := 0 |}).
  assert (seg1 : d1 r = [] /\ n1 r = 0) by (split; reflexivity).
  pose proof (zlen_enc_spec a tags args) as HL.
  pose proof (zlen_nonneg a) as Ha0. pose proof (zlen_nonneg tags) as Ht0.
  pose proof (zlen_nonneg (concat (map enc_payload args))) as Hc0.
  destruct WF as [Hne Ha Ht Hm Hw].
  assert (Hd : exists a0 a', a = a0 :: a') by (destruct a as [|x y]; [congruence | eauto]).
  destruct Hd as (a0 & a' & Hd).
  assert (Ha0ne : a0 <> 0) by (rewrite Hd in Ha; inversion Ha; assumption).
  pose proof (m_layout a tags args rest) as ML. fold m in ML.
  assert (Hfuel : (length (d0 r) < fuel_of r)%nat) by (unfold fuel_of; cbn [d0 d1 r length]; lia).
  unfold message_length. fold m. change {| d0 := m; n0 := n; d1 := []; n1 := 0 |} with r.
  unfold message_ring_length, message_ring_length_gen.
  (* not the bundle magic *)
  assert (Hm0 : from (d0 r) 0 = a0 :: (a' ++ zeros (4 - zlen a mod 4) ++ (44 :: tags) ++
                                   zeros (4 - (1 + zlen tags) mod 4) ++ concat (map enc_payload args) ++ rest)).
  { cbn [d0 r]. rewrite from_0, ML, Hd. reflexivity. }
  unfold align4 in HL.
  assert (Hka : 1 <= 4 - zlen a mod 4 <= 4) by lia.
  assert (Hmag : is_magic r 0 bundle_magic = Ok false).
  { apply (is_magic_list r bundle_magic 0 (from (d0 r) 0) false); [lia | | reflexivity |].
    - change (zlen bundle_magic) with 8. cbn [n0 r]. lia.
    - cbn [d0 r]. rewrite from_0, ML. rewrite (zeros_pos _ (proj1 Hka)). cbn [app].
      apply magic_l_addr; assumption. }
  rewrite Hmag. cbn [bind].
  (* the address *)
  assert (Hfrom0 : from (d0 r) 0 = a ++ 0 :: zeros (4 - zlen a mod 4 - 1) ++ (44 :: tags) ++
                                   zeros (4 - (1 + zlen tags) mod 4) ++ concat (map enc_payload args) ++ rest).
  { cbn [d0 r]. rewrite from_0, ML. f_equal. rewrite (zeros_pos _ (proj1 Hka)). reflexivity. }
  assert (Hla : (length a < fuel_of r)%nat).
  { pose proof (from_length_le (d0 r) 0) as L. rewrite Hfrom0, app_length in L. lia. }
  rewrite (scan0_from r a (fuel_of r) 0 _ Ha ltac:(lia) ltac:(cbn [n0 r]; lia) ltac:(lia) Hla Hfrom0).
  cbn [bind]. replace (0 + zlen a) with (zlen a) by lia.
  (* the NUL word: 1..4 zero bytes, then ',' *)
  pose proof (from_skip (d0 r) 0 a _ ltac:(lia) Hfrom0) as Hz. replace (0 + zlen a) with (zlen a) in Hz by lia.
  set (tailT := tags ++ zeros (4 - (1 + zlen tags) mod 4) ++ concat (map enc_payload args) ++ rest) in *.
  assert (Hcomma : from (d0 r) (zlen a + (4 - zlen a mod 4)) = 44 :: tailT).
  { replace (zlen a + (4 - zlen a mod 4)) with (zlen a + (1 + (4 - zlen a mod 4 - 1))) by lia.
    rewrite from_add by lia. rewrite Hz. rewrite from_nonneg_cons by lia.
    rewrite from_zeros_len by lia. reflexivity. }
  assert (Hz' : from (d0 r) (zlen a) = zeros (4 - zlen a mod 4) ++ 44 :: tailT).
  { rewrite (zeros_pos _ (proj1 Hka)). exact Hz. }
  rewrite (nulword r (zlen a) (4 - zlen a mod 4) tailT _ ltac:(lia) Hka
             ltac:(cbn [n0 r]; lia) ltac:(unfold W32 in *; lia) Hz').
  set (A := zlen a + (4 - zlen a mod 4)) in *.
  assert (HA4 : A mod 4 = 0) by (unfold A; lia).
  rewrite (deref_from r A 44 _ ltac:(cbn [n0 r]; unfold A; lia) Hcomma). cbn [bind].
  change (negb (44 =? 44)) with false. cbn iota.
  (* the type tags *)
  assert (Hkt : 1 <= 4 - (1 + zlen tags) mod 4 <= 4) by lia.
  assert (Htags : from (d0 r) (A + 1) = tags ++ 0 :: zeros (4 - (1 + zlen tags) mod 4 - 1) ++
                                        concat (map enc_payload args) ++ rest).
  { assert (HA0 : 0 <= A) by (unfold A; lia). rewrite (from_step (d0 r) A _ _ HA0 Hcomma). unfold tailT.
    rewrite (zeros_pos _ (proj1 Hkt)). reflexivity. }
  assert (Hlt : (length tags < fuel_of r)%nat).
  { pose proof (from_length_le (d0 r) (A + 1)) as L. rewrite Htags, app_length in L. lia. }
  rewrite (w32_small (A + 1)) by (unfold W32, A in *; lia).
  rewrite (read_tags_from r tags (fuel_of r) (A + 1) _ Ht ltac:(unfold A; lia)
             ltac:(cbn [n0 r]; unfold A; lia) ltac:(unfold A; lia) Hlt Htags). cbn [bind].
  rewrite (scan0_from r tags (fuel_of r) (A + 1) _ Ht ltac:(unfold A; lia)
             ltac:(cbn [n0 r]; unfold A; lia) ltac:(unfold A; lia) Hlt Htags). cbn [bind].
  set (S0 := A + (1 + zlen tags + (4 - (1 + zlen tags) mod 4))).
  replace (w32 (A + 1 + zlen tags + (4 - (A + 1 + zlen tags - A) mod 4))) with S0.
  2:{ rewrite w32_small by (unfold W32, A in *; lia). unfold S0. lia. }
  assert (Hargs : from (d0 r) S0 = concat (map enc_payload args) ++ rest).
  { unfold S0. replace (A + (1 + zlen tags + (4 - (1 + zlen tags) mod 4)))
      with (A + 1 + (zlen tags + (1 + (4 - (1 + zlen tags) mod 4 - 1)))) by lia.
    rewrite from_add by (unfold A; lia). rewrite Htags.
    rewrite from_app_add by lia. rewrite from_nonneg_cons by lia.
    apply from_zeros_len. lia. }
  rewrite (ring_args_enc r seg1 (fuel_of r) A tags args S0 rest Hfuel HA4 Hm Hw
             ltac:(unfold S0, A; lia) ltac:(unfold S0; lia) Hargs
             ltac:(cbn [n0 r]; unfold S0, A; lia) ltac:(unfold S0, A; lia)).
  cbn [bind]. rewrite (ring_total_seg r seg1). cbn [n0 r].
  replace (S0 + zlen (concat (map enc_payload args)) <=? n) with true
    by (symmetry; apply Z.leb_le; unfold S0, A; lia).
  f_equal. unfold S0, A. lia.
Qed.
