(* C01: the offsets the readers return for strings and blobs (OscReadProofs:
   dec_spec) designate, in the encoded message, exactly the original bytes -
   a string's characters up to its terminator, a blob's len bytes. *)
From Coq Require Import List ZArith Bool Lia.
From RtoscV Require Import Osc.OscModel Osc.OscBase Osc.OscEncProofs Osc.OscReadProofs.
Import ListNotations.
Local Open Scope Z_scope.
Ltac Zify.zify_post_hook ::= Z.div_mod_to_equations.

Definition blob_data (len : Z) (d : option (list byte)) : list byte :=
  match d with Some bs => bs | None => zeros len end.

(* follows dec_spec step by step: same tags, same argument list, same offsets *)
Fixpoint content_ok (m : list byte) (tags : list byte) (args : list payload) (p : Z) : Prop :=
  match tags with
  | [] => True
  | t :: ts =>
      if is_bracket t then content_ok m ts args p else
      match kind_of t, args with
      | K0, _ => content_ok m ts args p
      | _, P4 b :: r => content_ok m ts r (p + 4)
      | _, P8 b :: r => content_ok m ts r (p + 8)
      | _, PStr s :: r => cstr_at m p = Ok s /\ content_ok m ts r (p + zlen (pad4z s))
      | _, PBlob len d :: r =>
          firstn (Z.to_nat len) (from m (p + 4)) = blob_data len d /\
          content_ok m ts r (p + zlen (enc_payload (PBlob len d)))
      | _, [] => True
      end
  end.

Lemma zlen_be32' b : zlen (be32 b) = 4. Proof. reflexivity. Qed.
Lemma zlen_be64' b : zlen (be64 b) = 8. Proof. reflexivity. Qed.

Lemma firstn_app_exact (x y : list byte) n : n = length x -> firstn n (x ++ y) = x.
Proof. intros ->. rewrite firstn_app, Nat.sub_diag, firstn_all. cbn. apply app_nil_r. Qed.

Lemma content_go m tags : forall args p rest,
  0 <= p -> args_match tags args = true -> Forall payload_rd_wf args ->
  from m p = concat (map enc_payload args) ++ rest ->
  content_ok m tags args p.
Proof.
  induction tags as [|t ts IH]; intros args p rest Hp Hm Hw H; [exact I|].
  cbn [content_ok]. destruct (is_bracket t) eqn:B.
  - cbn [args_match] in Hm. rewrite (bracket_K0 t B) in Hm. eapply IH; eassumption.
  - cbn [args_match] in Hm. destruct (kind_of t) eqn:K.
    5:{ eapply IH; eassumption. }
    all: destruct args as [|pl ps]; [discriminate|];
         apply andb_prop in Hm as [Hf Hm];
         inversion Hw as [|? ? Hw1 Hw2]; subst;
         cbn [map concat] in H; rewrite <- app_assoc in H;
         pose proof (from_skip m p _ _ Hp H) as Hnext;
         pose proof (zlen_nonneg (enc_payload pl)) as Hnn;
         destruct pl as [b|b|s|len d]; cbn [payload_fits] in Hf; try discriminate.
    + cbn [enc_payload] in Hnext. rewrite zlen_be32' in Hnext. eapply IH; try eassumption; lia.
    + cbn [enc_payload] in Hnext. rewrite zlen_be64' in Hnext. eapply IH; try eassumption; lia.
    + split.
      * cbn [enc_payload] in H. unfold pad4z in H. cbn [payload_rd_wf] in Hw1.
        assert (Hk : 1 <= 4 - zlen s mod 4) by lia.
        rewrite (zeros_pos _ Hk), <- !app_assoc in H. cbn [app] in H.
        eapply cstr_at_from; eassumption.
      * cbn [enc_payload] in Hnext. eapply IH; try eassumption. cbn [enc_payload] in Hnn. lia.
    + split.
      * cbn [enc_payload] in H. rewrite <- !app_assoc in H.
        pose proof (from_skip m p _ _ Hp H) as H4. rewrite zlen_be32' in H4.
        rewrite H4. cbn [payload_rd_wf] in Hw1. destruct Hw1 as [Hl Hd].
        apply firstn_app_exact. unfold blob_data.
        destruct d as [bs|]; [unfold zlen in Hd; lia|].
        rewrite length_zeros. reflexivity.
      * eapply IH; try eassumption. lia.
Qed.

Theorem content_enc a tags args rest :
  msg_wf a tags args ->
  content_ok (enc_spec a tags args ++ rest) tags args (args_off a tags).
Proof.
  intros WF. eapply content_go; [| apply WF | apply WF | apply (from_args a tags args rest)].
  unfold args_off, align4. pose proof (zlen_nonneg a). pose proof (zlen_nonneg tags). lia.
Qed.
