(* C07, second sentence: whenever rtosc_valid_message_p accepts an ARBITRARY
   buffer, every accessor (argument string, count, type/argument by index,
   iterator) stays inside the buffer, including the string and blob payloads
   they designate. *)
From Coq Require Import List ZArith Bool Lia.
From RtoscV Require Import Osc.OscModel Osc.OscBase Osc.OscEncProofs Osc.OscReadProofs
  Osc.OscLenProofs Osc.OscTotalProofs.
Import ListNotations.
Local Open Scope Z_scope.
Ltac Zify.zify_post_hook ::= Z.div_mod_to_equations.

(* ---- generic: the iterator and the by-index accessors walk alike --------- *)
Lemma itr_go_index m tags : forall p l idx,
  itr_go m tags p = Ok l -> 0 <= idx < zlen l ->
  exists t v, nth_error l (Z.to_nat idx) = Some (t, v) /\
              type_in tags (Z.to_nat idx) = t /\
              (kind_of t = K0 -> v = const_val t) /\
              (kind_of t <> K0 ->
               exists o, arg_off_go m tags idx p = Ok o /\ extract_arg m o t = Ok v).
Proof.
  induction tags as [|t ts IH]; intros p l idx H Hi.
  - cbn [itr_go] in H. inversion H; subst. unfold zlen in Hi. cbn in Hi. lia.
  - cbn [itr_go type_in arg_off_go] in *. destruct (is_bracket t) eqn:B.
    + destruct (IH p l idx H Hi) as (t' & v & Hn & Ht & Hk0 & Hk).
      exists t', v. repeat split; try assumption.
      intros Hne. destruct (Hk Hne) as (o & Ho & He). exists o. split; [|assumption].
      destruct (idx <=? 0) eqn:E; [|assumption].
      apply Z.leb_le in E. assert (idx = 0) by lia. subst idx.
      destruct ts; cbn [arg_off_go] in Ho |- *; exact Ho.
    + destruct (extract_arg m p t) as [v0| |] eqn:Ev; cbn [bind] in H; try discriminate.
      destruct (arg_size m p t) as [sz| |] eqn:Es; cbn [bind] in H; try discriminate.
      destruct (itr_go m ts (p + sz)) as [rest| |] eqn:Er; cbn [bind] in H; try discriminate.
      inversion H; subst l. rewrite zlen_cons in Hi.
      destruct (Z.eq_dec idx 0) as [E0|E0].
      * subst idx. cbn [Z.to_nat nth_error]. change (0 <=? 0) with true. cbn iota.
        exists t, v0. split; [reflexivity|]. split; [reflexivity|]. split.
        -- intros K. unfold extract_arg in Ev. rewrite K in Ev. inversion Ev. reflexivity.
        -- intros _. exists p. split; [reflexivity | exact Ev].
      * replace (idx <=? 0) with false by (symmetry; apply Z.leb_gt; lia).
        replace (Z.to_nat idx) with (S (Z.to_nat (idx - 1))) by lia. cbn [nth_error].
        destruct (IH (p + sz) rest (idx - 1) Er ltac:(lia)) as (t' & v & Hn & Ht & Hk0 & Hk).
        exists t', v. split; [assumption|]. split; [assumption|]. split; [assumption|].
        intros Hne. cbn [bind]. exact (Hk Hne).
Qed.

Lemma itr_go_types m tags : forall p l,
  itr_go m tags p = Ok l -> map fst l = filter (fun t => negb (is_bracket t)) tags.
Proof.
  induction tags as [|t ts IH]; intros p l H.
  - cbn in H. inversion H. reflexivity.
  - cbn [itr_go filter] in *. destruct (is_bracket t) eqn:B; cbn [negb].
    + eapply IH; eassumption.
    + destruct (extract_arg m p t) as [v0| |]; cbn [bind] in H; try discriminate.
      destruct (arg_size m p t) as [sz| |]; cbn [bind] in H; try discriminate.
      destruct (itr_go m ts (p + sz)) as [rest| |] eqn:Er; cbn [bind] in H; try discriminate.
      inversion H; subst. cbn [map fst]. f_equal. eapply IH; eassumption.
Qed.

Lemma itr_go_length m tags : forall p l,
  itr_go m tags p = Ok l -> zlen l = count_nonbracket tags.
Proof.
  induction tags as [|t ts IH]; intros p l H.
  - cbn in H. inversion H. reflexivity.
  - cbn [itr_go count_nonbracket] in *. destruct (is_bracket t) eqn:B.
    + rewrite (IH p l H). lia.
    + destruct (extract_arg m p t) as [v0| |]; cbn [bind] in H; try discriminate.
      destruct (arg_size m p t) as [sz| |]; cbn [bind] in H; try discriminate.
      destruct (itr_go m ts (p + sz)) as [rest| |] eqn:Er; cbn [bind] in H; try discriminate.
      inversion H; subst. rewrite zlen_cons, (IH _ _ Er). lia.
Qed.

Lemma nth_skipn_cons (l : list byte) : forall k c,
  nth_error l k = Some c -> skipn k l = c :: skipn (S k) l.
Proof.
  induction l as [|x l IH]; intros k c H; destruct k; cbn [nth_error skipn] in *; try discriminate.
  - inversion H. reflexivity.
  - apply IH. exact H.
Qed.

Lemma w32_nonneg' x : 0 <= w32 x.
Proof. unfold w32, W32. apply Z.mod_pos_bound. lia. Qed.

(* ---- a buffer seen as a one-segment ring of exactly its own length -------- *)
Section Buffer.
Variable m : list byte.
Hypothesis Hb : bytes_ok m.
Hypothesis Hn : zlen m < 134217728.          (* 2^27 *)
Let n := zlen m.
Let r := {| d0 := m; n0 := n; d1 := []; n1 := 0 |}.

Lemma r_total : ring_total r = n.
Proof. unfold ring_total. cbn [n0 n1 r]. lia. Qed.

Lemma rk : ring_ok r.
Proof.
  constructor; cbn [d0 n0 d1 n1 r]; unfold n in *;
    try (pose proof (zlen_nonneg m); unfold zlen in *; cbn [length]; lia);
    [assumption | constructor | unfold ring_total, W32; cbn [n0 n1 r]; unfold n; lia].
Qed.

Lemma deref_in p : 0 <= p < n -> deref r p = rd m p.
Proof.
  intros H. unfold deref. cbn [n0 d0 r].
  replace (p <? n) with true by (symmetry; apply Z.ltb_lt; lia). reflexivity.
Qed.

Lemma deref_out p : n <= p -> deref r p = Ok 0.
Proof. intros H. apply (deref_beyond r rk). rewrite r_total. exact H. Qed.

Lemma from_cons_rd p : 0 <= p < n -> exists c, rd m p = Ok c /\ from m p = c :: from m (p + 1).
Proof.
  intros H. destruct (rd_total m p Hb H) as (c & Hc & _). exists c. split; [exact Hc|].
  rewrite rd_eq in Hc. replace (p <? 0) with false in Hc by (symmetry; apply Z.ltb_ge; lia).
  rewrite !from_eq. replace (Z.to_nat (p + 1)) with (S (Z.to_nat p)) by lia.
  apply nth_skipn_cons. destruct (nth_error m (Z.to_nat p)); [inversion Hc; reflexivity | discriminate].
Qed.

(* a checked scan that ends inside the buffer is the unchecked scan *)
Lemma scan0_strz : forall fuel p e,
  0 <= p -> p <= n -> scan0 fuel r p = Ok e -> e < n -> strz m p = Ok e /\ p <= e.
Proof.
  induction fuel as [|fuel IH]; intros p e Hp Hpn H He; [discriminate|].
  cbn [scan0] in H. destruct (Z_lt_le_dec p n) as [Hlt|Hge].
  - rewrite (deref_in p ltac:(lia)) in H.
    destruct (from_cons_rd p ltac:(lia)) as (c & Hc & Hf). rewrite Hc in H. cbn [bind] in H.
    unfold strz. replace (p <? 0) with false by (symmetry; apply Z.ltb_ge; lia).
    rewrite Hf. cbn [find0]. destruct (c =? 0) eqn:E.
    + inversion H; subst. split; [reflexivity | lia].
    + rewrite w32_small in H by (unfold W32, n in *; lia).
      destruct (IH (p + 1) e ltac:(lia) ltac:(lia) H He) as (Hs & Hle).
      unfold strz in Hs. replace (p + 1 <? 0) with false in Hs by (symmetry; apply Z.ltb_ge; lia).
      split; [exact Hs | lia].
  - rewrite (deref_out p Hge) in H. cbn [bind] in H. change (0 =? 0) with true in H. cbn iota in H.
    inversion H; subst. lia.
Qed.

Lemma scan0_ge : forall fuel p e, 0 <= p -> p <= n -> scan0 fuel r p = Ok e -> p <= e <= n.
Proof.
  induction fuel as [|fuel IH]; intros p e Hp Hpn H; [discriminate|].
  cbn [scan0] in H. destruct (Z_lt_le_dec p n) as [Hlt|Hge].
  - destruct (deref_total r rk p Hp) as (c & Hc & _). rewrite Hc in H. cbn [bind] in H.
    destruct (c =? 0); [inversion H; subst; lia|].
    rewrite w32_small in H by (unfold W32, n in *; lia).
    specialize (IH (p + 1) e ltac:(lia) ltac:(lia) H). lia.
  - rewrite (deref_out p Hge) in H. cbn [bind] in H. change (0 =? 0) with true in H. cbn iota in H.
    inversion H; subst. lia.
Qed.

Lemma read_tags_cstr : forall fuel p ts e,
  0 <= p -> p <= n -> read_tags fuel r p = Ok ts -> scan0 fuel r p = Ok e -> e < n ->
  cstr_at m p = Ok ts.
Proof.
  induction fuel as [|fuel IH]; intros p ts e Hp Hpn Hr Hs He; [discriminate|].
  cbn [read_tags scan0] in *. destruct (Z_lt_le_dec p n) as [Hlt|Hge].
  - rewrite (deref_in p ltac:(lia)) in *.
    destruct (from_cons_rd p ltac:(lia)) as (c & Hc & Hf). rewrite Hc in *. cbn [bind] in *.
    unfold cstr_at. replace (p <? 0) with false by (symmetry; apply Z.ltb_ge; lia).
    rewrite Hf. cbn [cstr]. destruct (c =? 0) eqn:E.
    + inversion Hr. reflexivity.
    + rewrite w32_small in * by (unfold W32, n in *; lia).
      destruct (read_tags fuel r (p + 1)) as [t'| |] eqn:Er; cbn [bind] in Hr; try discriminate.
      inversion Hr; subst ts.
      pose proof (IH (p + 1) t' e ltac:(lia) ltac:(lia) Er Hs He) as Hc'.
      unfold cstr_at in Hc'. replace (p + 1 <? 0) with false in Hc' by (symmetry; apply Z.ltb_ge; lia).
      rewrite Hc'. reflexivity.
  - rewrite (deref_out p Hge) in Hs. cbn [bind] in Hs. change (0 =? 0) with true in Hs. cbn iota in Hs.
    inversion Hs; subst. lia.
Qed.

Lemma rd32_deref32 p : 0 <= p -> p + 4 <= n -> deref32 r p = rd32 m p.
Proof.
  intros Hp Hle. unfold deref32, rd32. rewrite !w32_small by (unfold W32, n in *; lia).
  rewrite !deref_in by lia. reflexivity.
Qed.

Definition payload_inside (v : argval) : Prop :=
  match v with
  | VStr off => 0 <= off < n /\ exists s, cstr_at m off = Ok s
  | VBlob len off => 0 <= off /\ 0 <= len /\ off + len <= n
  | _ => True
  end.

Lemma find0_cstr : forall l q e, find0 l q = Ok e -> exists s, cstr l = Ok s.
Proof.
  induction l as [|c l IH]; intros q e H; cbn [find0 cstr] in *; [discriminate|].
  destruct (c =? 0); [eexists; reflexivity|].
  destruct (IH _ _ H) as (s & ->). eexists; reflexivity.
Qed.

(* no value-carrying tag left: the iterator only yields constants *)
Lemma itr_go_consts ts : nreserved ts = 0 -> forall q,
  exists l, itr_go m ts q = Ok l /\ Forall payload_inside (map snd l).
Proof.
  induction ts as [|t' ts' IHt]; intros E q.
  - exists []. split; [reflexivity | constructor].
  - cbn [nreserved] in E. pose proof (nreserved_nonneg ts'). unfold has_reserved in E.
    destruct (kind_of t') eqn:K'; try lia.
    destruct (IHt ltac:(lia) q) as (l & Hl & Hins).
    cbn [itr_go]. destruct (is_bracket t'); [exists l; split; assumption|].
    unfold extract_arg, arg_size. rewrite K'. cbn [bind].
    replace (q + 0) with q by lia. rewrite Hl. cbn [bind].
    eexists. split; [reflexivity|]. cbn [map snd]. constructor; [|exact Hins].
    destruct (t' =? 84); [exact I|]. destruct (t' =? 70); exact I.
Qed.

(* the accepted argument walk: every position stays <= n, and the unchecked
   iterator succeeds over the same tags with all payloads inside *)
Lemma ring_args_safe fuel aligned tags : forall pos fin,
  0 <= pos -> (pos - aligned) mod 4 = 0 -> pos + 8 * zlen tags + 16 < W32 - n ->
  2 * n + 8 * zlen tags + 40 < W32 ->
  ring_args true fuel r aligned (nreserved tags) tags pos = Ok fin -> fin <= n ->
  pos <= n /\ exists l, itr_go m tags pos = Ok l /\ Forall payload_inside (map snd l).
Proof.
  pose proof (zlen_nonneg m) as Hn0. fold n in Hn0.
  assert (Hn27 : n < 134217728) by (unfold n; exact Hn).
  induction tags as [|t ts IH]; intros pos fin Hp Hal Hbound Hglob H Hfin.
  - cbn in H. inversion H; subst. split; [lia|]. exists []. split; [reflexivity | constructor].
  - pose proof (nreserved_nonneg ts) as Hnn. rewrite zlen_cons in Hbound, Hglob.
    pose proof (zlen_nonneg ts) as Hts.
    cbn [ring_args nreserved] in H. cbn [itr_go]. unfold has_reserved in H.
    assert (HB : is_bracket t = true -> kind_of t = K0) by apply bracket_K0.
    destruct (kind_of t) eqn:K.
    + (* K4 *)
      replace (1 + nreserved ts =? 0) with false in H by (symmetry; apply Z.eqb_neq; lia).
      replace (1 + nreserved ts - 1) with (nreserved ts) in H by lia.
      rewrite w32_small in H by (unfold W32 in *; lia).
      destruct (IH (pos + 4) fin ltac:(lia) ltac:(lia) ltac:(lia) ltac:(lia) H Hfin) as (Hle & l & Hl & Hins).
      split; [lia|].
      destruct (is_bracket t) eqn:B; [specialize (HB eq_refl); congruence|].
      unfold extract_arg, arg_size. rewrite K.
      destruct (deref32_total r rk pos Hp) as (v & Hv & _).
      rewrite (rd32_deref32 pos Hp ltac:(lia)) in Hv. rewrite Hv. cbn [bind]. rewrite Hl. cbn [bind].
      eexists. split; [reflexivity|]. cbn [map snd]. constructor; [exact I | exact Hins].
    + (* K8 *)
      replace (1 + nreserved ts =? 0) with false in H by (symmetry; apply Z.eqb_neq; lia).
      replace (1 + nreserved ts - 1) with (nreserved ts) in H by lia.
      rewrite w32_small in H by (unfold W32 in *; lia).
      destruct (IH (pos + 8) fin ltac:(lia) ltac:(lia) ltac:(lia) ltac:(lia) H Hfin) as (Hle & l & Hl & Hins).
      split; [lia|].
      destruct (is_bracket t) eqn:B; [specialize (HB eq_refl); congruence|].
      unfold extract_arg, arg_size, rd64. rewrite K.
      destruct (deref32_total r rk pos Hp) as (v1 & Hv1 & _).
      rewrite (rd32_deref32 pos Hp ltac:(lia)) in Hv1. rewrite Hv1. cbn [bind].
      destruct (deref32_total r rk (pos + 4) ltac:(lia)) as (v2 & Hv2 & _).
      rewrite (rd32_deref32 (pos + 4) ltac:(lia) ltac:(lia)) in Hv2. rewrite Hv2. cbn [bind].
      rewrite Hl. cbn [bind].
      eexists. split; [reflexivity|]. cbn [map snd]. constructor; [exact I | exact Hins].
    + (* KS *)
      replace (1 + nreserved ts =? 0) with false in H by (symmetry; apply Z.eqb_neq; lia).
      replace (1 + nreserved ts - 1) with (nreserved ts) in H by lia.
      destruct (scan0 fuel r pos) as [e| |] eqn:Es; cbn [bind] in H; try discriminate.
      assert (Hposn : pos <= n).
      { destruct (Z_le_gt_dec pos n) as [Hle|Hgt]; [assumption|]. exfalso.
        destruct fuel; [discriminate|]. cbn [scan0] in Es.
        rewrite (deref_out pos ltac:(lia)) in Es. cbn [bind] in Es.
        change (0 =? 0) with true in Es. cbn iota in Es. inversion Es; subst e.
        rewrite w32_small in H by (unfold W32 in *; lia).
        destruct (IH (pos + (4 - (pos - aligned) mod 4)) fin ltac:(lia) ltac:(lia) ltac:(lia) ltac:(lia) H Hfin) as (Hle & _). lia. }
      destruct (scan0_ge fuel pos e Hp Hposn Es) as (Hpe & Hen).
      rewrite w32_small in H by (unfold W32 in *; lia).
      destruct (IH (e + (4 - (e - aligned) mod 4)) fin ltac:(lia) ltac:(lia) ltac:(lia) ltac:(lia) H Hfin) as (Hle & l & Hl & Hins).
      assert (Helt : e < n) by lia.
      destruct (scan0_strz fuel pos e Hp Hposn Es Helt) as (Hstrz & _).
      split; [assumption|].
      destruct (is_bracket t) eqn:B; [specialize (HB eq_refl); congruence|].
      unfold extract_arg, arg_size. rewrite K. cbn [bind]. rewrite Hstrz. cbn [bind].
      replace (pos + (e - pos + (4 - (e - pos) mod 4))) with (e + (4 - (e - aligned) mod 4)) by lia.
      rewrite Hl. cbn [bind]. eexists. split; [reflexivity|].
      cbn [map snd]. constructor; [|exact Hins]. cbn. split; [lia|].
      unfold strz in Hstrz. replace (pos <? 0) with false in Hstrz by (symmetry; apply Z.ltb_ge; lia).
      unfold cstr_at. replace (pos <? 0) with false by (symmetry; apply Z.ltb_ge; lia).
      eapply find0_cstr; eassumption.
    + (* KB *)
      replace (1 + nreserved ts =? 0) with false in H by (symmetry; apply Z.eqb_neq; lia).
      replace (1 + nreserved ts - 1) with (nreserved ts) in H by lia.
      destruct (deref32_total r rk pos Hp) as (i & Hi & Hirange). rewrite Hi in H. cbn [bind] in H.
      rewrite r_total in H. cbn [andb] in H.
      rewrite (w32_small (pos + 4)) in H by (unfold W32 in *; lia).
      destruct (n <? pos + 4 + i) eqn:Eg.
      { inversion H; subst. lia. }
      apply Z.ltb_ge in Eg.
      rewrite (w32_small (pos + 4 + i)) in H by (unfold W32 in *; lia).
      set (p2 := pos + 4 + (if i mod 4 =? 0 then i else i + (4 - i mod 4))).
      assert (Hp2 : (if (pos + 4 + i - aligned) mod 4 =? 0 then pos + 4 + i
                     else w32 (pos + 4 + i + (4 - (pos + 4 + i - aligned) mod 4))) = p2).
      { unfold p2. destruct ((pos + 4 + i - aligned) mod 4 =? 0) eqn:E1;
          [apply Z.eqb_eq in E1 | apply Z.eqb_neq in E1];
          (destruct (i mod 4 =? 0) eqn:E2; [apply Z.eqb_eq in E2 | apply Z.eqb_neq in E2]); try lia.
        rewrite w32_small by (unfold W32 in *; lia). lia. }
      rewrite Hp2 in H.
      assert (Hp2b : pos + 4 + i <= p2 <= pos + 4 + i + 3).
      { unfold p2. destruct (i mod 4 =? 0) eqn:E2; [apply Z.eqb_eq in E2 | apply Z.eqb_neq in E2]; lia. }
      destruct (IH p2 fin ltac:(lia) ltac:(unfold p2; destruct (i mod 4 =? 0) eqn:E2;
                                          [apply Z.eqb_eq in E2 | apply Z.eqb_neq in E2]; lia)
                  ltac:(lia) ltac:(lia) H Hfin) as (Hle & l & Hl & Hins).
      split; [lia|].
      destruct (is_bracket t) eqn:B; [specialize (HB eq_refl); congruence|].
      unfold extract_arg, arg_size. rewrite K.
      rewrite (rd32_deref32 pos Hp ltac:(lia)) in Hi. rewrite Hi. cbn [bind].
      replace (pos + (4 + (if i mod 4 =? 0 then i else (i + (4 - i mod 4)) mod 4294967296))) with p2.
      2:{ unfold p2. destruct (i mod 4 =? 0); [lia|]. rewrite (Z.mod_small (i + (4 - i mod 4))) by lia. lia. }
      rewrite Hl. cbn [bind]. eexists. split; [reflexivity|].
      cbn [map snd]. constructor; [|exact Hins]. cbn. lia.
    + (* K0 *)
      replace (0 + nreserved ts) with (nreserved ts) in H by lia.
      assert (Hrest : pos <= n /\ exists l, itr_go m ts pos = Ok l /\ Forall payload_inside (map snd l)).
      { destruct (nreserved ts =? 0) eqn:E.
        - inversion H; subst. split; [lia|].
          apply Z.eqb_eq in E. apply itr_go_consts. exact E.
        - apply (IH pos fin); [assumption | assumption | lia | lia | assumption | assumption]. }
      destruct Hrest as (Hle & l & Hl & Hins). split; [assumption|].
      destruct (is_bracket t); [exists l; split; assumption|].
      unfold extract_arg, arg_size. rewrite K. cbn [bind].
      replace (pos + 0) with pos by lia. rewrite Hl. cbn [bind].
      eexists. split; [reflexivity|]. cbn [map snd]. constructor; [|exact Hins].
      destruct (t =? 84); [exact I|]. destruct (t =? 70); exact I.
Qed.

Lemma read_tags_len : forall fuel p ts,
  0 <= p -> p <= n -> read_tags fuel r p = Ok ts -> zlen ts <= n - p.
Proof.
  induction fuel as [|fuel IH]; intros p ts Hp Hpn H; [discriminate|].
  cbn [read_tags] in H. destruct (Z_lt_le_dec p n) as [Hlt|Hge].
  - destruct (deref_total r rk p Hp) as (c & Hc & _). rewrite Hc in H. cbn [bind] in H.
    destruct (c =? 0); [inversion H; subst; unfold zlen; cbn [length]; lia|].
    assert (Hn27 : n < 134217728) by (unfold n; exact Hn).
    rewrite w32_small in H by (unfold W32 in *; lia).
    destruct (read_tags fuel r (p + 1)) as [t'| |] eqn:Er; cbn [bind] in H; try discriminate.
    inversion H; subst. rewrite zlen_cons. specialize (IH (p + 1) t' ltac:(lia) ltac:(lia) Er). lia.
  - rewrite (deref_out p Hge) in H. cbn [bind] in H. change (0 =? 0) with true in H. cbn iota in H.
    inversion H; subst. unfold zlen. cbn [length]. lia.
Qed.

(* the NUL word between the address and the ',' : inversion of the four tests *)
Lemma nulword_inv {B} p0 (K : Z -> res B) R :
  0 <= p0 -> p0 + 4 < W32 ->
  (c1 <- deref r (w32 (p0 + 1)) ;;
   pos <- (if negb (c1 =? 0) then Ok (w32 (p0 + 1)) else
    c2 <- deref r (w32 (p0 + 2)) ;;
    if negb (c2 =? 0) then Ok (w32 (p0 + 2)) else
    c3 <- deref r (w32 (p0 + 3)) ;;
    if negb (c3 =? 0) then Ok (w32 (p0 + 3)) else
    c4 <- deref r (w32 (p0 + 4)) ;; Ok (w32 (p0 + 4))) ;;
   K pos) = Ok R ->
  exists pos, K pos = Ok R /\ p0 < pos <= p0 + 4 /\
              forall j, p0 < j < pos -> deref r j = Ok 0.
Proof.
  intros Hp Hw H. rewrite !w32_small in H by (unfold W32 in *; lia).
  destruct (deref r (p0 + 1)) as [c1| |] eqn:E1; cbn [bind] in H; try discriminate.
  destruct (c1 =? 0) eqn:Z1; cbn [negb] in H.
  2:{ cbn [bind] in H. exists (p0 + 1). split; [exact H|]. split; [lia|]. intros j Hj. lia. }
  apply Z.eqb_eq in Z1. subst c1.
  destruct (deref r (p0 + 2)) as [c2| |] eqn:E2; cbn [bind] in H; try discriminate.
  destruct (c2 =? 0) eqn:Z2; cbn [negb] in H.
  2:{ cbn [bind] in H. exists (p0 + 2). split; [exact H|]. split; [lia|]. intros j Hj.
      assert (j = p0 + 1) by lia. subst j. exact E1. }
  apply Z.eqb_eq in Z2. subst c2.
  destruct (deref r (p0 + 3)) as [c3| |] eqn:E3; cbn [bind] in H; try discriminate.
  destruct (c3 =? 0) eqn:Z3; cbn [negb] in H.
  2:{ cbn [bind] in H. exists (p0 + 3). split; [exact H|]. split; [lia|]. intros j Hj.
      assert (j = p0 + 1 \/ j = p0 + 2) as [->| ->] by lia; assumption. }
  apply Z.eqb_eq in Z3. subst c3.
  destruct (deref r (p0 + 4)) as [c4| |] eqn:E4; cbn [bind] in H; try discriminate.
  exists (p0 + 4). split; [exact H|]. split; [lia|]. intros j Hj.
  assert (j = p0 + 1 \/ j = p0 + 2 \/ j = p0 + 3) as [->|[->| ->]] by lia; assumption.
Qed.

Lemma findnz_zeros_rd : forall (k : nat) p q,
  0 <= p -> p + Z.of_nat k = q -> q < n ->
  (forall j, p <= j < q -> rd m j = Ok 0) ->
  (exists c, rd m q = Ok c /\ c <> 0) ->
  findnz (from m p) p = Ok q.
Proof.
  induction k as [|k IH]; intros p q Hp Hq Hqn Hz (c & Hc & Hc0).
  - assert (Hqp : q = p) by lia. clear Hq. subst q.
    destruct (from_cons_rd p ltac:(lia)) as (c' & Hc' & Hf). rewrite Hc in Hc'. inversion Hc'; subst c'.
    rewrite Hf. cbn [findnz]. rewrite (eqb0 c Hc0). reflexivity.
  - destruct (from_cons_rd p ltac:(lia)) as (c' & Hc' & Hf).
    rewrite (Hz p ltac:(lia)) in Hc'. inversion Hc'; subst c'.
    rewrite Hf. cbn [findnz]. change (0 =? 0) with true. cbn iota.
    apply (IH (p + 1) q); [lia | lia | assumption | intros j Hj; apply Hz; lia | exists c; auto].
Qed.

Lemma cstr_len : forall l s, cstr l = Ok s -> (length s < length l)%nat.
Proof.
  induction l as [|c l IH]; intros s H; cbn [cstr] in H; [discriminate|].
  destruct (c =? 0); [inversion H; subst; cbn; lia|].
  destruct (cstr l) as [s'| |] eqn:E; cbn [bind] in H; try discriminate.
  inversion H; subst. cbn [length]. specialize (IH s' eq_refl). lia.
Qed.

Theorem valid_accessors_safe :
  valid_message_p m n = Ok true ->
  exists s tags l,
    arg_string m = Ok s /\ cstr_at m s = Ok tags /\
    narguments m = Ok (count_nonbracket tags) /\
    itr_all m = Ok l /\ zlen l = count_nonbracket tags /\
    map fst l = filter (fun t => negb (is_bracket t)) tags /\
    Forall payload_inside (map snd l) /\
    forall idx, 0 <= idx < count_nonbracket tags ->
      exists t v, nth_error l (Z.to_nat idx) = Some (t, v) /\
                  type_at m idx = Ok t /\ argument m idx = Ok v.
Proof.
  intros H.
  pose proof (zlen_nonneg m) as Hn0. fold n in Hn0.
  assert (Hn27 : n < 134217728) by (unfold n; exact Hn).
  unfold valid_message_p, valid_message_gen in H. cbn [andb] in H.
  destruct (n =? 0) eqn:En0; [discriminate|]. apply Z.eqb_neq in En0.
  destruct (rd m 0) as [c0| |] eqn:Ec0; cbn [bind] in H; try discriminate.
  destruct (c0 =? 47) eqn:E47; cbn [negb] in H; [|discriminate]. apply Z.eqb_eq in E47. subst c0.
  destruct (zlen m <? n); [discriminate|].
  destruct (path_scan m 0 n) as [o1|]; [|discriminate].
  destruct (4 <? comma_scan (from m o1) o1 n - o1); [discriminate|].
  destruct (negb (comma_scan (from m o1) o1 n mod 4 =? 0)); [discriminate|].
  destruct (message_length m n) as [L| |] eqn:EL; cbn [bind] in H; try discriminate.
  assert (HLn : L = n) by (inversion H as [HH]; apply Z.eqb_eq in HH; exact HH). subst L. clear H.
  unfold message_length in EL. change {| d0 := m; n0 := n; d1 := []; n1 := 0 |} with r in EL.
  unfold message_ring_length, message_ring_length_gen in EL.
  (* not the bundle magic: the first byte is '/' *)
  cbn [is_magic bundle_magic] in EL. rewrite (deref_in 0 ltac:(lia)), Ec0 in EL. cbn [bind] in EL.
  change (47 =? 35) with false in EL. cbn iota in EL.
  set (fuel := fuel_of r) in *.
  destruct (scan0 fuel r 0) as [p0| |] eqn:Ep0; cbn [bind] in EL; try discriminate.
  destruct (scan0_ge fuel 0 p0 ltac:(lia) ltac:(lia) Ep0) as (Hp0a & Hp0b).
  destruct (nulword_inv p0 _ n Hp0a ltac:(unfold W32; lia) EL) as (pos & EL' & Hpos & Hzeros).
  clear EL. rename EL' into EL.
  destruct (deref r pos) as [c| |] eqn:Ec; cbn [bind] in EL; try discriminate.
  destruct (c =? 44) eqn:E44; cbn [negb] in EL; [|inversion EL; lia]. apply Z.eqb_eq in E44. subst c.
  assert (Hposn : pos < n).
  { destruct (Z_lt_le_dec pos n) as [Hlt|Hge]; [assumption|]. rewrite (deref_out pos Hge) in Ec. discriminate. }
  assert (Hp0n : p0 < n) by lia.
  rewrite (w32_small (pos + 1)) in EL by (unfold W32; lia).
  destruct (read_tags fuel r (pos + 1)) as [tags| |] eqn:Et; cbn [bind] in EL; try discriminate.
  destruct (scan0 fuel r (pos + 1)) as [e| |] eqn:Ee; cbn [bind] in EL; try discriminate.
  destruct (scan0_ge fuel (pos + 1) e ltac:(lia) ltac:(lia) Ee) as (Hea & Heb).
  pose proof (read_tags_len fuel (pos + 1) tags ltac:(lia) ltac:(lia) Et) as Htl.
  pose proof (zlen_nonneg tags) as Htl0.
  rewrite (w32_small (e + (4 - (e - pos) mod 4))) in EL by (unfold W32; lia).
  destruct (ring_args true fuel r pos (nreserved tags) tags (e + (4 - (e - pos) mod 4))) as [fin| |] eqn:Ef;
    cbn [bind] in EL; try discriminate.
  rewrite r_total in EL.
  destruct (fin <=? n) eqn:Efn; [|inversion EL; lia]. apply Z.leb_le in Efn.
  destruct (ring_args_safe fuel pos tags (e + (4 - (e - pos) mod 4)) fin ltac:(lia) ltac:(lia)
              ltac:(unfold W32; lia) ltac:(unfold W32; lia) Ef Efn) as (Hstart & l & Hl & Hins).
  assert (Helt : e < n) by lia.
  (* the unchecked accessors see the same layout *)
  destruct (scan0_strz fuel 0 p0 ltac:(lia) ltac:(lia) Ep0 Hp0n) as (Hstrz0 & _).
  assert (Hstrz1 : strz m 1 = Ok p0).
  { unfold strz in *. change (0 <? 0) with false in Hstrz0. change (1 <? 0) with false. cbn iota in *.
    destruct (from_cons_rd 0 ltac:(lia)) as (c' & Hc' & Hf). rewrite Ec0 in Hc'. inversion Hc'; subst c'.
    rewrite from_0 in Hf. rewrite from_0, Hf in Hstrz0. cbn [find0] in Hstrz0.
    change (47 =? 0) with false in Hstrz0. cbn iota in Hstrz0. exact Hstrz0. }
  assert (Hargstr : arg_string m = Ok (pos + 1)).
  { unfold arg_string. rewrite Hstrz1. cbn [bind].
    rewrite (findnz_zeros_rd (Z.to_nat (pos - (p0 + 1))) (p0 + 1) pos ltac:(lia) ltac:(lia) Hposn).
    - reflexivity.
    - intros j Hj. rewrite <- (deref_in j ltac:(lia)). apply Hzeros. lia.
    - exists 44. split; [rewrite <- (deref_in pos ltac:(lia)); exact Ec | discriminate]. }
  pose proof (read_tags_cstr fuel (pos + 1) tags e ltac:(lia) ltac:(lia) Et Ee Helt) as Htags.
  destruct (scan0_strz fuel (pos + 1) e ltac:(lia) ltac:(lia) Ee Helt) as (Hstrze & _).
  assert (Hstart' : arg_start m = Ok (e + (4 - (e - pos) mod 4))).
  { unfold arg_start. rewrite Hargstr. cbn [bind]. rewrite Hstrze. cbn [bind].
    replace (pos + 1 - 1) with pos by lia. reflexivity. }
  assert (Hitr : itr_all m = Ok l).
  { unfold itr_all. rewrite Hargstr. cbn [bind]. rewrite Htags. cbn [bind]. rewrite Hstart'. cbn [bind]. exact Hl. }
  exists (pos + 1), tags, l.
  split; [exact Hargstr|]. split; [exact Htags|].
  split; [unfold narguments; rewrite Hargstr; cbn [bind]; rewrite Htags; reflexivity|].
  split; [exact Hitr|]. split; [exact (itr_go_length _ _ _ _ Hl)|].
  split; [exact (itr_go_types _ _ _ _ Hl)|]. split; [exact Hins|].
  intros idx Hidx. rewrite <- (itr_go_length _ _ _ _ Hl) in Hidx.
  destruct (itr_go_index m tags _ l idx Hl Hidx) as (t & v & Hnth & Hty & Hk0 & Hk).
  exists t, v. split; [exact Hnth|].
  assert (Htype : type_at m idx = Ok t).
  { unfold type_at. rewrite Hargstr. cbn [bind]. rewrite Htags. cbn [bind]. rewrite Hty. reflexivity. }
  split; [exact Htype|].
  unfold argument, arg_off. rewrite Htype. cbn [bind]. unfold has_reserved.
  destruct (kind_of t) eqn:K.
  all: try (change (1 =? 0) with false; cbn iota;
            rewrite Hargstr; cbn [bind]; rewrite Htags; cbn [bind]; rewrite Hstart'; cbn [bind];
            rewrite arg_off_go_skip;
            destruct (Hk ltac:(congruence)) as (o & -> & He); cbn [bind]; exact He).
  change (0 =? 0) with true. cbn iota. cbn [bind].
  rewrite (Hk0 eq_refl). unfold extract_arg. rewrite K. reflexivity.
Qed.

(* ---- the layout an accepted buffer has, and the reference decoder ---------- *)
Lemma find0_ge : forall l i e, find0 l i = Ok e -> i <= e.
Proof.
  induction l as [|c l IH]; intros i e H; cbn [find0] in H; [discriminate|].
  destruct (c =? 0); [inversion H; lia | specialize (IH _ _ H); lia].
Qed.

Lemma path_scan_find0 : forall l i len o e,
  path_scan l i len = Some o -> find0 l i = Ok e -> e < len -> o = e.
Proof.
  induction l as [|c l IH]; intros i len o e Hp Hf He; cbn [path_scan find0] in *; [discriminate|].
  destruct (c =? 0) eqn:Ec.
  - inversion Hf; subst. replace (len <=? e) with false in Hp by (symmetry; apply Z.leb_gt; lia).
    inversion Hp. reflexivity.
  - pose proof (find0_ge _ _ _ Hf).
    replace (len <=? i) with false in Hp by (symmetry; apply Z.leb_gt; lia).
    destruct (isprint c); [|discriminate]. eapply IH; eassumption.
Qed.

Lemma comma_scan_run : forall (k : nat) p q,
  0 <= p -> p + Z.of_nat k = q -> q < n ->
  (forall j, p <= j < q -> rd m j = Ok 0) -> rd m q = Ok 44 ->
  comma_scan (from m p) p n = q.
Proof.
  induction k as [|k IH]; intros p q Hp Hq Hqn Hz Hc.
  - assert (Hqp : q = p) by lia. clear Hq. subst q.
    destruct (from_cons_rd p ltac:(lia)) as (c' & Hc' & Hf). rewrite Hc in Hc'. inversion Hc'; subst c'.
    rewrite Hf. cbn [comma_scan]. replace (n <=? p) with false by (symmetry; apply Z.leb_gt; lia).
    reflexivity.
  - destruct (from_cons_rd p ltac:(lia)) as (c' & Hc' & Hf).
    rewrite (Hz p ltac:(lia)) in Hc'. inversion Hc'; subst c'.
    rewrite Hf. cbn [comma_scan]. replace (n <=? p) with false by (symmetry; apply Z.leb_gt; lia).
    change (0 =? 44) with false. cbn iota.
    apply (IH (p + 1) q); [lia | lia | assumption | intros j Hj; apply Hz; lia | assumption].
Qed.

Lemma scan0_stops_on_nul : forall fu q p, 0 <= q -> scan0 fu r q = Ok p -> p < n -> rd m p = Ok 0.
Proof.
  induction fu as [|fu IHf]; intros q p Hq Hs Hlt; [discriminate|].
  cbn [scan0] in Hs. destruct (deref r q) as [c| |] eqn:Ed; cbn [bind] in Hs; try discriminate.
  destruct (c =? 0) eqn:Ec0.
  - inversion Hs; subst q. apply Z.eqb_eq in Ec0. subst c. rewrite <- (deref_in p ltac:(lia)). exact Ed.
  - eapply IHf; [apply w32_nonneg' | exact Hs | exact Hlt].
Qed.

Theorem valid_layout :
  valid_message_p m n = Ok true ->
  exists p0 pos e tags l,
    rd m 0 = Ok 47 /\ strz m 0 = Ok p0 /\ p0 < pos <= p0 + 4 /\ pos mod 4 = 0 /\
    rd m pos = Ok 44 /\ strz m (pos + 1) = Ok e /\ e < n /\
    cstr_at m (pos + 1) = Ok tags /\
    itr_go m tags (e + (4 - (e - pos) mod 4)) = Ok l /\
    Forall payload_inside (map snd l) /\
    arg_string m = Ok (pos + 1) /\ itr_all m = Ok l.
Proof.
  intros H.
  pose proof (zlen_nonneg m) as Hn0. fold n in Hn0.
  assert (Hn27 : n < 134217728) by (unfold n; exact Hn).
  unfold valid_message_p, valid_message_gen in H. cbn [andb] in H.
  destruct (n =? 0) eqn:En0; [discriminate|]. apply Z.eqb_neq in En0.
  destruct (rd m 0) as [c0| |] eqn:Ec0; cbn [bind] in H; try discriminate.
  destruct (c0 =? 47) eqn:E47; cbn [negb] in H; [|discriminate]. apply Z.eqb_eq in E47. subst c0.
  destruct (zlen m <? n); [discriminate|].
  destruct (path_scan m 0 n) as [o1|] eqn:Eo1; [|discriminate].
  destruct (4 <? comma_scan (from m o1) o1 n - o1) eqn:Eo4; [discriminate|].
  destruct (negb (comma_scan (from m o1) o1 n mod 4 =? 0)) eqn:Eom; [discriminate|].
  destruct (message_length m n) as [L| |] eqn:EL; cbn [bind] in H; try discriminate.
  assert (HLn : L = n) by (inversion H as [HH]; apply Z.eqb_eq in HH; exact HH). subst L. clear H.
  unfold message_length in EL. change {| d0 := m; n0 := n; d1 := []; n1 := 0 |} with r in EL.
  unfold message_ring_length, message_ring_length_gen in EL.
  (* not the bundle magic: the first byte is '/' *)
  cbn [is_magic bundle_magic] in EL. rewrite (deref_in 0 ltac:(lia)), Ec0 in EL. cbn [bind] in EL.
  change (47 =? 35) with false in EL. cbn iota in EL.
  set (fuel := fuel_of r) in *.
  destruct (scan0 fuel r 0) as [p0| |] eqn:Ep0; cbn [bind] in EL; try discriminate.
  destruct (scan0_ge fuel 0 p0 ltac:(lia) ltac:(lia) Ep0) as (Hp0a & Hp0b).
  destruct (nulword_inv p0 _ n Hp0a ltac:(unfold W32; lia) EL) as (pos & EL' & Hpos & Hzeros).
  clear EL. rename EL' into EL.
  destruct (deref r pos) as [c| |] eqn:Ec; cbn [bind] in EL; try discriminate.
  destruct (c =? 44) eqn:E44; cbn [negb] in EL; [|inversion EL; lia]. apply Z.eqb_eq in E44. subst c.
  assert (Hposn : pos < n).
  { destruct (Z_lt_le_dec pos n) as [Hlt|Hge]; [assumption|]. rewrite (deref_out pos Hge) in Ec. discriminate. }
  assert (Hp0n : p0 < n) by lia.
  rewrite (w32_small (pos + 1)) in EL by (unfold W32; lia).
  destruct (read_tags fuel r (pos + 1)) as [tags| |] eqn:Et; cbn [bind] in EL; try discriminate.
  destruct (scan0 fuel r (pos + 1)) as [e| |] eqn:Ee; cbn [bind] in EL; try discriminate.
  destruct (scan0_ge fuel (pos + 1) e ltac:(lia) ltac:(lia) Ee) as (Hea & Heb).
  pose proof (read_tags_len fuel (pos + 1) tags ltac:(lia) ltac:(lia) Et) as Htl.
  pose proof (zlen_nonneg tags) as Htl0.
  rewrite (w32_small (e + (4 - (e - pos) mod 4))) in EL by (unfold W32; lia).
  destruct (ring_args true fuel r pos (nreserved tags) tags (e + (4 - (e - pos) mod 4))) as [fin| |] eqn:Ef;
    cbn [bind] in EL; try discriminate.
  rewrite r_total in EL.
  destruct (fin <=? n) eqn:Efn; [|inversion EL; lia]. apply Z.leb_le in Efn.
  destruct (ring_args_safe fuel pos tags (e + (4 - (e - pos) mod 4)) fin ltac:(lia) ltac:(lia)
              ltac:(unfold W32; lia) ltac:(unfold W32; lia) Ef Efn) as (Hstart & l & Hl & Hins).
  assert (Helt : e < n) by lia.
  destruct (scan0_strz fuel 0 p0 ltac:(lia) ltac:(lia) Ep0 Hp0n) as (Hstrz0 & _).
  destruct (scan0_strz fuel (pos + 1) e ltac:(lia) ltac:(lia) Ee Helt) as (Hstrze & _).
  pose proof (read_tags_cstr fuel (pos + 1) tags e ltac:(lia) ltac:(lia) Et Ee Helt) as Htags.
  assert (Hrdpos : rd m pos = Ok 44) by (rewrite <- (deref_in pos ltac:(lia)); exact Ec).
  assert (Ho1 : o1 = p0).
  { unfold strz in Hstrz0. change (0 <? 0) with false in Hstrz0. cbn iota in Hstrz0. rewrite from_0 in Hstrz0.
    eapply path_scan_find0; eassumption. }
  subst o1.
  pose proof (scan0_stops_on_nul fuel 0 p0 ltac:(lia) Ep0 Hp0n) as Hrdp0.
  assert (Ho2 : comma_scan (from m p0) p0 n = pos).
  { apply (comma_scan_run (Z.to_nat (pos - p0)) p0 pos); [lia | lia | assumption | | assumption].
    intros j Hj. destruct (Z.eq_dec j p0) as [->|Hne]; [exact Hrdp0|].
    rewrite <- (deref_in j ltac:(lia)). apply Hzeros. lia. }
  rewrite Ho2 in Eom. destruct (pos mod 4 =? 0) eqn:Epm; [|discriminate]. apply Z.eqb_eq in Epm.
  assert (Hstrz1 : strz m 1 = Ok p0).
  { unfold strz in *. change (0 <? 0) with false in Hstrz0. change (1 <? 0) with false. cbn iota in *.
    destruct (from_cons_rd 0 ltac:(lia)) as (c' & Hc' & Hf). rewrite Ec0 in Hc'. inversion Hc'; subst c'.
    rewrite from_0 in Hf. rewrite from_0, Hf in Hstrz0. cbn [find0] in Hstrz0.
    change (47 =? 0) with false in Hstrz0. cbn iota in Hstrz0. exact Hstrz0. }
  assert (Hargstr : arg_string m = Ok (pos + 1)).
  { unfold arg_string. rewrite Hstrz1. cbn [bind].
    rewrite (findnz_zeros_rd (Z.to_nat (pos - (p0 + 1))) (p0 + 1) pos ltac:(lia) ltac:(lia) Hposn).
    - reflexivity.
    - intros j Hj. rewrite <- (deref_in j ltac:(lia)). apply Hzeros. lia.
    - exists 44. split; [exact Hrdpos | discriminate]. }
  assert (Hitr : itr_all m = Ok l).
  { unfold itr_all, arg_start. rewrite Hargstr. cbn [bind]. rewrite Htags. cbn [bind]. rewrite Hstrze. cbn [bind].
    replace (pos + 1 - 1) with pos by lia. exact Hl. }
  exists p0, pos, e, tags, l.
  repeat split; try assumption; lia.
Qed.

End Buffer.

(* ---- completeness on canonical messages: the validator accepts every OSC 1.0
   encoding whose address starts with '/' and is printable (so the hypothesis
   of [valid_accessors_safe] is satisfiable by every such message) ---------- *)
Definition printable (s : list byte) : Prop := Forall (fun c => 32 <= c <= 126) s.

Lemma path_scan_str s : forall r i len,
  printable s -> i + zlen s < len ->
  path_scan (s ++ 0 :: r) i len = Some (i + zlen s).
Proof.
  induction s as [|c s IH]; intros r i len Hp Hl; cbn [app path_scan].
  - unfold zlen in *. cbn [length] in *. replace (len <=? i) with false by (symmetry; apply Z.leb_gt; lia).
    change (0 =? 0) with true. cbn iota. f_equal. lia.
  - inversion Hp as [|? ? Hc Hs]; subst. rewrite zlen_cons in *. pose proof (zlen_nonneg s).
    replace (len <=? i) with false by (symmetry; apply Z.leb_gt; lia).
    replace (c =? 0) with false by (symmetry; apply Z.eqb_neq; lia).
    unfold isprint. replace (32 <=? c) with true by (symmetry; apply Z.leb_le; lia).
    replace (c <=? 126) with true by (symmetry; apply Z.leb_le; lia). cbn [andb].
    rewrite IH by (auto; lia). f_equal. lia.
Qed.

Lemma comma_scan_zeros k : forall r i len, 0 <= k -> i + k < len ->
  comma_scan (zeros k ++ 44 :: r) i len = i + k.
Proof.
  intros r i len Hk. revert i. pattern k. apply natlike_ind; [| |exact Hk].
  - intros i Hl. cbn [zeros Z.to_nat repeat app comma_scan].
    replace (len <=? i) with false by (symmetry; apply Z.leb_gt; lia).
    change (44 =? 44) with true. cbn iota. lia.
  - intros x Hx IH i Hl. rewrite <- Z.add_1_r, zeros_succ by assumption. cbn [app comma_scan].
    replace (len <=? i) with false by (symmetry; apply Z.leb_gt; lia).
    change (0 =? 44) with false. cbn iota. rewrite IH by lia. lia.
Qed.

Theorem valid_enc (a' : list byte) tags args :
  let a : list byte := (47 : byte) :: a' in
  msg_wf a tags args -> printable a -> zlen (enc_spec a tags args) < W32 ->
  valid_message_p (enc_spec a tags args) (zlen (enc_spec a tags args)) = Ok true.
Proof.
  intros a WF Hpr Hsz.
  pose proof (zlen_enc_spec a tags args) as HL. unfold align4 in HL.
  pose proof (zlen_nonneg a) as Ha0. pose proof (zlen_nonneg tags). 
  pose proof (zlen_nonneg (concat (map enc_payload args))).
  set (m := enc_spec a tags args) in *. set (n := zlen m) in *.
  assert (Hlay : m = a ++ zeros (4 - zlen a mod 4) ++ (44 :: tags) ++ zeros (4 - (1 + zlen tags) mod 4)
                       ++ concat (map enc_payload args)) by apply enc_layout.
  assert (Hka : 1 <= 4 - zlen a mod 4 <= 4) by lia.
  unfold valid_message_p, valid_message_gen. cbn [andb].
  replace (n =? 0) with false by (symmetry; apply Z.eqb_neq; lia).
  assert (Hrd0 : rd m 0 = Ok 47).
  { eapply rd_from; [lia|]. rewrite from_0, Hlay. unfold a. reflexivity. }
  rewrite Hrd0. cbn [bind]. change (47 =? 47) with true. cbn [negb].
  replace (zlen m <? n) with false by (symmetry; apply Z.ltb_ge; unfold n; lia).
  assert (Hps : path_scan m 0 n = Some (zlen a)).
  { rewrite Hlay at 1. rewrite (zeros_pos _ (proj1 Hka)). cbn [app].
    rewrite path_scan_str by (auto; lia). reflexivity. }
  rewrite Hps.
  assert (Hfrom : from m (zlen a) = zeros (4 - zlen a mod 4) ++ 44 :: (tags ++ zeros (4 - (1 + zlen tags) mod 4)
                                    ++ concat (map enc_payload args))).
  { rewrite Hlay at 1. rewrite from_app_len. reflexivity. }
  rewrite Hfrom. rewrite comma_scan_zeros by lia.
  replace (4 <? zlen a + (4 - zlen a mod 4) - zlen a) with false by (symmetry; apply Z.ltb_ge; lia).
  replace ((zlen a + (4 - zlen a mod 4)) mod 4 =? 0) with true by (symmetry; apply Z.eqb_eq; lia).
  cbn [negb].
  assert (NB : not_bundle_addr a) by (unfold not_bundle_addr, bundle7, a; discriminate).
  pose proof (message_length_enc a tags args [] n WF NB Hsz ltac:(unfold n, m; lia)) as HML.
  rewrite app_nil_r in HML. fold m in HML. rewrite HML. cbn [bind]. fold n.
  rewrite Z.eqb_refl. reflexivity.
Qed.
