(* Regression witnesses: the functions of the pinned tree that were repaired,
   each with the input on which the property failed. *)
From Coq Require Import List ZArith Lia.
From RtoscV Require Import Osc.OscModel Osc.OscEncProofs Osc.OscReadProofs Osc.OscLenProofs.
Import ListNotations.
Local Open Scope Z_scope.

(* D1: rtosc_narguments counted the tag after each position: "[i]" -> 2 *)
Lemma narguments_pinned_refuted :
  exists tags, count_next_nonbracket tags <> count_nonbracket tags.
Proof. exists [91; 105; 93]. vm_compute. discriminate. Qed.

Lemma example_msg_wf :
  msg_wf [47; 97; 98] [115; 91; 105; 98; 93; 84]
         [PStr [104; 101; 108; 108; 111]; P4 4294967295; PBlob 3 (Some [1; 2; 3])]
  /\ not_bundle_addr [47; 97; 98].
Proof.
  split; [constructor|].
  - discriminate.
  - repeat constructor; discriminate.
  - repeat constructor; discriminate.
  - reflexivity.
  - repeat constructor; cbn; try lia; repeat constructor; discriminate.
  - unfold not_bundle_addr, bundle7. discriminate.
Qed.

(* D5b: a blob length of 0xfffffffc wraps the 32-bit position: the pinned
   validator accepts the 12 bytes "/a\0\0,bi\0" ff ff ff fc, and
   argument 1 then lies 4 GiB away; the repaired one rejects them *)
Definition d5b : list byte := [47; 97; 0; 0; 44; 98; 105; 0; 255; 255; 255; 252].
Lemma valid_pinned_accepts_wrapping_blob :
  valid_message_p_pinned d5b 12 = Ok true /\ argument d5b 1 = Oob /\
  valid_message_p d5b 12 = Ok false.
Proof. vm_compute. split; [reflexivity | split; reflexivity]. Qed.

(* D5c: a bundle element size of 0xfffffffc never lets the pinned loop advance
   (fuel exhausted = does not terminate within |buffer|+2 iterations) *)
Definition d5c : list byte := bundle_magic ++ [0; 0; 0; 0; 0; 0; 0; 1; 255; 255; 255; 252].
Lemma length_pinned_loops :
  message_length_pinned d5c 20 = Fuel /\ message_length d5c 20 = Ok 0.
Proof. vm_compute. split; reflexivity. Qed.

(* D5a: the pinned validator reads msg[0] of an empty buffer *)
Lemma valid_pinned_reads_empty :
  valid_message_p_pinned [] 0 = Oob /\ valid_message_p [] 0 = Ok false.
Proof. vm_compute. split; reflexivity. Qed.

(* D2: the pinned rtosc_bundle writes past a 10-byte destination (the model
   reports the out-of-bounds write); the repaired one returns 0 and leaves
   the destination zero-filled *)
Lemma bundle_pinned_overflows :
  bundle_pinned (repeat 170 10) 0 [] = Oob /\
  bundle (repeat 170 10) 0 [] = Ok (0, repeat 0 10).
Proof. vm_compute. split; reflexivity. Qed.

From RtoscV Require Import Osc.OscBundleProofs.
Lemma example_bundle_wf :
  elem_wf (Bun 7 [Msg (enc_spec [47; 97; 98] [115; 91; 105; 98; 93; 84]
                         [PStr [104; 101; 108; 108; 111]; P4 4294967295; PBlob 3 (Some [1; 2; 3])]);
                  Bun 1 []]).
Proof.
  apply wf_bun; [lia| |vm_compute; reflexivity].
  constructor; [|constructor; [|constructor]].
  - apply wf_msg; [apply example_msg_wf | apply example_msg_wf | vm_compute; reflexivity].
  - apply wf_bun; [lia | constructor | vm_compute; reflexivity].
Qed.

From RtoscV Require Import Osc.OscTotalProofs.
Lemma witnesses_bytes_ok : bytes_ok d5b /\ bytes_ok d5c /\ zlen d5c < W32 - 16.
Proof.
  split; [|split].
  - unfold bytes_ok, d5b. repeat constructor; lia.
  - unfold bytes_ok, d5c, bundle_magic. cbn [app]. repeat constructor; lia.
  - vm_compute. reflexivity.
Qed.

(* an ACCEPTED buffer (premise of the theorems about accepted buffers), chosen
   non-canonical: "/a" ",s" "a" with a non-NUL byte in the string's padding *)
Definition acc_noncanon : list byte := [47; 97; 0; 0; 44; 115; 0; 0; 97; 0; 0; 255].
Lemma accepted_witness :
  bytes_ok acc_noncanon /\ zlen acc_noncanon < 134217728 /\
  valid_message_p acc_noncanon (zlen acc_noncanon) = Ok true.
Proof.
  split; [|split].
  - unfold bytes_ok, acc_noncanon. repeat constructor; lia.
  - vm_compute. reflexivity.
  - vm_compute. reflexivity.
Qed.

(* the example message lies inside code_range *)
Lemma example_code_range :
  code_range [47; 97; 98] [115; 91; 105; 98; 93; 84]
             [PStr [104; 101; 108; 108; 111]; P4 4294967295; PBlob 3 (Some [1; 2; 3])].
Proof. split; [vm_compute; reflexivity | repeat constructor]. Qed.
