(* Byte-level model of src/rtosc.c (C01, C02, C07, C08).
   - Spec encoder straight from the OSC 1.0 text (enc_spec)
   - code-shaped models of vsosc_null, rtosc_amessage (as a sequence of
     cursor chunks: write / skip), the unchecked readers (argument string,
     narguments, type, arg_off/arg_size/extract_arg, iterator), the checked
     length functions with the code's 32-bit unsigned arithmetic
     (deref, bundle_ring_length, rtosc_message_ring_length, rtosc_message_length,
     rtosc_valid_message_p), and the bundle builder/readers.
   Reads outside the memory are representable: every reader returns [res].
   No proofs in this file. *)
From Coq Require Import List ZArith Bool.
Import ListNotations.
Local Open Scope Z_scope.

Definition byte := Z.

(* ---- results: a value, an out-of-bounds access, or fuel exhausted (the
   model of a loop that does not terminate within the stated bound) -------- *)
Inductive res (A : Type) := Ok (a : A) | Oob | Fuel.
Arguments Ok {A} a. Arguments Oob {A}. Arguments Fuel {A}.
Definition bind {A B} (r : res A) (f : A -> res B) : res B :=
  match r with Ok a => f a | Oob => Oob | Fuel => Fuel end.
Notation "x <- r ;; k" := (bind r (fun x => k)) (at level 61, r at next level, right associativity).

Definition zlen {A} (l : list A) : Z := Z.of_nat (length l).

(* memory read *)
(* (the index is compared with the length first so that a huge index is never
   turned into a unary number) *)
Definition rd (m : list byte) (i : Z) : res byte :=
  if i <? 0 then Oob else if zlen m <=? i then Oob else
  match nth_error m (Z.to_nat i) with Some b => Ok b | None => Oob end.

(* ---- type tags ----------------------------------------------------------- *)
Inductive kind := K4 | K8 | KS | KB | K0.

(* has_reserved and the size class, from the switch statements of rtosc.c *)
Definition kind_of (t : byte) : kind :=
  if (t =? 105) || (t =? 102) || (t =? 99) || (t =? 114) || (t =? 109) then K4   (* i f c r m *)
  else if (t =? 104) || (t =? 116) || (t =? 100) then K8                           (* h t d *)
  else if (t =? 115) || (t =? 83) then KS                                          (* s S *)
  else if (t =? 98) then KB                                                        (* b *)
  else K0.                                                                         (* T F N I [ ] and anything else *)

Definition has_reserved (t : byte) : Z := match kind_of t with K0 => 0 | _ => 1 end.
Definition is_bracket (t : byte) : bool := (t =? 91) || (t =? 93).

Fixpoint nreserved (tags : list byte) : Z :=
  match tags with [] => 0 | t :: r => has_reserved t + nreserved r end.

(* ---- argument values as the constructors receive them ------------------- *)
Inductive payload :=
| P4 (bits : Z)                         (* i f c r m : 32-bit pattern *)
| P8 (bits : Z)                         (* h t d     : 64-bit pattern *)
| PStr (s : list byte)                  (* s S       : bytes before the NUL *)
| PBlob (len : Z) (data : option (list byte)).   (* b : int32 len, data or NULL *)

Definition be32 (x : Z) : list byte :=
  [x / 16777216 mod 256; x / 65536 mod 256; x / 256 mod 256; x mod 256].
Definition be64 (x : Z) : list byte :=
  be32 (x / 4294967296 mod 4294967296) ++ be32 (x mod 4294967296).
Definition unbe32 (a b c d : Z) : Z := a * 16777216 + b * 65536 + c * 256 + d.

Definition zeros (n : Z) : list byte := repeat 0 (Z.to_nat n).

(* ---- Spec: the OSC 1.0 encoding ------------------------------------------ *)
(* OSC-string: the bytes, a NUL, then NULs up to a multiple of 4 *)
Definition pad4z (s : list byte) : list byte := s ++ zeros (4 - zlen s mod 4).

Definition enc_payload (p : payload) : list byte :=
  match p with
  | P4 b => be32 b
  | P8 b => be64 b
  | PStr s => pad4z s
  | PBlob len d =>
      be32 len ++ (match d with Some bs => bs | None => zeros len end)
               ++ zeros ((4 - len mod 4) mod 4)
  end.

Definition payload_fits (k : kind) (p : payload) : bool :=
  match k, p with
  | K4, P4 _ | K8, P8 _ | KS, PStr _ | KB, PBlob _ _ => true
  | _, _ => false
  end.

(* one payload per value-carrying tag, in order *)
Fixpoint args_match (tags : list byte) (args : list payload) : bool :=
  match tags with
  | [] => match args with [] => true | _ => false end
  | t :: ts =>
      match kind_of t with
      | K0 => args_match ts args
      | k => match args with
             | p :: ps => payload_fits k p && args_match ts ps
             | [] => false
             end
      end
  end.

Definition enc_spec (a tags : list byte) (args : list payload) : list byte :=
  pad4z a ++ pad4z (44 :: tags) ++ concat (map enc_payload args).

(* ---- vsosc_null: the measuring pass -------------------------------------- *)
Definition align4 (pos : Z) : Z := pos + (4 - pos mod 4).
Definition align4' (pos : Z) : Z := if pos mod 4 =? 0 then pos else pos + (4 - pos mod 4).

Fixpoint size_args (toparse : Z) (tags : list byte) (args : list payload) (pos : Z) : res Z :=
  if toparse =? 0 then Ok pos else
  match tags with
  | [] => Oob                                  (* reads past the terminator *)
  | t :: ts =>
      match kind_of t with
      | K0 => size_args toparse ts args pos
      | K8 => size_args (toparse - 1) ts (tl args) (pos + 8)
      | K4 => size_args (toparse - 1) ts (tl args) (pos + 4)
      | KS => match args with
              | PStr s :: r => size_args (toparse - 1) ts r (align4 (pos + zlen s))
              | _ => Oob
              end
      | KB => match args with
              | PBlob len _ :: r => size_args (toparse - 1) ts r (align4' (pos + 4 + len))
              | _ => Oob
              end
      end
  end.

Definition size_null (a tags : list byte) (args : list payload) : res Z :=
  let pos := align4 (zlen a) in
  let pos := align4 (pos + 1 + zlen tags) in
  size_args (nreserved tags) tags args pos.

(* ---- rtosc_amessage: the writing pass, as cursor chunks ------------------- *)
Inductive chunk := Wr (bs : list byte) | Skip (n : Z).

Fixpoint write_args (toparse : Z) (tags : list byte) (args : list payload) (pos : Z)
  : res (list chunk * Z) :=
  if toparse =? 0 then Ok ([], pos) else
  match tags with
  | [] => Oob
  | t :: ts =>
      match kind_of t with
      | K0 => write_args toparse ts args pos
      | K8 => match args with
              | P8 b :: r => x <- write_args (toparse - 1) ts r (pos + 8) ;;
                             Ok (Wr (be64 b) :: fst x, snd x)
              | _ => Oob
              end
      | K4 => match args with
              | P4 b :: r => x <- write_args (toparse - 1) ts r (pos + 4) ;;
                             Ok (Wr (be32 b) :: fst x, snd x)
              | _ => Oob
              end
      | KS => match args with
              | PStr s :: r =>
                  let p1 := pos + zlen s in
                  x <- write_args (toparse - 1) ts r (align4 p1) ;;
                  Ok (Wr s :: Skip (4 - p1 mod 4) :: fst x, snd x)
              | _ => Oob
              end
      | KB => match args with
              | PBlob len d :: r =>
                  let p1 := pos + 4 + len in
                  let pad := if p1 mod 4 =? 0 then [] else [Skip (4 - p1 mod 4)] in
                  match d with
                  | Some bs =>
                      (* while(i--) buffer[pos++] = *u++ : exactly len bytes are read *)
                      if zlen bs =? len then
                        x <- write_args (toparse - 1) ts r (align4' p1) ;;
                        Ok (Wr (be32 len) :: Wr bs :: pad ++ fst x, snd x)
                      else Oob
                  | None =>
                      if len <? 0 then Oob else
                      x <- write_args (toparse - 1) ts r (align4' p1) ;;
                      Ok (Wr (be32 len) :: Skip len :: pad ++ fst x, snd x)
                  end
              | _ => Oob
              end
      end
  end.

(* apply chunks to the buffer region that starts at the cursor; a write that
   does not fit in the region is an out-of-bounds write *)
Fixpoint apply_chunks (buf : list byte) (cs : list chunk) : res (list byte) :=
  match cs with
  | [] => Ok buf
  | Wr bs :: r =>
      if zlen bs <=? zlen buf then
        rest <- apply_chunks (skipn (length bs) buf) r ;; Ok (bs ++ rest)
      else Oob
  | Skip n :: r =>
      if (0 <=? n) && (n <=? zlen buf) then
        rest <- apply_chunks (skipn (Z.to_nat n) buf) r ;; Ok (firstn (Z.to_nat n) buf ++ rest)
      else if n <? 0 then Oob
      else (* the cursor moves past the end; nothing is written by a skip *)
        match r with [] => Ok buf | _ => Oob end
  end.

Definition msg_chunks (a tags : list byte) (args : list payload) : res (list chunk * Z) :=
  let p0 := zlen a in
  let p1 := align4 p0 in
  let p2 := p1 + 1 + zlen tags in
  x <- write_args (nreserved tags) tags args (align4 p2) ;;
  Ok (Wr a :: Skip (4 - p0 mod 4) :: Wr (44 :: tags) :: Skip (4 - p2 mod 4) :: fst x, snd x).

(* rtosc_amessage(buffer, len, address, arguments, args):
   buf = None is the NULL probe; Some b is a destination of capacity |b|.
   Result: (return value, buffer afterwards) *)
Definition amessage (buf : option (list byte)) (a tags : list byte) (args : list payload)
  : res (Z * option (list byte)) :=
  total <- size_null a tags args ;;
  match buf with
  | None => Ok (total, None)
  | Some b =>
      if zlen b <? total then Ok (0, Some (zeros (zlen b)))
      else
        let b0 := zeros total ++ skipn (Z.to_nat total) b in
        x <- msg_chunks a tags args ;;
        b' <- apply_chunks b0 (fst x) ;;
        Ok (snd x, Some b')
  end.

(* ---- unchecked readers (what rtosc_argument & co. do with a pointer) ------ *)
(* first index >= i holding a NUL / a non-NUL *)
Fixpoint find0 (l : list byte) (i : Z) : res Z :=
  match l with [] => Oob | c :: t => if c =? 0 then Ok i else find0 t (i + 1) end.
Fixpoint findnz (l : list byte) (i : Z) : res Z :=
  match l with [] => Oob | c :: t => if c =? 0 then findnz t (i + 1) else Ok i end.
Definition from (m : list byte) (i : Z) : list byte :=
  if zlen m <=? i then [] else skipn (Z.to_nat i) m.
Definition strz (m : list byte) (i : Z) : res Z := if i <? 0 then Oob else find0 (from m i) i.

(* while( *++msg); while(! *++msg); return msg+1; *)
Definition arg_string (m : list byte) : res Z :=
  p1 <- strz m 1 ;;
  p2 <- findnz (from m (p1 + 1)) (p1 + 1) ;;
  Ok (p2 + 1).

(* bytes of the C string at offset i *)
Fixpoint cstr (l : list byte) : res (list byte) :=
  match l with
  | [] => Oob
  | c :: t => if c =? 0 then Ok [] else s <- cstr t ;; Ok (c :: s)
  end.
Definition cstr_at (m : list byte) (i : Z) : res (list byte) :=
  if i <? 0 then Oob else cstr (from m i).

(* rtosc_narguments as repaired ("fix: rtosc_narguments ..."): one per tag
   that is not a bracket *)
Fixpoint count_nonbracket (tags : list byte) : Z :=
  match tags with [] => 0 | t :: r => (if is_bracket t then 0 else 1) + count_nonbracket r end.
Definition narguments (m : list byte) : res Z :=
  a <- arg_string m ;; tags <- cstr_at m a ;; Ok (count_nonbracket tags).

(* the pinned tree's loop: while( *args++) nargs += ( *args is a bracket) ? 0 : 1
   -- it inspects the character AFTER each position (kept as regression witness) *)
Fixpoint count_next_nonbracket (tags : list byte) : Z :=
  match tags with
  | [] => 0
  | _ :: r => (match r with c :: _ => if is_bracket c then 0 else 1 | [] => 1 end)
              + count_next_nonbracket r
  end.
Definition narguments_pinned (m : list byte) : res Z :=
  a <- arg_string m ;; tags <- cstr_at m a ;; Ok (count_next_nonbracket tags).

(* rtosc_type: the tag of value number n (brackets skipped); 0 past the end *)
Fixpoint type_in (tags : list byte) (n : nat) : byte :=
  match tags with
  | [] => 0
  | t :: r => if is_bracket t then type_in r n
              else match n with O => t | S n' => type_in r n' end
  end.
Definition type_at (m : list byte) (n : Z) : res byte :=
  a <- arg_string m ;; tags <- cstr_at m a ;; Ok (type_in tags (Z.to_nat n)).

(* arg_start: offset of the first argument's bytes *)
Definition arg_start (m : list byte) : res Z :=
  a <- arg_string m ;;
  e <- strz m a ;;
  Ok (e + (4 - (e - (a - 1)) mod 4)).

Definition rd32 (m : list byte) (p : Z) : res Z :=
  a <- rd m p ;; b <- rd m (p + 1) ;; c <- rd m (p + 2) ;; d <- rd m (p + 3) ;;
  Ok (unbe32 a b c d).
Definition rd64 (m : list byte) (p : Z) : res Z :=
  hi <- rd32 m p ;; lo <- rd32 m (p + 4) ;; Ok (hi * 4294967296 + lo).

(* arg_size(arg_mem, type) *)
Definition arg_size (m : list byte) (p : Z) (t : byte) : res Z :=
  match kind_of t with
  | K0 => Ok 0
  | K8 => Ok 8
  | K4 => Ok 4
  | KS => e <- strz m p ;; Ok ((e - p) + (4 - (e - p) mod 4))
  | KB => len <- rd32 m p ;;
          let len' := if len mod 4 =? 0 then len else (len + (4 - len mod 4)) mod 4294967296 in
          Ok (4 + len')
  end.

(* arg_off(msg, idx): walk idx values from the first argument *)
Fixpoint skip_brackets (tags : list byte) : list byte :=
  match tags with t :: r => if is_bracket t then skip_brackets r else tags | [] => [] end.

Fixpoint arg_off_walk (m : list byte) (tags : list byte) (idx : nat) (p : Z) : res Z :=
  match idx with
  | O => Ok p
  | S idx' =>
      match tags with
      | [] => (* type = NUL read from the terminator, then further reads run
                 past the string: treated as out of bounds *) Oob
      | t :: r =>
          if is_bracket t then arg_off_walk m r idx p
          else sz <- arg_size m p t ;; arg_off_walk m r idx' (p + sz)
      end
  end.
(* structural recursion needs idx fixed on brackets: use fuel = tags *)
Fixpoint arg_off_go (m : list byte) (tags : list byte) (idx : Z) (p : Z) : res Z :=
  if idx <=? 0 then Ok p else
  match tags with
  | [] => Oob
  | t :: r =>
      if is_bracket t then arg_off_go m r idx p
      else sz <- arg_size m p t ;; arg_off_go m r (idx - 1) (p + sz)
  end.

Definition arg_off (m : list byte) (idx : Z) : res Z :=
  t <- type_at m idx ;;
  if has_reserved t =? 0 then Ok 0 else
  a <- arg_string m ;; tags <- cstr_at m a ;; s <- arg_start m ;;
  arg_off_go m (skip_brackets tags) idx s.

(* decoded argument: numbers as bit patterns, strings/blobs as offsets *)
Inductive argval :=
| V4 (bits : Z) | V8 (bits : Z) | VStr (off : Z) | VBlob (len : Z) (off : Z)
| VT (b : bool) | V0.

Definition extract_arg (m : list byte) (p : Z) (t : byte) : res argval :=
  match kind_of t with
  | K0 => Ok (if t =? 84 then VT true else if t =? 70 then VT false else V0)
  | K8 => v <- rd64 m p ;; Ok (V8 v)
  | K4 => v <- rd32 m p ;; Ok (V4 v)
  | KS => Ok (VStr p)
  | KB => v <- rd32 m p ;; Ok (VBlob v (p + 4))
  end.

Definition argument (m : list byte) (idx : Z) : res argval :=
  t <- type_at m idx ;; o <- arg_off m idx ;; extract_arg m o t.

(* iterator: rtosc_itr_begin / rtosc_itr_next / rtosc_itr_end, run to the end *)
Fixpoint itr_go (m : list byte) (tags : list byte) (p : Z) : res (list (byte * argval)) :=
  match tags with
  | [] => Ok []
  | t :: r =>
      if is_bracket t then itr_go m r p
      else
        v <- extract_arg m p t ;;
        sz <- arg_size m p t ;;
        rest <- itr_go m r (p + sz) ;;
        Ok ((t, v) :: rest)
  end.
Definition itr_all (m : list byte) : res (list (byte * argval)) :=
  a <- arg_string m ;; tags <- cstr_at m a ;; s <- arg_start m ;; itr_go m tags s.

(* ---- checked length functions: 32-bit unsigned arithmetic ---------------- *)
Definition W32 : Z := 4294967296.
Definition w32 (x : Z) : Z := x mod W32.

(* deref(pos, ring): ring = two segments (data, claimed length); a claimed
   length larger than the memory behind it makes the read out of bounds *)
Record ring := { d0 : list byte; n0 : Z; d1 : list byte; n1 : Z }.
Definition deref (r : ring) (pos : Z) : res byte :=
  if pos <? n0 r then rd (d0 r) pos
  else if pos - n0 r <? n1 r then rd (d1 r) (pos - n0 r)
  else Ok 0.

(* smallest p >= pos (walking with 32-bit wrap) with deref p = 0 *)
Fixpoint scan0 (fuel : nat) (r : ring) (pos : Z) : res Z :=
  match fuel with
  | O => Fuel
  | S f => c <- deref r pos ;; if c =? 0 then Ok pos else scan0 f r (w32 (pos + 1))
  end.

(* the tag characters from pos up to the NUL *)
Fixpoint read_tags (fuel : nat) (r : ring) (pos : Z) : res (list byte) :=
  match fuel with
  | O => Fuel
  | S f => c <- deref r pos ;;
           if c =? 0 then Ok [] else t <- read_tags f r (w32 (pos + 1)) ;; Ok (c :: t)
  end.

Definition deref32 (r : ring) (pos : Z) : res Z :=
  a <- deref r pos ;; b <- deref r (w32 (pos + 1)) ;;
  c <- deref r (w32 (pos + 2)) ;; d <- deref r (w32 (pos + 3)) ;;
  Ok (unbe32 a b c d).

Definition ring_total (r : ring) : Z := n0 r + n1 r.

(* bundle_ring_length as repaired ("fix: ... bundle element size"): an element
   that would end beyond the ring makes the result 0 *)
Fixpoint bundle_len_go (fuel : nat) (r : ring) (pos : Z) : res Z :=
  match fuel with
  | O => Fuel
  | S f =>
      adv <- deref32 r pos ;;
      if adv =? 0 then Ok pos
      else if ring_total r - pos - 4 <? adv then Ok (ring_total r + 1) (* -> reported as 0 *)
      else bundle_len_go f r (w32 (pos + 4 + adv))
  end.

(* the pinned tree's loop (no bound on the element size; 32-bit wrap) *)
Fixpoint bundle_len_go_pinned (fuel : nat) (r : ring) (pos : Z) : res Z :=
  match fuel with
  | O => Fuel
  | S f =>
      adv <- deref32 r pos ;;
      if adv =? 0 then Ok pos else bundle_len_go_pinned f r (w32 (pos + 4 + adv))
  end.

Definition fuel_of (r : ring) : nat := S (S (length (d0 r) + length (d1 r))).

Definition bundle_ring_length (r : ring) : res Z :=
  pos <- bundle_len_go (fuel_of r) r 16 ;;
  Ok (if pos <=? ring_total r then pos else 0).
Definition bundle_ring_length_pinned (r : ring) : res Z :=
  pos <- bundle_len_go_pinned (fuel_of r) r 16 ;;
  Ok (if pos <=? ring_total r then pos else 0).

Definition bundle_magic : list byte := [35; 98; 117; 110; 100; 108; 101; 0].

Fixpoint is_magic (r : ring) (i : Z) (l : list byte) : res bool :=
  match l with
  | [] => Ok true
  | c :: t => x <- deref r i ;; if x =? c then is_magic r (i + 1) t else Ok false
  end.

(* the tag loop of rtosc_message_ring_length; [guard] selects the repaired
   blob-length check *)
Fixpoint ring_args (guard : bool) (fuel : nat) (r : ring) (aligned : Z)
         (toparse : Z) (tags : list byte) (pos : Z) : res Z :=
  if toparse =? 0 then Ok pos else
  match tags with
  | [] => Oob
  | t :: ts =>
      match kind_of t with
      | K0 => ring_args guard fuel r aligned toparse ts pos
      | K8 => ring_args guard fuel r aligned (toparse - 1) ts (w32 (pos + 8))
      | K4 => ring_args guard fuel r aligned (toparse - 1) ts (w32 (pos + 4))
      | KS => e <- scan0 fuel r pos ;;
              ring_args guard fuel r aligned (toparse - 1) ts
                        (w32 (e + (4 - (e - aligned) mod 4)))
      | KB => i <- deref32 r pos ;;
              if guard && (ring_total r <? w32 (pos + 4) + i) then Ok (ring_total r + 1)
              else
              let p1 := w32 (pos + 4 + i) in
              let p2 := if (p1 - aligned) mod 4 =? 0 then p1
                        else w32 (p1 + (4 - (p1 - aligned) mod 4)) in
              ring_args guard fuel r aligned (toparse - 1) ts p2
      end
  end.

Definition message_ring_length_gen (guard : bool) (r : ring) : res Z :=
  mg <- is_magic r 0 bundle_magic ;;
  if mg then (if guard then bundle_ring_length r else bundle_ring_length_pinned r) else
  let fuel := fuel_of r in
  p0 <- scan0 fuel r 0 ;;
  (* for(i<4) if(deref(++pos)) break; *)
  c1 <- deref r (w32 (p0 + 1)) ;;
  pos <- (if negb (c1 =? 0) then Ok (w32 (p0 + 1)) else
          c2 <- deref r (w32 (p0 + 2)) ;;
          if negb (c2 =? 0) then Ok (w32 (p0 + 2)) else
          c3 <- deref r (w32 (p0 + 3)) ;;
          if negb (c3 =? 0) then Ok (w32 (p0 + 3)) else
          c4 <- deref r (w32 (p0 + 4)) ;; Ok (w32 (p0 + 4))) ;;
  c <- deref r pos ;;
  if negb (c =? 44) then Ok 0 else
  let aligned := pos in
  tags <- read_tags fuel r (w32 (pos + 1)) ;;
  e <- scan0 fuel r (w32 (pos + 1)) ;;
  let pos := w32 (e + (4 - (e - aligned) mod 4)) in
  fin <- ring_args guard fuel r aligned (nreserved tags) tags pos ;;
  Ok (if fin <=? ring_total r then fin else 0).

Definition message_ring_length := message_ring_length_gen true.
Definition message_ring_length_pinned := message_ring_length_gen false.

(* rtosc_message_length(msg, len): len may be "unbounded" (size_t -1) *)
Definition SIZE_MAX : Z := 18446744073709551615.
Definition message_length (m : list byte) (len : Z) : res Z :=
  message_ring_length {| d0 := m; n0 := len; d1 := []; n1 := 0 |}.
Definition message_length_pinned (m : list byte) (len : Z) : res Z :=
  message_ring_length_pinned {| d0 := m; n0 := len; d1 := []; n1 := 0 |}.

(* rtosc_valid_message_p *)
Definition isprint (c : byte) : bool := (32 <=? c) && (c <=? 126).

Fixpoint path_scan (l : list byte) (i : Z) (len : Z) : option Z :=   (* None = non-printable *)
  if len <=? i then Some i else
  match l with
  | [] => Some i
  | c :: t => if c =? 0 then Some i else if isprint c then path_scan t (i + 1) len else None
  end.
Fixpoint comma_scan (l : list byte) (i : Z) (len : Z) : Z :=
  if len <=? i then i else
  match l with
  | [] => i
  | c :: t => if c =? 44 then i else comma_scan t (i + 1) len
  end.

Definition valid_message_gen (guard : bool) (m : list byte) (len : Z) : res bool :=
  if guard && (len =? 0) then Ok false else
  c0 <- rd m 0 ;;
  if negb (c0 =? 47) then Ok false else
  if zlen m <? len then Oob else
  match path_scan m 0 len with
  | None => Ok false
  | Some o1 =>
      let o2 := comma_scan (from m o1) o1 len in
      if 4 <? o2 - o1 then Ok false else
      if negb (o2 mod 4 =? 0) then Ok false else
      l <- (if guard then message_length m len else message_length_pinned m len) ;;
      Ok (l =? len)
  end.
Definition valid_message_p := valid_message_gen true.
Definition valid_message_p_pinned := valid_message_gen false.

(* ---- bundles --------------------------------------------------------------- *)
Inductive elem := Msg (bytes : list byte) | Bun (ttag : Z) (es : list elem).

Fixpoint elem_bytes (e : elem) : list byte :=
  match e with
  | Msg b => b
  | Bun ttag es =>
      bundle_magic ++ be64 ttag ++
      (fix go (l : list elem) : list byte :=
         match l with
         | [] => []
         | x :: r => be32 (zlen (elem_bytes x)) ++ elem_bytes x ++ go r
         end) es
  end.

(* rtosc_bundle(buffer, len, ttag, elms, ...) as repaired ("fix: rtosc_bundle
   ... fail closed"): each vararg is a pointer to memory [mems_i]; its size is
   rtosc_message_length(msg, -1).  Result: (return value, buffer afterwards) *)
Fixpoint bundle_sizes (mems : list (list byte)) : res (list Z) :=
  match mems with
  | [] => Ok []
  | m :: r => s <- message_length m SIZE_MAX ;; ss <- bundle_sizes r ;; Ok (s :: ss)
  end.

Fixpoint bundle_chunks (mems : list (list byte)) (sizes : list Z) : res (list chunk) :=
  match mems, sizes with
  | m :: r, s :: ss =>
      if zlen m <? s then Oob else
      cs <- bundle_chunks r ss ;;
      Ok (Wr (be32 s) :: Wr (firstn (Z.to_nat s) m) :: cs)
  | [], [] => Ok []
  | _, _ => Oob
  end.

Definition sumz (l : list Z) : Z := fold_right Z.add 0 l.

Definition bundle (buf : list byte) (ttag : Z) (mems : list (list byte)) : res (Z * list byte) :=
  sizes <- bundle_sizes mems ;;
  let total := 16 + sumz (map (fun s => 4 + s) sizes) in
  let b0 := zeros (zlen buf) in
  if zlen buf <? total then Ok (0, b0)
  else
    cs <- bundle_chunks mems sizes ;;
    b' <- apply_chunks b0 (Wr bundle_magic :: Wr (be64 ttag) :: cs) ;;
    Ok (total, b').

(* the pinned tree: [len] only bounds the initial memset *)
Definition bundle_pinned (buf : list byte) (ttag : Z) (mems : list (list byte)) : res (Z * list byte) :=
  sizes <- bundle_sizes mems ;;
  let total := 16 + sumz (map (fun s => 4 + s) sizes) in
  cs <- bundle_chunks mems sizes ;;
  b' <- apply_chunks (zeros (zlen buf)) (Wr bundle_magic :: Wr (be64 ttag) :: cs) ;;
  Ok (total, b').

(* rtosc_bundle_elements(buffer, len) *)
Fixpoint bundle_elements_go (fuel : nat) (m : list byte) (len : Z) (pos : Z) (n : Z) : res Z :=
  match fuel with
  | O => Fuel
  | S f =>
      if len <=? pos then Ok n else
      s <- rd32 m pos ;;
      if s =? 0 then Ok n else
      let pos' := pos + (s / 4 + 1) * 4 in
      if len <? pos' then Ok n else bundle_elements_go f m len pos' (n + 1)
  end.
Definition bundle_elements (m : list byte) (len : Z) : res Z :=
  bundle_elements_go (S (length m)) m len 16 0.

(* rtosc_bundle_fetch(buffer, elm): offset of the element, -1 for NULL *)
Fixpoint bundle_fetch_go (fuel : nat) (m : list byte) (elm : Z) (pos : Z) (k : Z) : res Z :=
  match fuel with
  | O => Fuel
  | S f =>
      if k =? elm then Ok (pos + 4) else
      s <- rd32 m pos ;;
      if s =? 0 then Ok (-1) else bundle_fetch_go f m elm (pos + (s / 4 + 1) * 4) (k + 1)
  end.
Definition bundle_fetch (m : list byte) (elm : Z) : res Z :=
  bundle_fetch_go (S (length m)) m elm 16 0.

(* rtosc_bundle_size(buffer, elm) *)
Fixpoint bundle_size_go (fuel : nat) (m : list byte) (elm : Z) (pos : Z) (k : Z) (last : Z) : res Z :=
  match fuel with
  | O => Fuel
  | S f =>
      if k =? elm + 1 then Ok last else
      s <- rd32 m pos ;;
      if s =? 0 then Ok last else bundle_size_go f m elm (pos + (s / 4 + 1) * 4) (k + 1) s
  end.
Definition bundle_size (m : list byte) (elm : Z) : res Z :=
  bundle_size_go (S (length m)) m elm 16 0 0.

(* rtosc_bundle_p: !strcmp(msg, "#bundle") *)
Fixpoint strcmp_eq (m : list byte) (s : list byte) : res bool :=
  match s with
  | [] => Ok true
  | c :: t =>
      match m with
      | [] => Oob
      | x :: r => if x =? c then (if c =? 0 then Ok true else strcmp_eq r t) else Ok false
      end
  end.
Definition bundle_p (m : list byte) : res bool := strcmp_eq m bundle_magic.

Definition bundle_timetag (m : list byte) : res Z := rd64 m 8.

(* ---- src/cpp/subtree-serialize.cpp: append_bundle and the fold that
   subtree_serialize runs over the captured replies ----------------------- *)
Definition append_bundle (dst src : list byte) (dst_len : Z) : res (Z * list byte) :=
  let max_len := zlen dst in
  let src_len := zlen src in
  if (max_len <? dst_len + src_len + 4) || (dst_len =? 0) || (src_len =? 0) then Ok (0, dst)
  else
    rest <- apply_chunks (skipn (Z.to_nat dst_len) dst) [Wr (be32 src_len); Wr src] ;;
    Ok (dst_len + src_len + 4, firstn (Z.to_nat dst_len) dst ++ rest).

Fixpoint append_all (buf : list byte) (len : Z) (msgs : list (list byte)) : res (Z * list byte) :=
  match msgs with
  | [] => Ok (len, buf)
  | m :: r => x <- append_bundle buf m len ;; append_all (snd x) (fst x) r
  end.

Definition SUBTREE_TT : Z := 16045690981265902605.   (* 0xdeadbeef0a0b0c0d *)

Definition subtree_serialize (buf : list byte) (msgs : list (list byte)) : res (Z * list byte) :=
  x <- bundle buf SUBTREE_TT [] ;; append_all (snd x) (fst x) msgs.

(* ---- reference decoder, written from the OSC 1.0 text (Spec side of C07's
   "returns what an independent OSC decoder returns"): OSC-strings are read at
   4-aligned positions and occupy |s|+1 rounded up to a multiple of 4 bytes;
   the type tag string starts with ','; arguments follow in tag order ------- *)
Definition const_val_of (t : byte) : argval :=
  if t =? 84 then VT true else if t =? 70 then VT false else V0.

Definition osc_string (m : list byte) (p : Z) : res (list byte * Z) :=
  s <- cstr_at m p ;; Ok (s, p + (zlen s + (4 - zlen s mod 4))).

Fixpoint ref_args (m : list byte) (tags : list byte) (p : Z) : res (list (byte * argval)) :=
  match tags with
  | [] => Ok []
  | t :: r =>
      if is_bracket t then ref_args m r p else
      match kind_of t with
      | K0 => rest <- ref_args m r p ;; Ok ((t, const_val_of t) :: rest)
      | K4 => v <- rd32 m p ;; rest <- ref_args m r (p + 4) ;; Ok ((t, V4 v) :: rest)
      | K8 => v <- rd64 m p ;; rest <- ref_args m r (p + 8) ;; Ok ((t, V8 v) :: rest)
      | KS => x <- osc_string m p ;; rest <- ref_args m r (snd x) ;; Ok ((t, VStr p) :: rest)
      | KB => len <- rd32 m p ;;
              rest <- ref_args m r (p + 4 + len + (4 - len mod 4) mod 4) ;;
              Ok ((t, VBlob len (p + 4)) :: rest)
      end
  end.

(* address, type tags (without the ','), decoded arguments *)
Definition ref_decode (m : list byte) : res (list byte * list byte * list (byte * argval)) :=
  a <- osc_string m 0 ;;
  tt <- osc_string m (snd a) ;;
  match fst tt with
  | c :: tags => if c =? 44 then l <- ref_args m tags (snd tt) ;; Ok (fst a, tags, l) else Oob
  | [] => Oob
  end.
