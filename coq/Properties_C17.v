(* C17 - Port metadata is read back exactly as written.
   Only the property theorems, each closed by [exact]; proofs live in
   Ports/MetaProofs.v, the model in Ports/MetaModel.v. *)
From Coq Require Import List ZArith.
From RtoscV Require Import Ports.MetaModel Ports.MetaProofs.
Import ListNotations.
Local Open Scope Z_scope.

(* iterating yields exactly the entries, in order (values may hold ':' '=') *)
Theorem C17_iterate : forall k v es,
  Forall entry_ok ((k, v) :: es) ->
  exists p, meta (render ((k, v) :: es)) = Some p /\ iterate p = Some ((k, v) :: es).
Proof. exact iterate_render. Qed.

(* lookup = value of the first entry with that key, nothing if absent or
   value-less; find = presence *)
Theorem C17_lookup_find : forall k v es key,
  Forall entry_ok ((k, v) :: es) ->
  exists p, meta (render ((k, v) :: es)) = Some p /\
    lookup p key = Some (spec_lookup ((k, v) :: es) key) /\
    present p key = Some (spec_present ((k, v) :: es) key).
Proof. exact lookup_render. Qed.

(* reported length = byte length of the block including its terminator *)
Theorem C17_length : forall k v es,
  Forall entry_ok ((k, v) :: es) ->
  exists p, meta (render ((k, v) :: es)) = Some p /\
    length_ p = Some (Z.of_nat (length (render ((k, v) :: es)))).
Proof. exact length_render. Qed.

(* the hypotheses are satisfiable by a block with ':' and '=' in a value, a
   repeated key and a value-less entry *)
Theorem C17_nonvacuous :
  Forall entry_ok [([107], Some [58; 61]); ([112], None); ([107], Some [])].
Proof. exact block_ok. Qed.
