(* C06 - two-thread small-step model of rtosc::ThreadLink
   (src/cpp/thread-link.cpp) : ring_read_size, ring_write_size, ring_write,
   ring_read, ring_read_vector, ThreadLink::{write,writeArray,raw_write,
   hasNext,read}.

   Shared memory: the ring buffer [buf] (exactly N bytes) and the three
   std::atomic<off_t> indices write / read / read_lookahead ([iw], [ir],
   [irl]).  Each thread is a small-step machine; its program counter names
   the NEXT shared access the code performs, in program order: every atomic
   load, every atomic store, and every byte moved by a memcpy.  A [step] of
   a thread performs exactly that one access and the thread-local
   computation that follows it up to the next access.  A schedule is a
   [list tid]; [run] folds [step] over it.

   Ghost state (never read by the code-shaped part): the list [acc] of the
   messages accepted so far (appended at the publishing store of write), the
   number [cons] of messages consumed by normal reads (incremented at the
   store of read), the number [peek] of messages the lookahead position is
   ahead of the read position, and [snap] = length acc at the reader's last
   load of write.

   Out-of-bounds accesses are representable: a buffer access outside [0,N)
   or a copy beyond the MM bytes of read_buffer sets the sticky flag [err].

   [frame] is the length function the reader applies to the two-segment view
   (rtosc_message_ring_length); it is a Section variable here and is
   instantiated by RingFrame.ring_length in the executable model.

   No proofs in this file. *)
From Coq Require Import List ZArith Bool.
Import ListNotations.
Local Open Scope Z_scope.

Definition byte := Z.
Definition msg := list byte.

Inductive tid := Wr | Rd.

(* writer operations: raw_write(msg) / write(...) and writeArray(...) (the
   latter two encode into write_buffer of MM bytes first; m is the encoding
   the call would produce with unlimited space) *)
Inductive wop := WRaw (m : msg) | WArr (m : msg).
(* reader operations: hasNext(la) alone / "if(hasNext(la)) read(la)" *)
Inductive rop := RHas (la : bool) | RTry (la : bool).

Inductive wpc :=
| WIdle
| WSizeW (m : msg) (len : Z)                  (* ring_write_size: load write *)
| WSizeR (m : msg) (len wv : Z)               (* load read; free; fit test *)
| WNextW (m : msg) (len : Z)                  (* ring_write: load write (next_write) *)
| WCmpW (m : msg) (len nw : Z)                (* load write (next_write < write) *)
| WW1 (m : msg) (len nw : Z)                  (* load write (w1 = size - write) *)
| WBase1 (m : msg) (len nw w1 : Z)            (* load write (dst of 1st memcpy) *)
| WCopy1 (m : msg) (len nw w1 base k : Z)     (* buffer[base+k] = data[k], k < w1 *)
| WCopy2 (m : msg) (len nw w1 k : Z)          (* buffer[k] = data[w1+k], k < len-w1 *)
| WBaseC (m : msg) (len nw : Z)               (* contiguous: load write (dst) *)
| WCopyC (m : msg) (len nw base k : Z)        (* buffer[base+k] = data[k], k < len *)
| WPublish (m : msg) (len nw : Z).            (* store write = next_write *)

Inductive rpc :=
| RIdle
| RHasW (la try : bool)                       (* hasNext: ring_read_size: load write *)
| RHasR (la try : bool) (wv : Z)              (* load read / read_lookahead *)
| RVecW (la : bool)                           (* ring_read_vector: ring_read_size: load write *)
| RVecR (la : bool) (wv : Z)                  (* load read / read_lookahead *)
| RVecB (la : bool) (sz : Z)                  (* load read / read_lookahead (segment base) *)
| RFrame (la : bool) (rv sz : Z)              (* rtosc_message_ring_length over the view *)
| RReadR (la : bool) (len : Z)                (* ring_read: load read / read_lookahead *)
| RCopy1 (la : bool) (rv len nr r1 k : Z) (a : list byte)  (* data[k] = buffer[rv+k], k < r1 *)
| RCopy2 (la : bool) (len nr r1 k : Z) (a : list byte)     (* data[r1+k] = buffer[k], k < len-r1 *)
| RCopyC (la : bool) (rv len nr k : Z) (a : list byte)     (* data[k] = buffer[rv+k], k < len *)
| RStoreLA (nr : Z) (a : list byte)           (* lookahead: store read_lookahead *)
| RStoreR (nr : Z) (a : list byte)            (* normal: store read *)
| RStoreRL (nr : Z) (a : list byte).          (* normal: then store read_lookahead *)

(* observations; gn gc gp are ghost: length acc at the load of write, and
   cons, peek when hasNext answered *)
Inductive obs :=
| OAcc (m : msg)
| ODrop (m : msg)
| OHas (la b : bool) (gn gc gp : nat)
| ORead (la : bool) (bytes : list byte).

Record state := mkState {
  buf : list byte; iw : Z; ir : Z; irl : Z;
  wp : wpc; rp : rpc;
  wscr : list wop; rscr : list rop;
  err : bool;
  out : list obs;
  (* ghost *)
  acc : list msg; cons : nat; peek : nat; snap : nat
}.

Definition zlen (l : list byte) : Z := Z.of_nat (length l).
(* Z-indexed access, default 0 *)
Definition zn (l : list byte) (i : Z) : byte := nth (Z.to_nat i) l 0.

Fixpoint upd_nat (l : list byte) (n : nat) (v : byte) : list byte :=
  match l, n with
  | [], _ => []
  | _ :: t, O => v :: t
  | h :: t, S n' => h :: upd_nat t n' v
  end.
Definition upd (l : list byte) (i : Z) (v : byte) : list byte := upd_nat l (Z.to_nat i) v.

Definition slice (b : list byte) (start cnt : Z) : list byte :=
  firstn (Z.to_nat cnt) (skipn (Z.to_nat start) b).

(* field setters *)
Definition set_wp (s : state) (p : wpc) : state :=
  mkState (buf s) (iw s) (ir s) (irl s) p (rp s) (wscr s) (rscr s) (err s) (out s) (acc s) (cons s) (peek s) (snap s).
Definition set_rp (s : state) (p : rpc) : state :=
  mkState (buf s) (iw s) (ir s) (irl s) (wp s) p (wscr s) (rscr s) (err s) (out s) (acc s) (cons s) (peek s) (snap s).
Definition set_wscr (s : state) (l : list wop) : state :=
  mkState (buf s) (iw s) (ir s) (irl s) (wp s) (rp s) l (rscr s) (err s) (out s) (acc s) (cons s) (peek s) (snap s).
Definition set_rscr (s : state) (l : list rop) : state :=
  mkState (buf s) (iw s) (ir s) (irl s) (wp s) (rp s) (wscr s) l (err s) (out s) (acc s) (cons s) (peek s) (snap s).
Definition set_buf (s : state) (b : list byte) : state :=
  mkState b (iw s) (ir s) (irl s) (wp s) (rp s) (wscr s) (rscr s) (err s) (out s) (acc s) (cons s) (peek s) (snap s).
Definition set_iw (s : state) (v : Z) : state :=
  mkState (buf s) v (ir s) (irl s) (wp s) (rp s) (wscr s) (rscr s) (err s) (out s) (acc s) (cons s) (peek s) (snap s).
Definition set_ir (s : state) (v : Z) : state :=
  mkState (buf s) (iw s) v (irl s) (wp s) (rp s) (wscr s) (rscr s) (err s) (out s) (acc s) (cons s) (peek s) (snap s).
Definition set_irl (s : state) (v : Z) : state :=
  mkState (buf s) (iw s) (ir s) v (wp s) (rp s) (wscr s) (rscr s) (err s) (out s) (acc s) (cons s) (peek s) (snap s).
Definition set_err (s : state) : state :=
  mkState (buf s) (iw s) (ir s) (irl s) (wp s) (rp s) (wscr s) (rscr s) true (out s) (acc s) (cons s) (peek s) (snap s).
Definition push (s : state) (o : obs) : state :=
  mkState (buf s) (iw s) (ir s) (irl s) (wp s) (rp s) (wscr s) (rscr s) (err s) (out s ++ [o]) (acc s) (cons s) (peek s) (snap s).
(* ghost setters *)
Definition g_acc (s : state) (m : msg) : state :=
  mkState (buf s) (iw s) (ir s) (irl s) (wp s) (rp s) (wscr s) (rscr s) (err s) (out s) (acc s ++ [m]) (cons s) (peek s) (snap s).
Definition g_cp (s : state) (c p : nat) : state :=
  mkState (buf s) (iw s) (ir s) (irl s) (wp s) (rp s) (wscr s) (rscr s) (err s) (out s) (acc s) c p (snap s).
Definition g_snap (s : state) : state :=
  mkState (buf s) (iw s) (ir s) (irl s) (wp s) (rp s) (wscr s) (rscr s) (err s) (out s) (acc s) (cons s) (peek s) (length (acc s)).

Section Ring.
Variable N : Z.                       (* ring->size = MaxMsg * max_messages *)
Variable MM : Z.                      (* MaxMsg *)
Variable frame : list byte -> Z.      (* rtosc_message_ring_length on seg0 ++ seg1 *)

Definition inb (i : Z) : bool := (0 <=? i) && (i <? N).

(* buffer[i] = v *)
Definition store (s : state) (i : Z) (v : byte) : state :=
  if inb i then set_buf s (upd (buf s) i v) else set_err s.
(* the reader's data[di] = buffer[i] : returns the flagged state *)
Definition loadchk (s : state) (i di : Z) : state :=
  if inb i && (di <? MM) then s else set_err s.

(* what rtosc_amessage(write_buffer, MaxMsg, ...) returns *)
Definition enc_len (m : msg) : Z := if zlen m <=? MM then zlen m else 0.

(* ---- writer -------------------------------------------------------------- *)
Definition wfetch (s : state) : state :=
  match wscr s with
  | [] => s
  | WArr m :: tl => set_wp (set_wscr s tl) (WSizeW m (enc_len m))
  | WRaw m :: tl =>
      (* raw_write: if(len <= MaxMsg && ring_write_size(ring) >= len) *)
      if zlen m <=? MM then set_wp (set_wscr s tl) (WSizeW m (zlen m))
      else push (set_wscr s tl) (ODrop m)
  end.

Definition wstep (s : state) : state :=
  match wp s with
  | WIdle => wfetch s
  | WSizeW m len => set_wp s (WSizeR m len (iw s))
  | WSizeR m len wv =>
      let rv := ir s in
      let free := if rv =? wv then N - 1 else (rv - wv + N) mod N - 1 in
      if len <=? free then set_wp s (WNextW m len)
      else push (set_wp s WIdle) (ODrop m)
  | WNextW m len => set_wp s (WCmpW m len ((iw s + len) mod N))
  | WCmpW m len nw =>
      if nw <? iw s then set_wp s (WW1 m len nw) else set_wp s (WBaseC m len nw)
  | WW1 m len nw => set_wp s (WBase1 m len nw (N - iw s))
  | WBase1 m len nw w1 => set_wp s (WCopy1 m len nw w1 (iw s) 0)
  | WCopy1 m len nw w1 base k =>
      if k <? w1 then set_wp (store s (base + k) (zn m k)) (WCopy1 m len nw w1 base (k + 1))
      else set_wp s (WCopy2 m len nw w1 0)
  | WCopy2 m len nw w1 k =>
      if k <? len - w1 then set_wp (store s k (zn m (w1 + k))) (WCopy2 m len nw w1 (k + 1))
      else set_wp s (WPublish m len nw)
  | WBaseC m len nw => set_wp s (WCopyC m len nw (iw s) 0)
  | WCopyC m len nw base k =>
      if k <? len then set_wp (store s (base + k) (zn m k)) (WCopyC m len nw base (k + 1))
      else set_wp s (WPublish m len nw)
  | WPublish m len nw =>
      let s1 := set_wp (set_iw s nw) WIdle in
      if 0 <? len then push (g_acc s1 m) (OAcc m) else push s1 (ODrop m)
  end.

(* ---- reader -------------------------------------------------------------- *)
Definition base_of (s : state) (la : bool) : Z := if la then irl s else ir s.

(* the two segments ring_read_vector hands to the framing function *)
Definition view (b : list byte) (rv sz : Z) : list byte :=
  if N <? sz + rv then
    let r2 := (sz + rv) mod N in
    let r1 := sz - r2 in
    slice b rv r1 ++ slice b 0 r2
  else slice b rv sz.

Definition rfetch (s : state) : state :=
  match rscr s with
  | [] => s
  | RHas la :: tl => set_rp (set_rscr s tl) (RHasW la false)
  | RTry la :: tl => set_rp (set_rscr s tl) (RHasW la true)
  end.

Definition rfinish (s : state) (la : bool) (nr : Z) (a : list byte) : state :=
  set_rp s (if la then RStoreLA nr a else RStoreR nr a).

Definition rstep (s : state) : state :=
  match rp s with
  | RIdle => rfetch s
  | RHasW la try => set_rp (g_snap s) (RHasR la try (iw s))
  | RHasR la try wv =>
      let sz := (wv - base_of s la + N) mod N in
      let b := negb (sz =? 0) in
      let s1 := push s (OHas la b (snap s) (cons s) (peek s)) in
      if try && b then set_rp s1 (RVecW la) else set_rp s1 RIdle
  | RVecW la => set_rp (g_snap s) (RVecR la (iw s))
  | RVecR la wv => set_rp s (RVecB la ((wv - base_of s la + N) mod N))
  | RVecB la sz => set_rp s (RFrame la (base_of s la) sz)
  | RFrame la rv sz => set_rp s (RReadR la (frame (view (buf s) rv sz)))
  | RReadR la len =>
      let rd := base_of s la in
      let nr := (rd + len) mod N in
      if nr <? rd then set_rp s (RCopy1 la rd len nr (N - rd) 0 [])
      else set_rp s (RCopyC la rd len nr 0 [])
  | RCopy1 la rv len nr r1 k a =>
      if k <? r1 then
        set_rp (loadchk s (rv + k) k) (RCopy1 la rv len nr r1 (k + 1) (a ++ [zn (buf s) (rv + k)]))
      else set_rp s (RCopy2 la len nr r1 0 a)
  | RCopy2 la len nr r1 k a =>
      if k <? len - r1 then
        set_rp (loadchk s k (r1 + k)) (RCopy2 la len nr r1 (k + 1) (a ++ [zn (buf s) k]))
      else rfinish s la nr a
  | RCopyC la rv len nr k a =>
      if k <? len then
        set_rp (loadchk s (rv + k) k) (RCopyC la rv len nr (k + 1) (a ++ [zn (buf s) (rv + k)]))
      else rfinish s la nr a
  | RStoreLA nr a =>
      push (g_cp (set_rp (set_irl s nr) RIdle) (cons s) (S (peek s))) (ORead true a)
  | RStoreR nr a =>
      g_cp (set_rp (set_ir s nr) (RStoreRL nr a)) (S (cons s)) O
  | RStoreRL nr a =>
      push (set_rp (set_irl s nr) RIdle) (ORead false a)
  end.

Definition step (s : state) (t : tid) : state :=
  match t with Wr => wstep s | Rd => rstep s end.

Definition run (s : state) (sched : list tid) : state := fold_left step sched s.

Definition init (ws : list wop) (rs : list rop) : state :=
  mkState (repeat 0 (Z.to_nat N)) 0 0 0 WIdle RIdle ws rs false [] [] O O O.

(* ---- hook granularity (used by the tie only) ----------------------------- *)
(* A thread is [quiet] when its next step is not preceded by a hook in the
   instrumented source: fetching the next operation, and every byte of a
   memcpy but the first (the hook stands before the statement that contains
   the memcpy; for the first memcpy of ring_write that statement also holds
   the load of write, so all of WCopy1 / WCopyC is quiet), and the second
   store of "read_lookahead = read = next_read" (one statement; the
   lookahead index is private to the reader). *)
Definition wquiet (s : state) : bool :=
  match wp s with
  | WIdle => match wscr s with [] => false | _ => true end
  | WCopy1 _ _ _ _ _ _ => true
  | WCopyC _ _ _ _ _ => true
  | WCopy2 _ _ _ _ k => 0 <? k
  | _ => false
  end.
Definition rquiet (s : state) : bool :=
  match rp s with
  | RIdle => match rscr s with [] => false | _ => true end
  | RCopy1 _ _ _ _ _ k _ => 0 <? k
  | RCopy2 _ _ _ _ k _ => 0 <? k
  | RCopyC _ _ _ _ k _ => 0 <? k
  | RStoreRL _ _ => true
  | _ => false
  end.
Definition quiet (s : state) (t : tid) : bool :=
  match t with Wr => wquiet s | Rd => rquiet s end.

Fixpoint settle (fuel : nat) (s : state) (t : tid) : state :=
  match fuel with
  | O => s
  | S f => if quiet s t then settle f (step s t) t else s
  end.
(* one hook-level step: the access at the hook, then everything up to the
   next hook of the same thread *)
Definition macro_step (fuel : nat) (s : state) (t : tid) : state :=
  settle fuel (step s t) t.

Definition finished (s : state) (t : tid) : bool :=
  match t with
  | Wr => match wp s, wscr s with WIdle, [] => true | _, _ => false end
  | Rd => match rp s, rscr s with RIdle, [] => true | _, _ => false end
  end.

(* ---- footprints (for the data-race-freedom statement) -------------------- *)
(* buffer cell the writer's next step stores to *)
Definition wfoot (s : state) : option Z :=
  match wp s with
  | WCopy1 _ _ _ w1 base k => if k <? w1 then Some (base + k) else None
  | WCopy2 _ len _ w1 k => if k <? len - w1 then Some k else None
  | WCopyC _ len _ base k => if k <? len then Some (base + k) else None
  | _ => None
  end.
(* buffer cells the reader's next step may load *)
Definition rfoot (s : state) (i : Z) : bool :=
  match rp s with
  | RFrame _ rv sz =>
      if N <? sz + rv then ((rv <=? i) && (i <? N)) || ((0 <=? i) && (i <? (sz + rv) mod N))
      else (rv <=? i) && (i <? rv + sz)
  | RCopy1 _ rv _ _ r1 k _ => (k <? r1) && (i =? rv + k)
  | RCopy2 _ len _ r1 k _ => (k <? len - r1) && (i =? k)
  | RCopyC _ rv len _ k _ => (k <? len) && (i =? rv + k)
  | _ => false
  end.

End Ring.
