(* C06 - regressions.
   (1) raw_write before the fix "raw_write drops a message longer than MaxMsg":
       the old code was  if(ring_write_size(ring) >= len) ring_write(...)
       without the MaxMsg test.  The old fetch is kept here; with it a message
       longer than MaxMsg is queued and read() copies it past the MM bytes of
       read_buffer (the model's err flag; on the real code AddressSanitizer
       reports heap-buffer-overflow in ring_read).
   (2) framing: a bundle is not self-delimiting in the ring.
       bundle_ring_length walks element sizes until it meets a zero word; when
       another message follows the bundle its first four bytes are taken for an
       element size and the reported length is 0 - the reader then copies
       nothing, stays where it is and hasNext stays true for ever.  So
       frame_hd does not hold for bundles (known finding bundle-not-last). *)
From Coq Require Import List ZArith Bool Lia.
From RtoscV Require Import Ring.RingModel Ring.RingFrame Ring.RingInv Ring.RingProofs.
Import ListNotations.
Local Open Scope Z_scope.

Section Old.
Variable N MM : Z.
Variable frame : list byte -> Z.

Definition wfetch_old (s : state) : state :=
  match wscr s with
  | [] => s
  | WArr m :: tl => set_wp (set_wscr s tl) (WSizeW m (enc_len MM m))
  | WRaw m :: tl => set_wp (set_wscr s tl) (WSizeW m (zlen m))
  end.
Definition wstep_old (s : state) : state :=
  match wp s with WIdle => wfetch_old s | _ => wstep N MM s end.
Definition step_old (s : state) (t : tid) : state :=
  match t with Wr => wstep_old s | Rd => rstep N MM frame s end.
Definition run_old (s : state) (sched : list tid) : state := fold_left step_old sched s.
End Old.

(* "/abcdefg" ",s" "0123456789ab" : 32 bytes, MaxMsg 16, ring 64 *)
Definition big : msg :=
  [47;97;98;99;100;101;102;103;0;0;0;0; 44;115;0;0; 48;49;50;51;52;53;54;55;56;57;97;98;0;0;0;0].

Theorem raw_write_maxmsg_refuted :
  exists N MM ws rs sched,
    forallb (fun m => zlen m <=? MM) (acc (run_old N MM ring_length (init N ws rs) sched)) = false.
Proof.
  exists 64, 16, [WRaw big], [RTry false], (repeat Wr 60 ++ repeat Rd 60).
  vm_compute. reflexivity.
Qed.

Theorem raw_write_overflow_refuted :
  exists N MM ws rs sched, err (run_old N MM ring_length (init N ws rs) sched) = true.
Proof.
  exists 64, 16, [WRaw big], [RTry false], (repeat Wr 60 ++ repeat Rd 60).
  vm_compute. reflexivity.
Qed.

(* with the fixed fetch the same script drops the message and nothing is flagged *)
Example raw_write_fixed :
  let s := run 64 16 ring_length (init 64 [WRaw big] [RTry false]) (repeat Wr 60 ++ repeat Rd 60) in
  acc s = [] /\ err s = false /\ out s = [ODrop big; OHas false false 0 0 0].
Proof. vm_compute. repeat split; reflexivity. Qed.

(* ---- bundles ------------------------------------------------------------- *)
(* "#bundle" timetag 1, one element "/a" ",i" 1 (12 bytes) *)
Definition bun : msg :=
  [35;98;117;110;100;108;101;0; 0;0;0;0;0;0;0;1; 0;0;0;12; 47;97;0;0; 44;105;0;0; 0;0;0;1].
Definition after : msg := [47;98;99;100;0;0;0;0; 44;105;0;0; 0;0;0;2].

Theorem frame_bundle_refuted :
  exists b rest, is_bundle b = true /\ ring_length b = zlen b /\ ring_length (b ++ rest) <> zlen b.
Proof. exists bun, after. vm_compute. repeat split; congruence. Qed.

(* the reader never gets past the bundle: after any number of polls it has
   read only empty byte strings and the read index has not moved *)
Example bundle_stuck :
  let s := run 128 64 ring_length (init 128 [WRaw bun; WRaw after] (repeat (RTry false) 3))
               (repeat Wr 120 ++ repeat Rd 100) in
  nreads (out s) = [[]; []; []] /\ ir s = 0 /\ accs_of (out s) = [bun; after].
Proof. vm_compute. repeat split; reflexivity. Qed.
