(* C06 x C01/C07: the abstract framing function of the ring proofs is
   instantiated with the model of rtosc_message_ring_length (Osc/OscModel.v):
   - the two-segment ring form the reader calls equals the one-segment form on
     the concatenated view (what Ring/RingModel.v calls [view]),
   - on a well-formed OSC message followed by anything it returns the
     message's length (C01_length_roundtrip), which is [frame_ok]. *)
From Coq Require Import List ZArith Bool Lia.
From RtoscV Require Import Osc.OscModel Osc.OscBase Osc.OscEncProofs Osc.OscReadProofs Osc.OscLenProofs.
From RtoscV Require Ring.RingModel Ring.RingProofs.
Import ListNotations.
Local Open Scope Z_scope.

(* ---- two segments = their concatenation ---------------------------------- *)
Definition ring2 (s0 s1 : list byte) : ring := {| d0 := s0; n0 := zlen s0; d1 := s1; n1 := zlen s1 |}.
Definition ring1 (v : list byte) : ring := {| d0 := v; n0 := zlen v; d1 := []; n1 := 0 |}.

Lemma rd_app_l (a b : list byte) i : 0 <= i < zlen a -> rd (a ++ b) i = rd a i.
Proof.
  intros H. rewrite !rd_eq. replace (i <? 0) with false by (symmetry; apply Z.ltb_ge; lia).
  rewrite nth_error_app1 by (unfold zlen in H; lia). reflexivity.
Qed.

Lemma rd_app_r (a b : list byte) i : zlen a <= i -> rd (a ++ b) i = rd b (i - zlen a).
Proof.
  intros H. pose proof (zlen_nonneg a). rewrite !rd_eq.
  replace (i <? 0) with false by (symmetry; apply Z.ltb_ge; lia).
  replace (i - zlen a <? 0) with false by (symmetry; apply Z.ltb_ge; lia).
  rewrite nth_error_app2 by (unfold zlen in H; lia).
  replace (Z.to_nat i - length a)%nat with (Z.to_nat (i - zlen a)) by (unfold zlen in *; lia). reflexivity.
Qed.

Lemma deref_concat s0 s1 pos : 0 <= pos -> deref (ring2 s0 s1) pos = deref (ring1 (s0 ++ s1)) pos.
Proof.
  intros Hp. unfold deref, ring2, ring1. cbn [d0 n0 d1 n1].
  pose proof (zlen_nonneg s0). pose proof (zlen_nonneg s1). rewrite zlen_app.
  destruct (pos <? zlen s0) eqn:E0.
  - apply Z.ltb_lt in E0. replace (pos <? zlen s0 + zlen s1) with true by (symmetry; apply Z.ltb_lt; lia).
    symmetry. apply rd_app_l. lia.
  - apply Z.ltb_ge in E0. destruct (pos - zlen s0 <? zlen s1) eqn:E1.
    + apply Z.ltb_lt in E1. replace (pos <? zlen s0 + zlen s1) with true by (symmetry; apply Z.ltb_lt; lia).
      symmetry. apply rd_app_r. lia.
    + apply Z.ltb_ge in E1. replace (pos <? zlen s0 + zlen s1) with false by (symmetry; apply Z.ltb_ge; lia).
      replace (pos - (zlen s0 + zlen s1) <? 0) with false by (symmetry; apply Z.ltb_ge; lia). reflexivity.
Qed.

Section Same.
Variables ra rb : ring.
Hypothesis Hd : forall pos, 0 <= pos -> deref ra pos = deref rb pos.
Hypothesis Ht : ring_total ra = ring_total rb.

Lemma w32_nonneg x : 0 <= w32 x.
Proof. unfold w32, W32. apply Z.mod_pos_bound. lia. Qed.

Lemma scan0_same : forall fuel pos, 0 <= pos -> scan0 fuel ra pos = scan0 fuel rb pos.
Proof.
  induction fuel as [|f IH]; intros pos Hp; [reflexivity|]. cbn [scan0]. rewrite (Hd pos Hp).
  destruct (deref rb pos) as [c| |]; cbn [bind]; try reflexivity.
  destruct (c =? 0); [reflexivity|]. apply IH. apply w32_nonneg.
Qed.

Lemma read_tags_same : forall fuel pos, 0 <= pos -> read_tags fuel ra pos = read_tags fuel rb pos.
Proof.
  induction fuel as [|f IH]; intros pos Hp; [reflexivity|]. cbn [read_tags]. rewrite (Hd pos Hp).
  destruct (deref rb pos) as [c| |]; cbn [bind]; try reflexivity.
  destruct (c =? 0); [reflexivity|]. rewrite IH by apply w32_nonneg. reflexivity.
Qed.

Lemma deref32_same pos : 0 <= pos -> deref32 ra pos = deref32 rb pos.
Proof.
  intros Hp. unfold deref32. rewrite (Hd pos Hp), !(Hd (w32 _)) by apply w32_nonneg. reflexivity.
Qed.

Lemma is_magic_same l : forall i, 0 <= i -> is_magic ra i l = is_magic rb i l.
Proof.
  induction l as [|c l IH]; intros i Hi; cbn [is_magic]; [reflexivity|]. rewrite (Hd i Hi).
  destruct (deref rb i) as [x| |]; cbn [bind]; try reflexivity.
  destruct (x =? c); [apply IH; lia | reflexivity].
Qed.

Lemma bundle_len_go_same : forall fuel pos, 0 <= pos -> bundle_len_go fuel ra pos = bundle_len_go fuel rb pos.
Proof.
  induction fuel as [|f IH]; intros pos Hp; [reflexivity|]. cbn [bundle_len_go].
  rewrite (deref32_same pos Hp), Ht.
  destruct (deref32 rb pos) as [adv| |]; cbn [bind]; try reflexivity.
  destruct (adv =? 0); [reflexivity|]. destruct (ring_total rb - pos - 4 <? adv); [reflexivity|].
  apply IH. apply w32_nonneg.
Qed.

Lemma ring_args_same guard fuel aligned tags : forall toparse pos, 0 <= pos ->
  ring_args guard fuel ra aligned toparse tags pos = ring_args guard fuel rb aligned toparse tags pos.
Proof.
  induction tags as [|t ts IH]; intros toparse pos Hp; cbn [ring_args]; [reflexivity|].
  destruct (toparse =? 0); [reflexivity|].
  destruct (kind_of t).
  - apply IH. apply w32_nonneg.
  - apply IH. apply w32_nonneg.
  - rewrite (scan0_same fuel pos Hp). destruct (scan0 fuel rb pos) as [e| |]; cbn [bind]; try reflexivity.
    apply IH. apply w32_nonneg.
  - rewrite (deref32_same pos Hp), Ht. destruct (deref32 rb pos) as [i| |]; cbn [bind]; try reflexivity.
    destruct (guard && (ring_total rb <? w32 (pos + 4) + i)); [reflexivity|].
    destruct ((w32 (pos + 4 + i) - aligned) mod 4 =? 0); apply IH; apply w32_nonneg.
  - apply IH. exact Hp.
Qed.

Lemma message_ring_length_same (Hf : fuel_of ra = fuel_of rb) :
  message_ring_length ra = message_ring_length rb.
Proof.
  unfold message_ring_length, message_ring_length_gen.
  rewrite (is_magic_same bundle_magic 0 ltac:(lia)).
  destruct (is_magic rb 0 bundle_magic) as [mg| |]; cbn [bind]; try reflexivity.
  destruct mg.
  - unfold bundle_ring_length. rewrite Hf, (bundle_len_go_same _ 16 ltac:(lia)), Ht. reflexivity.
  - rewrite Hf, (scan0_same _ 0 ltac:(lia)).
    destruct (scan0 (fuel_of rb) rb 0) as [p0| |]; cbn [bind]; try reflexivity.
    rewrite !(Hd (w32 _)) by apply w32_nonneg.
    destruct (deref rb (w32 (p0 + 1))) as [c1| |]; cbn [bind]; try reflexivity.
    set (posr := if negb (c1 =? 0) then Ok (w32 (p0 + 1)) else
                 c2 <- deref rb (w32 (p0 + 2)) ;;
                 if negb (c2 =? 0) then Ok (w32 (p0 + 2)) else
                 c3 <- deref rb (w32 (p0 + 3)) ;;
                 if negb (c3 =? 0) then Ok (w32 (p0 + 3)) else
                 c4 <- deref rb (w32 (p0 + 4)) ;; Ok (w32 (p0 + 4))).
    assert (Hposr : forall p, posr = Ok p -> 0 <= p).
    { intros p. unfold posr. destruct (negb (c1 =? 0)); [intros E; inversion E; apply w32_nonneg|].
      destruct (deref rb (w32 (p0 + 2))) as [c2| |]; cbn [bind]; try discriminate.
      destruct (negb (c2 =? 0)); [intros E; inversion E; apply w32_nonneg|].
      destruct (deref rb (w32 (p0 + 3))) as [c3| |]; cbn [bind]; try discriminate.
      destruct (negb (c3 =? 0)); [intros E; inversion E; apply w32_nonneg|].
      destruct (deref rb (w32 (p0 + 4))) as [c4| |]; cbn [bind]; try discriminate.
      intros E; inversion E; apply w32_nonneg. }
    destruct posr as [pos| |] eqn:Epos; cbn [bind]; try reflexivity.
    specialize (Hposr pos eq_refl).
    rewrite (Hd pos Hposr). destruct (deref rb pos) as [c| |]; cbn [bind]; try reflexivity.
    destruct (negb (c =? 44)); [reflexivity|].
    rewrite (read_tags_same _ _ (w32_nonneg _)).
    destruct (read_tags (fuel_of rb) rb (w32 (pos + 1))) as [tags| |]; cbn [bind]; try reflexivity.
    rewrite (scan0_same _ _ (w32_nonneg _)).
    destruct (scan0 (fuel_of rb) rb (w32 (pos + 1))) as [e| |]; cbn [bind]; try reflexivity.
    rewrite (ring_args_same true _ pos tags _ _ (w32_nonneg _)), Ht. reflexivity.
Qed.
End Same.

(* the two-segment call of the reader = the one-segment length of the view *)
Theorem ring_length_concat s0 s1 :
  message_ring_length (ring2 s0 s1) = message_length (s0 ++ s1) (zlen (s0 ++ s1)).
Proof.
  unfold message_length. change {| d0 := s0 ++ s1; n0 := zlen (s0 ++ s1); d1 := []; n1 := 0 |}
    with (ring1 (s0 ++ s1)).
  apply message_ring_length_same.
  - intros pos Hp. apply deref_concat. exact Hp.
  - unfold ring_total, ring2, ring1. cbn [n0 n1]. rewrite zlen_app. lia.
  - unfold fuel_of, ring2, ring1. cbn [d0 d1]. rewrite app_length. cbn [length]. lia.
Qed.

(* ---- the framing function of the ring proofs, instantiated ---------------- *)
Definition osc_frame (v : list byte) : Z :=
  match message_length v (zlen v) with Ok L => L | _ => 0 end.

Definition osc_wf (m : list byte) : Prop :=
  exists a tags args, m = enc_spec a tags args /\ msg_wf a tags args /\ not_bundle_addr a /\ zlen m < W32.

Lemma osc_frame_enc a tags args rest :
  msg_wf a tags args -> not_bundle_addr a -> zlen (enc_spec a tags args) < W32 ->
  osc_frame (enc_spec a tags args ++ rest) = zlen (enc_spec a tags args).
Proof.
  intros WF NB Hsz. unfold osc_frame.
  rewrite (message_length_enc a tags args rest (zlen (enc_spec a tags args ++ rest)) WF NB Hsz).
  - reflexivity.
  - rewrite zlen_app. pose proof (zlen_nonneg rest). lia.
Qed.

Theorem osc_frame_ok : RingProofs.frame_ok osc_frame osc_wf.
Proof.
  intros m rest (a & tags & args & -> & WF & NB & Hsz).
  exact (osc_frame_enc a tags args rest WF NB Hsz).
Qed.

(* and it is the function the reader really calls on the two segments *)
Theorem osc_frame_is_ring_length s0 s1 :
  osc_frame (s0 ++ s1) = match message_ring_length (ring2 s0 s1) with Ok L => L | _ => 0 end.
Proof. unfold osc_frame. rewrite ring_length_concat. reflexivity. Qed.
