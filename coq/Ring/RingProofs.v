(* C06 - proofs about the two-thread ring model (RingModel.v): the invariant
   Inv (RingInv.v) is preserved by every step of either thread, hence holds
   after every schedule; FIFO, lookahead, hasNext linearisation, drop-whole and
   data-race freedom follow from it.  [frame] is abstract: the only fact used
   is frame_hd. *)
From Coq Require Import List ZArith Bool Lia ZifyBool.
From RtoscV Require Import Ring.RingModel Ring.RingInv.
Import ListNotations.
Local Open Scope Z_scope.

Ltac mk := constructor; try assumption.
Ltac fin := repeat match goal with |- _ /\ _ => split end; try assumption; try tauto; try lia.
Ltac nrm := unfold wcore, fits, copied, nonempty, snapped, Bv, Wv, Rv, RLv, j0, mj in *;
  cbn [buf iw ir irl wp rp wscr rscr err out acc cons peek snap set_wp set_rp set_wscr set_rscr
       set_buf set_iw set_ir set_irl set_err push g_acc g_cp g_snap] in *.


(* ---- observation-log lemmas ---- *)
Lemma final_cp_snoc : forall os o c p,
  final_cp (os ++ [o]) c p = final_cp [o] (fst (final_cp os c p)) (snd (final_cp os c p)).
Proof.
  induction os as [|x t IH]; intros; simpl; [destruct o as [| | |[]]; reflexivity|].
  destruct x as [| | |[] ?]; apply IH.
Qed.

Lemma reads_ok_snoc : forall l os o c p,
  reads_ok l (os ++ [o]) c p <->
  reads_ok l os c p /\ reads_ok l [o] (fst (final_cp os c p)) (snd (final_cp os c p)).
Proof.
  induction os as [|x t IH]; intros; simpl.
  - destruct o as [| | |[] ?]; simpl; tauto.
  - destruct x as [| | |[] ?]; simpl; rewrite ?IH; tauto.
Qed.

Lemma reads_ok_app_acc : forall l m os c p, reads_ok l os c p -> reads_ok (l ++ [m]) os c p.
Proof.
  induction os as [|x t IH]; intros; simpl in *; auto.
  destruct x as [| | |[] ?]; auto; destruct H; split; auto;
    rewrite nth_error_app1; auto; apply nth_error_Some; congruence.
Qed.

Lemma accs_of_snoc : forall os o, accs_of (os ++ [o]) = accs_of os ++ accs_of [o].
Proof. induction os as [|x t IH]; intros; simpl; auto. destruct x; simpl; rewrite ?IH; auto. Qed.

Lemma histP_drop : forall a o b c p m, histP a o b c p -> histP a (o ++ [ODrop m]) b c p.
Proof.
  intros a o b c p m (H1 & H2 & H3 & H4). repeat split.
  - apply reads_ok_snoc; simpl; auto.
  - apply Forall_app; split; auto. constructor; simpl; auto.
  - rewrite accs_of_snoc; simpl. now rewrite app_nil_r.
  - rewrite final_cp_snoc; simpl. destruct (final_cp o 0 0); simpl in *; auto.
Qed.

Lemma histP_acc : forall a o b c p m, histP a o b c p -> histP (a ++ [m]) (o ++ [OAcc m]) b c p.
Proof.
  intros a o b c p m (H1 & H2 & H3 & H4). repeat split.
  - apply reads_ok_snoc; simpl; split; auto. now apply reads_ok_app_acc.
  - apply Forall_app; split; auto. constructor; simpl; auto.
  - rewrite accs_of_snoc; simpl. now rewrite H3.
  - rewrite final_cp_snoc; simpl. destruct (final_cp o 0 0); simpl in *; auto.
Qed.

Lemma final_cp_pend : forall o (b : bool) c p, b = false -> (if b then exists p', final_cp o 0 0 = (pred c, p') else final_cp o 0 0 = (c, p)) -> final_cp o 0 0 = (c, p).
Proof. intros; subst; auto. Qed.

Lemma histP_has : forall a o c p la b gn gc gp, histP a o false c p -> has_ok (OHas la b gn gc gp) ->
  histP a (o ++ [OHas la b gn gc gp]) false c p.
Proof.
  intros a o c p la b gn gc gp (H1 & H2 & H3 & H4) K. repeat split.
  - apply reads_ok_snoc; simpl; auto.
  - apply Forall_app; split; auto.
  - rewrite accs_of_snoc; simpl. now rewrite app_nil_r.
  - rewrite final_cp_snoc; simpl. rewrite H4; auto.
Qed.

Lemma histP_readla : forall a o c p b, histP a o false c p -> nth_error a (c + p) = Some b ->
  histP a (o ++ [ORead true b]) false c (S p).
Proof.
  intros a o c p b (H1 & H2 & H3 & H4) K. repeat split.
  - apply reads_ok_snoc; simpl. rewrite H4; simpl. auto.
  - apply Forall_app; split; auto. constructor; simpl; auto.
  - rewrite accs_of_snoc; simpl. now rewrite app_nil_r.
  - rewrite final_cp_snoc; simpl. rewrite H4; auto.
Qed.

Lemma histP_storeR : forall a o c p, histP a o false c p -> histP a o true (S c) O.
Proof. intros a o c p (H1 & H2 & H3 & H4). repeat split; auto. exists p. exact H4. Qed.

Lemma histP_readn : forall a o c p b, histP a o true c p -> (0 < c)%nat -> nth_error a (pred c) = Some b ->
  histP a (o ++ [ORead false b]) false c O.
Proof.
  intros a o c p b (H1 & H2 & H3 & [p' H4]) C K. repeat split.
  - apply reads_ok_snoc; simpl. rewrite H4; simpl. auto.
  - apply Forall_app; split; auto. constructor; simpl; auto.
  - rewrite accs_of_snoc; simpl. now rewrite app_nil_r.
  - rewrite final_cp_snoc; simpl. rewrite H4; simpl. f_equal. lia.
Qed.

(* the message a write operation is busy with *)
Definition inflight (p : wpc) : list msg :=
  match p with
  | WIdle => []
  | WSizeW m _ | WSizeR m _ _ | WNextW m _ | WCmpW m _ _ | WW1 m _ _ | WBase1 m _ _ _
  | WCopy1 m _ _ _ _ _ | WCopy2 m _ _ _ _ | WBaseC m _ _ | WCopyC m _ _ _ _ | WPublish m _ _ => [m]
  end.

(* ---- all messages but the last one of a list ---- *)
Lemma removelast_keep : forall (P : msg -> Prop) l, Forall P l -> Forall P (removelast l).
Proof.
  induction l as [|a l IH]; intros F; [constructor|]. inversion F; subst.
  destruct l as [|b l]; [constructor|]. change (removelast (a :: b :: l)) with (a :: removelast (b :: l)).
  constructor; auto.
Qed.

Lemma removelast_delete : forall (P : msg -> Prop) a m b,
  Forall P (removelast (a ++ m :: b)) -> Forall P (removelast (a ++ b)).
Proof.
  intros P a m b F. destruct b as [|c b].
  - rewrite app_nil_r. change (a ++ [m]) with (a ++ [m]) in F. rewrite removelast_last in F.
    now apply removelast_keep.
  - rewrite removelast_app in F by discriminate. rewrite removelast_app by discriminate.
    change (removelast (m :: c :: b)) with (m :: removelast (c :: b)) in F.
    apply Forall_app in F as [Fa Fb]. inversion Fb; subst. apply Forall_app. split; assumption.
Qed.

Lemma removelast_nth : forall (P : msg -> Prop) l r j,
  Forall P (removelast (l ++ r)) -> (S j < length l)%nat -> P (nth j l []).
Proof.
  induction l as [|a l IH]; intros r j F H; simpl in H; [lia|].
  destruct l as [|b l]; [simpl in H; lia|].
  change (removelast ((a :: b :: l) ++ r)) with (a :: removelast ((b :: l) ++ r)) in F.
  inversion F; subst. destruct j as [|j]; [assumption|].
  change (nth (S j) (a :: b :: l) []) with (nth j (b :: l) []). apply (IH r); [assumption | simpl in *; lia].
Qed.

Section Proofs.
Variable N MM : Z.
Variable frame : list byte -> Z.
Variable wf : msg -> Prop.
Hypothesis N_pos : 0 < N.
(* sd = the messages that are framed correctly whatever follows them in the
   ring ("self-delimiting"); every message is framed correctly when nothing
   follows it.  With sd := fun _ => True this is the plain hypothesis
   frame (m ++ rest) = zlen m for every well-formed m. *)
Variable sd : msg -> Prop.
Hypothesis frame_hd : forall m rest, wf m -> sd m \/ rest = [] -> frame (m ++ rest) = zlen m.

Notation Inv := (Inv N MM wf).
Notation wview := (wview N MM wf).
Notation rview := (rview N).
Notation content := (content N).
Notation fits := (fits N).
Notation copied := (copied N).
Notation wcore := (wcore N MM wf).
Notation wlen := (wlen MM wf).

Lemma inv_R_le_W : forall s, Inv s -> Rv s <= Wv s.
Proof. intros s I. unfold Rv, Wv. apply pos_mono. pose proof (i_pk _ _ _ _ I). lia. Qed.

Lemma inv_iw_range : forall s, Inv s -> 0 <= iw s < N.
Proof. intros s I. rewrite (i_w _ _ _ _ I). apply Z.mod_pos_bound; lia. Qed.

(* a message boundary j inside the queue lies between Rv and Wv *)
Lemma pos_in_queue : forall s j i, Inv s -> (cons s <= j < length (acc s))%nat -> 0 <= i < zlen (mj s j) ->
  Rv s <= pos (acc s) j + i < Wv s.
Proof.
  intros s j i I Hj Hi. unfold Rv, Wv, mj in *.
  pose proof (pos_mono (acc s) (cons s) j ltac:(lia)).
  pose proof (pos_S (acc s) j ltac:(lia)).
  pose proof (pos_mono (acc s) (S j) (length (acc s)) ltac:(lia)). lia.
Qed.

(* writing the cell at virtual position Wv + c (c below the fitted length)
   keeps the queue's content *)
Lemma content_upd : forall s c v len, Inv s -> fits s len -> 0 <= c < len ->
  forall j i, (cons s <= j < length (acc s))%nat -> 0 <= i < zlen (mj s j) ->
    zn (upd (buf s) ((Wv s + c) mod N) v) ((pos (acc s) j + i) mod N) = zn (mj s j) i.
Proof.
  intros s c v len I F Hc j i Hj Hi.
  pose proof (pos_in_queue s j i I Hj Hi). destruct F as [F0 F].
  rewrite zn_upd_other.
  - apply (i_content _ _ _ _ I); auto.
  - apply Z.mod_pos_bound; lia.
  - apply Z.mod_pos_bound; lia.
  - apply mod_neq_window; lia.
Qed.

Lemma copied_upd : forall s m c, Inv s -> 0 <= c < N -> copied s m c ->
  forall i, 0 <= i < c + 1 -> zn (upd (buf s) ((Wv s + c) mod N) (zn m c)) ((Wv s + i) mod N) = zn m i.
Proof.
  intros s m c I Hc C i Hi.
  destruct (Z.eq_dec i c) as [->|Ne].
  - apply zn_upd_same. rewrite (i_len _ _ _ _ I). apply Z.mod_pos_bound; lia.
  - rewrite zn_upd_other.
    + apply C; lia.
    + apply Z.mod_pos_bound; lia.
    + apply Z.mod_pos_bound; lia.
    + apply mod_neq_window; lia.
Qed.

(* the two shapes of ring_write *)
Lemma wcore_discont : forall s m len nw, Inv s -> wcore s m len nw -> nw < iw s ->
  N <= iw s + len /\ len < N /\ nw = iw s + len - N.
Proof.
  intros s m len nw I (WL & [F0 F] & E) Lt.
  pose proof (inv_R_le_W s I). pose proof (inv_iw_range s I).
  rewrite (i_w _ _ _ _ I) in *.
  destruct (Z.lt_ge_cases (Wv s mod N + len) N).
  - rewrite mod_nowrap in E by lia. lia.
  - rewrite mod_wrap in E by lia. lia.
Qed.

Lemma wcore_cont : forall s m len nw, Inv s -> wcore s m len nw -> iw s <= nw ->
  iw s + len < N.
Proof.
  intros s m len nw I (WL & [F0 F] & E) Le.
  pose proof (inv_R_le_W s I). pose proof (inv_iw_range s I).
  rewrite (i_w _ _ _ _ I) in *.
  destruct (Z.lt_ge_cases (Wv s mod N + len) N); auto.
  rewrite mod_wrap in E by lia. lia.
Qed.

(* the reader's view does not depend on what the writer changes *)
Lemma rview_app : forall s s' m, Inv s ->
  acc s' = acc s ++ [m] -> cons s' = cons s -> peek s' = peek s -> snap s' = snap s -> rp s' = rp s ->
  rview s -> rview s'.
Proof.
  intros s s' m I EA EC EP ES ER V.
  pose proof (i_pk _ _ _ _ I) as PK.
  assert (J0 : forall la, j0 s' la = j0 s la) by (intros []; unfold j0; congruence).
  assert (LE : forall la, (j0 s la <= length (acc s))%nat) by (intros []; unfold j0; lia).
  assert (BV : forall la, Bv s' la = Bv s la).
  { intros la; unfold Bv. rewrite J0, EA. apply pos_app; auto. }
  assert (NE : forall la, nonempty s la -> nonempty s' la).
  { intros la; unfold nonempty. rewrite J0, EA, app_length. simpl. lia. }
  assert (SN : forall la, snapped s la -> snapped s' la).
  { intros la; unfold snapped. rewrite J0, EA, ES, app_length. simpl. lia. }
  assert (PS : (snap s <= length (acc s))%nat -> pos (acc s') (snap s') = pos (acc s) (snap s)).
  { intros; rewrite EA, ES. apply pos_app; auto. }
  assert (MJ : forall la, nonempty s la -> mj s' (j0 s' la) = mj s (j0 s la)).
  { intros la H; unfold mj. rewrite J0, EA. apply nth_app_old. exact H. }
  assert (RC : forall la len nr a d, rcore N s la len nr a d -> rcore N s' la len nr a d).
  { intros la len nr a d (H1 & H2 & H3 & H4). unfold rcore. rewrite BV, MJ by auto. auto. }
  unfold rview in *. rewrite ER. destruct (rp s); auto.
  - destruct V as [V1 V2]. rewrite PS by lia. rewrite EA, EC, EP, ES, app_length; simpl. split; [lia|auto].
  - destruct V as [V1 V2]. rewrite PS by (destruct V1; lia). auto.
  - destruct V as [V1 V2]. rewrite PS, BV by (destruct V1; lia). auto.
  - destruct V as (V1 & V2 & V3). rewrite PS, BV by (destruct V1; lia). auto.
  - destruct V as [V1 V2]. rewrite MJ by auto. auto.
  - destruct V as (V1 & V2). rewrite BV. auto.
  - destruct V as (V1 & V2). rewrite BV. auto.
  - destruct V as (V1 & V2). rewrite BV. auto.
  - destruct V as (V1 & V2 & V3). rewrite MJ by auto.
    unfold RLv in *. change (pos (acc s') (cons s' + peek s')) with (Bv s' true). rewrite BV. auto.
  - destruct V as (V1 & V2 & V3).
    unfold Rv in *. change (cons s') with (j0 s' false). rewrite MJ by auto.
    change (pos (acc s') (j0 s' false)) with (Bv s' false). rewrite BV. auto.
  - destruct V as (V1 & V2 & V3 & V4). rewrite EC, EP. fin.
    + unfold Rv in *. rewrite EA, ?EC. rewrite pos_app by lia. auto.
    + unfold mj. rewrite EA, ?EC. rewrite nth_app_old by lia. auto.
Qed.


(* ---- reader-side helpers ---- *)
Lemma j0_ge_cons : forall s la, (cons s <= j0 s la)%nat.
Proof. intros s []; unfold j0; lia. Qed.

Lemma j0_le : forall s la, Inv s -> (j0 s la <= cons s + peek s)%nat.
Proof. intros s [] I; unfold j0; lia. Qed.

Lemma bv_range : forall s la, Inv s -> Rv s <= Bv s la <= Wv s.
Proof.
  intros s la I. pose proof (i_pk _ _ _ _ I). pose proof (j0_ge_cons s la). pose proof (j0_le s la I).
  unfold Rv, Bv, Wv. split; apply pos_mono; lia.
Qed.

Lemma base_eq : forall s la, Inv s -> is_rl (rp s) = false -> base_of s la = Bv s la mod N.
Proof.
  intros s [] I Q; unfold base_of, Bv, j0.
  - apply (i_rl _ _ _ _ I Q).
  - apply (i_r _ _ _ _ I).
Qed.

Lemma base_range : forall s la, Inv s -> is_rl (rp s) = false -> 0 <= base_of s la < N.
Proof. intros. rewrite base_eq by auto. apply Z.mod_pos_bound; lia. Qed.

Lemma sz_eq : forall s la, Inv s -> is_rl (rp s) = false -> (j0 s la <= snap s <= length (acc s))%nat ->
  (pos (acc s) (snap s) mod N - base_of s la + N) mod N = pos (acc s) (snap s) - Bv s la.
Proof.
  intros s la I Q H. rewrite base_eq by auto.
  pose proof (bv_range s la I). pose proof (i_occ _ _ _ _ I).
  assert (Bv s la <= pos (acc s) (snap s) <= Wv s).
  { unfold Bv, Wv. split; apply pos_mono; lia. }
  apply mod_diff; lia.
Qed.

Lemma accok_nth : forall s j, Inv s -> (j < length (acc s))%nat -> accok MM wf (mj s j).
Proof.
  intros s j I H. pose proof (i_acc _ _ _ _ I) as F. rewrite Forall_forall in F.
  apply F. unfold mj. apply nth_In; auto.
Qed.

Lemma acc_pos : forall s, Inv s -> Forall (fun m : msg => 0 < zlen m) (acc s).
Proof.
  intros s I. pose proof (i_acc _ _ _ _ I) as F. rewrite Forall_forall in *.
  intros x Hx. destruct (F x Hx) as (_ & ? & _). auto.
Qed.

Lemma msg_in_queue : forall s la, Inv s -> nonempty s la ->
  Bv s la + zlen (mj s (j0 s la)) <= Wv s /\ zlen (mj s (j0 s la)) <= N - 1 /\
  Bv s la + zlen (mj s (j0 s la)) = pos (acc s) (S (j0 s la)).
Proof.
  intros s la I NE. unfold nonempty in NE.
  pose proof (pos_S (acc s) (j0 s la) NE).
  pose proof (pos_mono (acc s) (S (j0 s la)) (length (acc s)) ltac:(lia)).
  pose proof (bv_range s la I). pose proof (i_occ _ _ _ _ I).
  unfold Bv, Wv, mj in *. lia.
Qed.

Lemma content_j0 : forall s la i, Inv s -> nonempty s la -> 0 <= i < zlen (mj s (j0 s la)) ->
  zn (buf s) ((Bv s la + i) mod N) = zn (mj s (j0 s la)) i.
Proof.
  intros s la i I NE Hi. apply (i_content _ _ _ _ I); auto.
  pose proof (j0_ge_cons s la). unfold nonempty in NE. lia.
Qed.

Lemma wview_mono : forall s s', wp s' = wp s -> iw s' = iw s -> buf s' = buf s -> acc s' = acc s ->
  Rv s <= Rv s' -> wview s -> wview s'.
Proof.
  intros s s' EW EI EB EA LE V.
  assert (WE : Wv s' = Wv s) by (unfold Wv; now rewrite EA).
  assert (F : forall len, fits s len -> fits s' len) by (unfold RingInv.fits; intros; rewrite WE; lia).
  assert (C : forall m c, copied s m c -> copied s' m c).
  { unfold RingInv.copied; intros m c H i Hi. rewrite EB, WE. auto. }
  assert (K : forall m len nw, wcore s m len nw -> wcore s' m len nw).
  { unfold RingInv.wcore; intros m len nw (H1 & H2 & H3). rewrite WE. auto. }
  unfold RingInv.wview in *. rewrite EW. destruct (wp s); rewrite ?EI; intuition auto.
Qed.

Lemma inv_wstep : forall s, Inv s -> Inv (wstep N MM s).
Proof.
  intros s I. pose proof I as [L E IW IR IRL OCC PK ACC SCR CON WV RV HI].
  pose proof (inv_R_le_W s I) as RW. pose proof (inv_iw_range s I) as WR.
  unfold wstep. unfold wview in WV. destruct (wp s) eqn:EW.
  - (* WIdle *)
    unfold wfetch. destruct (wscr s) as [|[m|m] tl] eqn:ES; auto.
    + apply Forall_cons_iff in SCR as [H1 H2]. destruct (zlen m <=? MM) eqn:EM.
      * mk. unfold wview, wcore; nrm. split; auto. right. split; auto. lia.
      * mk. { unfold wview, wcore; nrm. now rewrite EW. } apply histP_drop. exact HI.
    + apply Forall_cons_iff in SCR as [H1 H2]. mk. unfold wview, wcore; nrm. split; auto. unfold enc_len.
      destruct (zlen m <=? MM) eqn:EM; [right; split; auto; lia | left; split; auto; lia].
  - (* WSizeW *) mk. unfold wview, wcore; nrm. auto.
  - (* WSizeR *)
    destruct WV as [WL ->]. rewrite IW, IR.
    rewrite free_eq by lia.
    destruct (len <=? N - 1 - (Wv s - Rv s)) eqn:EF.
    + mk. unfold wview, wcore; nrm. split; auto. split; [|nrm; lia].
      destruct WL as [[_ P] [[-> _]|[-> _]]]; lia.
    + mk. { unfold wview, wcore; nrm. auto. } apply histP_drop. exact HI.
  - (* WNextW *)
    destruct WV as [WL F]. mk. unfold wview, wcore; nrm. fin.
    rewrite IW. nrm. apply mod_add_l.
  - (* WCmpW *)
    destruct (nw <? iw s) eqn:EC; mk; unfold wview, wcore; nrm; split; auto; lia.
  - (* WW1 *) destruct WV. mk. unfold wview, wcore; nrm. auto.
  - (* WBase1 *) destruct WV as (C & Lt & ->). mk. unfold wview, wcore; nrm. fin; try (intros i Hi; lia).
  - (* WCopy1 *)
    destruct WV as (C & Lt & -> & -> & Hk & CP).
    destruct (wcore_discont s m len nw I C Lt) as (D1 & D2 & D3).
    destruct (k <? N - iw s) eqn:EK.
    + assert (X : iw s + k = (Wv s + k) mod N) by (rewrite IW; symmetry; apply mod_nowrap; lia).
      unfold store, inb. replace ((0 <=? iw s + k) && (iw s + k <? N)) with true by lia.
      rewrite X. destruct C as (C1 & C2 & C3).
      mk; cbn.
      * now rewrite zlen_upd.
      * intros j i Hj Hi. apply (content_upd s k _ len); auto. lia.
      * unfold wview, wcore; nrm. fin.
        intros i Hi. apply copied_upd; auto. lia.
    + mk. unfold wview, wcore; nrm. fin.
      intros i Hi. apply CP. lia.
  - (* WCopy2 *)
    destruct WV as (C & Lt & -> & Hk & CP).
    destruct (wcore_discont s m len nw I C Lt) as (D1 & D2 & D3).
    destruct (k <? len - (N - iw s)) eqn:EK.
    + assert (X : k = (Wv s + (N - iw s + k)) mod N).
      { rewrite IW. rewrite mod_wrap; rewrite <- ?IW; lia. }
      unfold store, inb. replace ((0 <=? k) && (k <? N)) with true by lia.
      rewrite X at 1. destruct C as (C1 & C2 & C3).
      mk; cbn.
      * now rewrite zlen_upd.
      * intros j i Hj Hi. apply (content_upd s (N - iw s + k) _ len); auto. lia.
      * unfold wview, wcore; nrm. fin.
        intros i Hi. replace (N - iw s + (k + 1)) with ((N - iw s + k) + 1) in Hi by lia.
        apply copied_upd; auto. lia.
    + destruct C as (C1 & C2 & C3). mk. unfold wview, wcore; nrm. fin.
      intros i Hi. apply CP. lia.
  - (* WBaseC *) destruct WV as (C & Le). mk. unfold wview, wcore; nrm. fin.
  - (* WCopyC *)
    destruct WV as (C & Le & -> & Hk & CP).
    pose proof (wcore_cont s m len nw I C Le) as D1.
    destruct (k <? len) eqn:EK.
    + assert (X : iw s + k = (Wv s + k) mod N) by (rewrite IW; symmetry; apply mod_nowrap; lia).
      unfold store, inb. replace ((0 <=? iw s + k) && (iw s + k <? N)) with true by lia.
      rewrite X. destruct C as (C1 & C2 & C3).
      mk; cbn.
      * now rewrite zlen_upd.
      * intros j i Hj Hi. apply (content_upd s k _ len); auto. lia.
      * unfold wview, wcore; nrm. fin.
        intros i Hi. apply copied_upd; auto. lia.
    + destruct C as (C1 & C2 & C3). mk. unfold wview, wcore; nrm. fin.
      intros i Hi. apply CP. lia.
  - (* WPublish *)
    destruct WV as ((WL & [F0 F] & ->) & CP).
    destruct (0 <? len) eqn:EL.
    + destruct WL as [[WF P] [[-> _]|[-> LM]]]; [lia|].
      assert (WV' : pos (acc s ++ [m]) (length (acc s ++ [m])) = Wv s + zlen m).
      { rewrite app_length; simpl. rewrite Nat.add_1_r. apply pos_app_last. }
      mk; cbn.
      * unfold Wv; cbn. now rewrite WV'.
      * unfold Rv; cbn. rewrite pos_app by lia. exact IR.
      * intros Q. unfold RLv; cbn. rewrite pos_app by lia. apply IRL. exact Q.
      * unfold Wv, Rv; cbn. rewrite WV', pos_app by lia. fold (Rv s). lia.
      * rewrite app_length; simpl. lia.
      * apply Forall_app; split; auto. constructor; auto. repeat split; auto; lia.
      * intros j i Hj Hi. unfold mj in *; cbn in *. rewrite app_length in Hj; simpl in Hj.
        destruct (Nat.eq_dec j (length (acc s))) as [->|Ne].
        -- rewrite pos_app by lia. rewrite app_nth2 in * by lia. rewrite Nat.sub_diag in *. simpl in *.
           apply CP. lia.
        -- rewrite pos_app by lia. rewrite nth_app_old in * by lia.
           apply CON; auto. lia.
      * unfold wview, wcore; nrm. auto.
      * eapply rview_app with (s := s) (m := m); eauto.
      * apply histP_acc. exact HI.
    + assert (len = 0) by lia. subst len. rewrite Z.add_0_r, <- IW.
      mk; cbn.
      * unfold wview, wcore; nrm. auto.
      * apply histP_drop. exact HI.
Qed.

(* ---- second invariant: every message of the history except the very last
   one is self-delimiting.  The history = accepted ++ in flight ++ still in
   the script; a dropped message leaves it.  It only speaks about ghost and
   script fields, so it is preserved independently of Inv. ---- *)
Definition pend (s : state) : list msg := acc s ++ inflight (wp s) ++ map wmsg (wscr s).
Definition Inv2 (s : state) : Prop := Forall sd (removelast (pend s)).

Lemma inv2_wstep : forall s, Inv2 s -> Inv2 (wstep N MM s).
Proof.
  intros s I2. unfold Inv2, pend in *. unfold wstep, wfetch.
  destruct (wp s) eqn:EW; cbn [inflight] in I2.
  - destruct (wscr s) as [|[m|m] tl] eqn:ES; [rewrite EW, ES; exact I2| |].
    + destruct (zlen m <=? MM); nrm; cbn [inflight map wmsg] in *; [exact I2|].
      rewrite EW. cbn [inflight]. simpl app in *. now apply removelast_delete in I2.
    + nrm. cbn [inflight map wmsg] in *. exact I2.
  - nrm. exact I2.
  - destruct (_ <=? _); nrm; cbn [inflight] in *; [exact I2|].
    simpl app in *. now apply removelast_delete in I2.
  - nrm. exact I2.
  - destruct (_ <? _); nrm; exact I2.
  - nrm. exact I2.
  - nrm. exact I2.
  - destruct (_ <? _); [unfold store; destruct (inb N _)|]; nrm; exact I2.
  - destruct (_ <? _); [unfold store; destruct (inb N _)|]; nrm; exact I2.
  - nrm. exact I2.
  - destruct (_ <? _); [unfold store; destruct (inb N _)|]; nrm; exact I2.
  - destruct (0 <? len); nrm; cbn [inflight] in *; simpl app in *.
    + rewrite <- app_assoc. exact I2.
    + now apply removelast_delete in I2.
Qed.

Ltac rv := unfold RingInv.rview, rcore; nrm.

Lemma inv_rstep : forall s, Inv s -> Inv2 s -> Inv (rstep N MM frame s).
Proof.
  intros s I I2. pose proof I as [L E IW IR IRL OCC PK ACC SCR CON WV RV HI].
  pose proof (inv_R_le_W s I) as RW.
  unfold rstep. unfold RingInv.rview in RV. unfold hist in HI.
  destruct (rp s) eqn:ER; cbn [is_rl] in *; try specialize (IRL eq_refl).
  - (* RIdle *)
    unfold rfetch. destruct (rscr s) as [|[la|la] tl] eqn:ES; auto.
    + mk; unfold RingInv.rview, hist; nrm; auto.
    + mk; unfold RingInv.rview, hist; nrm; auto.
  - (* RHasW *)
    mk; unfold RingInv.rview, hist; nrm; auto.
  - (* RHasR *)
    destruct RV as [SN ->].
    assert (Q : is_rl (rp s) = false) by now rewrite ER.
    rewrite (sz_eq s la I Q) by (pose proof (j0_le s la I); lia).
    assert (B : negb (pos (acc s) (snap s) - Bv s la =? 0) = (j0 s la <? snap s)%nat).
    { destruct (Nat.ltb_spec (j0 s la) (snap s)).
      - pose proof (pos_strict (acc s) (j0 s la) (snap s) (acc_pos s I) ltac:(lia)). unfold Bv. lia.
      - assert (j0 s la = snap s) by (pose proof (j0_le s la I); destruct la; unfold j0 in *; lia).
        unfold Bv. rewrite H0. rewrite Z.sub_diag. reflexivity. }
    rewrite B.
    assert (HO : has_ok (OHas la (j0 s la <? snap s)%nat (snap s) (cons s) (peek s))).
    { simpl. unfold j0. destruct la; auto. }
    destruct (try && (j0 s la <? snap s)%nat) eqn:ET.
    + mk; unfold RingInv.rview, hist; nrm; auto.
      * apply andb_true_iff in ET as [_ ET]. apply Nat.ltb_lt in ET. lia.
      * apply histP_has; auto.
    + mk; unfold RingInv.rview, hist; nrm; auto. apply histP_has; auto.
  - (* RVecW *)
    mk; unfold RingInv.rview, hist; nrm; auto.
  - (* RVecR *)
    destruct RV as [SN ->].
    assert (Q : is_rl (rp s) = false) by now rewrite ER.
    rewrite (sz_eq s la I Q) by (unfold snapped in SN; lia).
    mk; unfold RingInv.rview, hist; nrm; auto.
  - (* RVecB *)
    destruct RV as [SN ->].
    assert (Q : is_rl (rp s) = false) by now rewrite ER.
    mk; unfold RingInv.rview, hist; auto. cbn [rp set_rp]. split; [exact SN|split; [reflexivity|exact (base_eq s la I Q)]].
  - (* RFrame *)
    destruct RV as (SN & -> & ->).
    assert (NE : nonempty s la) by (unfold nonempty, snapped in *; lia).
    destruct (msg_in_queue s la I NE) as (M1 & M2 & M3).
    destruct (accok_nth s (j0 s la) I NE) as (WF & P1 & P2).
    pose proof (bv_range s la I) as BR.
    assert (SZ : zlen (mj s (j0 s la)) <= pos (acc s) (snap s) - Bv s la <= N - 1).
    { unfold snapped in SN.
      pose proof (pos_mono (acc s) (S (j0 s la)) (snap s) ltac:(lia)).
      pose proof (pos_mono (acc s) (snap s) (length (acc s)) ltac:(lia)).
      unfold Wv in *. lia. }
    destruct (view_prefix N (buf s) (Bv s la mod N) (pos (acc s) (snap s) - Bv s la) (mj s (j0 s la)))
      as [rest VP]; auto; try lia.
    { apply Z.mod_pos_bound; lia. }
    { intros i Hi. rewrite mod_add_l by auto. apply content_j0; auto. }
    rewrite VP, frame_hd; [|auto|].
    2:{ (* another message follows in the view: this one is not the last of the
           history, hence self-delimiting; none follows: the view ends with it *)
        unfold snapped in SN.
        destruct (Nat.eq_dec (snap s) (S (j0 s la))) as [ES|ES].
        - right. assert (VL : zlen (view N (buf s) (Bv s la mod N) (pos (acc s) (snap s) - Bv s la)) =
                              pos (acc s) (snap s) - Bv s la).
          { apply view_len; auto; try lia. apply Z.mod_pos_bound; lia. }
          rewrite VP, ES in VL. unfold zlen in VL. rewrite app_length in VL.
          destruct rest; [reflexivity|]. unfold zlen in M3. simpl in VL. lia.
        - left. unfold mj. apply (removelast_nth sd (acc s) (inflight (wp s) ++ map wmsg (wscr s))).
          + exact I2.
          + lia. }
    mk; unfold RingInv.rview, hist; nrm; auto.
  - (* RReadR *)
    destruct RV as (NE & ->).
    assert (Q : is_rl (rp s) = false) by now rewrite ER.
    rewrite (base_eq s la I Q). rewrite mod_add_l by auto.
    pose proof (Z.mod_pos_bound (Bv s la) N N_pos) as BR.
    pose proof (zlen_nonneg (mj s (j0 s la))) as ZL.
    destruct (_ <? _) eqn:EC.
    + mk; unfold RingInv.rview, hist; auto. cbn [rp set_rp]. unfold rcore. fin.
    + mk; unfold RingInv.rview, hist; auto. cbn [rp set_rp]. unfold rcore. fin.
  - (* RCopy1 *)
    destruct RV as ((NE & -> & -> & ->) & -> & Lt & -> & Hk).
    destruct (msg_in_queue s la I NE) as (M1 & M2 & M3).
    destruct (accok_nth s (j0 s la) I NE) as (WF & P1 & P2).
    pose proof (Z.mod_pos_bound (Bv s la) N N_pos) as BR.
    assert (D : N <= Bv s la mod N + zlen (mj s (j0 s la))).
    { destruct (Z.lt_ge_cases (Bv s la mod N + zlen (mj s (j0 s la))) N); auto.
      rewrite <- mod_add_l in Lt by auto. rewrite Z.mod_small in Lt; lia. }
    destruct (k <? N - Bv s la mod N) eqn:EK.
    + assert (X : Bv s la mod N + k = (Bv s la + k) mod N) by (symmetry; apply mod_nowrap; lia).
      unfold loadchk, inb.
      replace ((0 <=? Bv s la mod N + k) && (Bv s la mod N + k <? N) && (k <? MM)) with true by lia.
      rewrite X, content_j0 by (auto; lia).
      mk; unfold RingInv.rview, hist; auto. cbn [rp set_rp]. unfold rcore. fin.
      symmetry. refine (firstn_zsnoc (mj s (j0 s la)) _ _). lia.
    + mk; unfold RingInv.rview, hist; auto. cbn [rp set_rp]. unfold rcore. fin.
      f_equal. f_equal. lia.
  - (* RCopy2 *)
    destruct RV as ((NE & -> & -> & ->) & Lt & -> & Hk).
    destruct (msg_in_queue s la I NE) as (M1 & M2 & M3).
    destruct (accok_nth s (j0 s la) I NE) as (WF & P1 & P2).
    pose proof (Z.mod_pos_bound (Bv s la) N N_pos) as BR.
    destruct (k <? zlen (mj s (j0 s la)) - (N - Bv s la mod N)) eqn:EK.
    + assert (X : k = (Bv s la + (N - Bv s la mod N + k)) mod N) by (rewrite mod_wrap; lia).
      unfold loadchk, inb.
      replace ((0 <=? k) && (k <? N) && (N - Bv s la mod N + k <? MM)) with true by lia.
      rewrite X at 3. rewrite content_j0 by (auto; lia).
      mk; unfold RingInv.rview, hist; auto. cbn [rp set_rp]. unfold rcore. fin.
      replace (N - Bv s la mod N + (k + 1)) with ((N - Bv s la mod N + k) + 1) by lia.
      symmetry. refine (firstn_zsnoc (mj s (j0 s la)) _ _). lia.
    + assert (A : firstn (Z.to_nat (N - Bv s la mod N + k)) (mj s (j0 s la)) = mj s (j0 s la)).
      { replace (N - Bv s la mod N + k) with (zlen (mj s (j0 s la))) by lia. apply firstn_zall. }
      unfold rfinish. destruct la; mk; unfold RingInv.rview, hist; auto; cbn [rp set_rp]; fin.
  - (* RCopyC *)
    destruct RV as ((NE & -> & -> & ->) & -> & Le & Hk).
    destruct (msg_in_queue s la I NE) as (M1 & M2 & M3).
    destruct (accok_nth s (j0 s la) I NE) as (WF & P1 & P2).
    pose proof (Z.mod_pos_bound (Bv s la) N N_pos) as BR.
    assert (D : Bv s la mod N + zlen (mj s (j0 s la)) < N).
    { destruct (Z.lt_ge_cases (Bv s la mod N + zlen (mj s (j0 s la))) N); auto.
      rewrite mod_wrap in Le by lia. lia. }
    destruct (k <? zlen (mj s (j0 s la))) eqn:EK.
    + assert (X : Bv s la mod N + k = (Bv s la + k) mod N) by (symmetry; apply mod_nowrap; lia).
      unfold loadchk, inb.
      replace ((0 <=? Bv s la mod N + k) && (Bv s la mod N + k <? N) && (k <? MM)) with true by lia.
      rewrite X, content_j0 by (auto; lia).
      mk; unfold RingInv.rview, hist; auto. cbn [rp set_rp]. unfold rcore. fin.
      symmetry. refine (firstn_zsnoc (mj s (j0 s la)) _ _). lia.
    + assert (A : firstn (Z.to_nat k) (mj s (j0 s la)) = mj s (j0 s la)).
      { replace k with (zlen (mj s (j0 s la))) by lia. apply firstn_zall. }
      unfold rfinish. destruct la; mk; unfold RingInv.rview, hist; auto; cbn [rp set_rp]; fin.
  - (* RStoreLA *)
    destruct RV as (NE & -> & ->).
    destruct (msg_in_queue s true I NE) as (M1 & M2 & M3).
    unfold nonempty in NE. cbn [j0] in *.
    mk; unfold RingInv.rview, hist; nrm; auto.
    + intros _. rewrite Nat.add_succ_r. unfold Bv in M3. cbn [j0] in M3. rewrite <- M3. reflexivity.
    + lia.
    + apply histP_readla; auto. apply nth_error_nth'. exact NE.
  - (* RStoreR *)
    destruct RV as (NE & -> & ->).
    destruct (msg_in_queue s false I NE) as (M1 & M2 & M3).
    unfold nonempty in NE. cbn [j0] in *. unfold Bv in M3. cbn [j0] in M3.
    assert (RR : Rv s <= pos (acc s) (S (cons s))) by (unfold Rv; apply pos_mono; lia).
    mk; unfold RingInv.rview, hist; nrm; auto.
    + rewrite <- M3. reflexivity.
    + intros Q; discriminate.
    + lia.
    + lia.
    + intros j i Hj Hi. nrm. apply CON; auto. nrm. lia.
    + apply (wview_mono s); auto.
    + repeat split; auto; try lia. rewrite <- M3. reflexivity.
    + apply histP_storeR with (p := peek s). exact HI.
  - (* RStoreRL *)
    destruct RV as (C0 & P0 & -> & ->).
    mk; unfold RingInv.rview, hist; nrm; auto.
    + intros _. rewrite P0, Nat.add_0_r. reflexivity.
    + rewrite P0 in HI |- *. cbn [is_rl]. apply histP_readn with (p := O); auto.
      apply nth_error_nth'. lia.
Qed.

(* the reader touches neither the accepted list nor the writer's side *)
Lemma rstep_writer_side : forall s,
  acc (rstep N MM frame s) = acc s /\ wp (rstep N MM frame s) = wp s /\ wscr (rstep N MM frame s) = wscr s.
Proof.
  intros s. unfold rstep, rfetch, rfinish, loadchk.
  destruct (rp s); try (destruct (rscr s) as [|[|] ?]);
    repeat match goal with
           | |- context [if ?c then _ else _] => destruct c
           end; cbn; auto.
Qed.

Lemma inv2_rstep : forall s, Inv2 s -> Inv2 (rstep N MM frame s).
Proof.
  intros s I2. unfold Inv2, pend in *. destruct (rstep_writer_side s) as (-> & -> & ->). exact I2.
Qed.

Lemma inv_step : forall s t, Inv s -> Inv2 s -> Inv (step N MM frame s t).
Proof. intros s [|] I I2; simpl; auto using inv_wstep, inv_rstep. Qed.

Lemma inv2_step : forall s t, Inv2 s -> Inv2 (step N MM frame s t).
Proof. intros s [|] I2; simpl; auto using inv2_wstep, inv2_rstep. Qed.

(* ---- the invariant holds initially and after every schedule ---- *)
Lemma inv_init : forall ws rs, Forall (fun o => okmsg wf (wmsg o)) ws -> Inv (init N ws rs).
Proof.
  intros ws rs F. constructor; unfold RingInv.content, RingInv.wview, RingInv.rview, hist; nrm; simpl; auto; try lia.
  - unfold zlen. rewrite repeat_length. lia.
  - repeat split; auto.
Qed.

Lemma inv2_init : forall ws rs, Forall sd (removelast (map wmsg ws)) -> Inv2 (init N ws rs).
Proof. intros ws rs F. exact F. Qed.

Lemma inv_run : forall sched s, Inv s -> Inv2 s -> Inv (run N MM frame s sched) /\ Inv2 (run N MM frame s sched).
Proof.
  induction sched; simpl; intros; auto. apply IHsched; [apply inv_step | apply inv2_step]; auto.
Qed.

Lemma inv_reach : forall ws rs sched, Forall (fun o => okmsg wf (wmsg o)) ws ->
  Forall sd (removelast (map wmsg ws)) ->
  Inv (run N MM frame (init N ws rs) sched) /\ Inv2 (run N MM frame (init N ws rs) sched).
Proof. intros; apply inv_run; [apply inv_init | apply inv2_init]; auto. Qed.

(* ---- FIFO: normal reads are a prefix of the accepted messages ---- *)
Fixpoint nreads (os : list obs) : list msg :=
  match os with
  | [] => []
  | ORead false b :: t => b :: nreads t
  | _ :: t => nreads t
  end.

Lemma skipn_nth_error : forall (l : list msg) c b, nth_error l c = Some b -> skipn c l = b :: skipn (S c) l.
Proof.
  induction l; destruct c; simpl; intros; try discriminate.
  - now inversion H.
  - rewrite (IHl c b H). destruct l; [destruct c; discriminate|reflexivity].
Qed.

Lemma reads_prefix : forall l os c p, reads_ok l os c p ->
  nreads os = firstn (length (nreads os)) (skipn c l).
Proof.
  induction os as [|x t IH]; intros c p H; simpl in *; auto.
  destruct x as [m|m|la b gn gc gp|[] b]; simpl in *.
  - apply (IH c p H).
  - apply (IH c p H).
  - apply (IH c p H).
  - destruct H as [_ H]. apply (IH c (S p) H).
  - destruct H as [K H]. rewrite (skipn_nth_error l c b K). simpl. f_equal. apply (IH (S c) O H).
Qed.

Lemma fifo : forall s, Inv s ->
  nreads (out s) = firstn (length (nreads (out s))) (accs_of (out s)).
Proof.
  intros s I. destruct (i_hist _ _ _ _ I) as (H1 & H2 & H3 & H4).
  rewrite H3. apply (reads_prefix (acc s) (out s) O O H1).
Qed.

(* lookahead: the whole reader log replays on the abstract queue *)
Lemma lookahead : forall s, Inv s -> reads_ok (accs_of (out s)) (out s) O O.
Proof. intros s I. destruct (i_hist _ _ _ _ I) as (H1 & H2 & H3 & H4). now rewrite H3. Qed.

Lemma hasnext_lin : forall s, Inv s -> Forall has_ok (out s).
Proof. intros s I. destruct (i_hist _ _ _ _ I) as (H1 & H2 & H3 & H4). auto. Qed.

(* ---- the writer's decision and dropped writes ---- *)
Definition shared_eq (s s' : state) : Prop :=
  buf s' = buf s /\ iw s' = iw s /\ ir s' = ir s /\ irl s' = irl s /\ acc s' = acc s.

Definition wp_len (p : wpc) : option Z :=
  match p with
  | WIdle => None
  | WSizeW _ len | WSizeR _ len _ | WNextW _ len | WCmpW _ len _ | WW1 _ len _ | WBase1 _ len _ _
  | WCopy1 _ len _ _ _ _ | WCopy2 _ len _ _ _ | WBaseC _ len _ | WCopyC _ len _ _ _ | WPublish _ len _ => Some len
  end.

(* a write whose encoding reports 0 (longer than MaxMsg) never changes the
   shared state, at any of its steps *)
Lemma drop_maxmsg : forall s, Inv s -> wp_len (wp s) = Some 0 -> shared_eq s (wstep N MM s) /\
  (wp (wstep N MM s) = WIdle \/ wp_len (wp (wstep N MM s)) = Some 0).
Proof.
  intros s I H. pose proof (i_wv _ _ _ _ I) as WV. pose proof (inv_iw_range s I) as WR.
  unfold wstep, shared_eq. unfold RingInv.wview in WV.
  destruct (wp s) eqn:EW; simpl in H; try discriminate; inversion H; subst len; clear H.
  - nrm. auto 10.
  - destruct (0 <=? _); nrm; auto 10.
  - nrm. auto 10.
  - destruct (nw <? iw s); nrm; auto 10.
  - nrm. auto 10.
  - nrm. auto 10.
  - destruct WV as (C & Lt & _). destruct (wcore_discont s m 0 nw I C Lt). lia.
  - destruct WV as (C & Lt & _). destruct (wcore_discont s m 0 nw I C Lt). lia.
  - nrm. auto 10.
  - destruct WV as (C & Le & -> & Hk & CP). replace (k <? 0) with false by lia. nrm. auto 10.
  - destruct WV as ((WL & F & ->) & _). simpl. pose proof (i_w _ _ _ _ I) as IW. nrm. rewrite Z.add_0_r, <- IW. auto 10.
Qed.

(* the fit test is exact: the write goes on iff the message fits into the free
   space at the moment read is loaded; otherwise it is dropped at once and
   nothing shared changes *)
Lemma write_decision : forall s m len wv, Inv s -> wp s = WSizeR m len wv ->
  (len <= N - 1 - (Wv s - Rv s) -> wp (wstep N MM s) = WNextW m len) /\
  (N - 1 - (Wv s - Rv s) < len ->
     shared_eq s (wstep N MM s) /\ wp (wstep N MM s) = WIdle /\ out (wstep N MM s) = out s ++ [ODrop m]).
Proof.
  intros s m len wv I EW. pose proof (i_wv _ _ _ _ I) as WV. pose proof (inv_R_le_W s I).
  pose proof (i_occ _ _ _ _ I).
  unfold RingInv.wview in WV. rewrite EW in WV. destruct WV as [WL ->].
  unfold wstep. rewrite EW. rewrite (i_w _ _ _ _ I), (i_r _ _ _ _ I). rewrite free_eq by lia.
  split; intros K.
  - replace (len <=? _) with true by lia. reflexivity.
  - replace (len <=? _) with false by lia. unfold shared_eq. nrm. auto 10.
Qed.

(* only the publishing store appends to the accepted messages; every other
   writer step leaves the queue's bytes where they are (part of Inv: content) *)

(* ---- data-race freedom ---- *)
Lemma rfoot_frame : forall rv sz i, 0 <= rv < N -> 0 <= sz < N ->
  (if N <? sz + rv then ((rv <=? i) && (i <? N)) || ((0 <=? i) && (i <? (sz + rv) mod N))
   else (rv <=? i) && (i <? rv + sz)) = true ->
  exists t, 0 <= t < sz /\ i = (rv + t) mod N.
Proof.
  intros rv sz i Hr Hs H. destruct (N <? sz + rv) eqn:E.
  - assert (X : (sz + rv) mod N = sz + rv - N) by (symmetry; apply Z.mod_unique with (q := 1); lia).
    rewrite X in H. apply orb_true_iff in H as [H|H].
    + exists (i - rv). split; [lia|]. rewrite Z.mod_small; lia.
    + exists (i + N - rv). split; [lia|]. apply Z.mod_unique with (q := 1); lia.
  - exists (i - rv). split; [lia|]. rewrite Z.mod_small; lia.
Qed.

Lemma drf : forall s i, Inv s -> wfoot s = Some i -> rfoot N s i = false.
Proof.
  intros s i I HW. destruct (rfoot N s i) eqn:HR; auto. exfalso.
  pose proof (i_wv _ _ _ _ I) as WV. pose proof (i_rv _ _ _ _ I) as RV.
  pose proof (inv_R_le_W s I) as RW. pose proof (inv_iw_range s I) as WR.
  pose proof (i_w _ _ _ _ I) as IW.
  unfold RingInv.wview in WV. unfold RingInv.rview in RV.
  (* the writer's cell: virtual position Wv + c with c below the fitted length *)
  assert (WC : exists c len, (0 <= len <= N - 1 - (Wv s - Rv s)) /\ 0 <= c < len /\ i = (Wv s + c) mod N).
  { unfold wfoot in HW. destruct (wp s) eqn:EW; try discriminate.
    - destruct WV as (C & Lt & -> & -> & Hk & _).
      destruct (wcore_discont s m len nw I C Lt) as (D1 & D2 & D3). destruct C as (_ & [F0 F] & _).
      destruct (k <? N - iw s) eqn:EK; inversion HW; subst i.
      exists k, len. repeat split; try lia. rewrite IW. symmetry. apply mod_nowrap; lia.
    - destruct WV as (C & Lt & -> & Hk & _).
      destruct (wcore_discont s m len nw I C Lt) as (D1 & D2 & D3). destruct C as (_ & [F0 F] & _).
      destruct (k <? len - (N - iw s)) eqn:EK; inversion HW; subst i.
      exists (N - iw s + k), len. repeat split; try lia. rewrite IW. rewrite mod_wrap; rewrite <- ?IW; lia.
    - destruct WV as (C & Le & -> & Hk & _).
      pose proof (wcore_cont s m len nw I C Le) as D1. destruct C as (_ & [F0 F] & _).
      destruct (k <? len) eqn:EK; inversion HW; subst i.
      exists k, len. repeat split; try lia. rewrite IW. symmetry. apply mod_nowrap; lia. }
  destruct WC as (c & len & [F0 F] & Hc & ->).
  (* the reader's cell: virtual position inside [Rv, Wv) *)
  assert (RC : exists q, Rv s <= q < Wv s /\ (Wv s + c) mod N = q mod N).
  { unfold rfoot in HR. destruct (rp s) eqn:ER; try discriminate.
    - destruct RV as (SN & -> & ->).
      assert (NE : nonempty s la) by (unfold nonempty, snapped in *; lia).
      pose proof (bv_range s la I) as BR. pose proof (i_occ _ _ _ _ I).
      assert (SZ : 0 <= pos (acc s) (snap s) - Bv s la /\ pos (acc s) (snap s) <= Wv s).
      { unfold snapped in SN. unfold Bv, Wv. split.
        - pose proof (pos_mono (acc s) (j0 s la) (snap s) ltac:(lia)). lia.
        - apply pos_mono. lia. }
      apply rfoot_frame in HR; try lia; [|apply Z.mod_pos_bound; lia].
      destruct HR as (t & Ht & HE). rewrite mod_add_l in HE by auto.
      exists (Bv s la + t). split; [lia|auto].
    - destruct RV as ((NE & -> & -> & ->) & -> & Lt & -> & Hk).
      destruct (msg_in_queue s la I NE) as (M1 & M2 & M3). pose proof (bv_range s la I) as BR.
      pose proof (Z.mod_pos_bound (Bv s la) N N_pos). pose proof (zlen_nonneg (mj s (j0 s la))).
      assert (D : N <= Bv s la mod N + zlen (mj s (j0 s la))).
      { destruct (Z.lt_ge_cases (Bv s la mod N + zlen (mj s (j0 s la))) N); auto.
        rewrite <- mod_add_l in Lt by auto. rewrite Z.mod_small in Lt; lia. }
      apply andb_true_iff in HR as [H1 H2]. exists (Bv s la + k). split; [lia|].
      rewrite <- (mod_add_l N (Bv s la)). rewrite (Z.mod_small (Bv s la mod N + k)); lia.
    - destruct RV as ((NE & -> & -> & ->) & Lt & -> & Hk).
      destruct (msg_in_queue s la I NE) as (M1 & M2 & M3). pose proof (bv_range s la I) as BR.
      pose proof (Z.mod_pos_bound (Bv s la) N N_pos). pose proof (zlen_nonneg (mj s (j0 s la))).
      apply andb_true_iff in HR as [H1 H2]. exists (Bv s la + (N - Bv s la mod N + k)). split; [lia|].
      rewrite (mod_wrap N (Bv s la)); lia.
    - destruct RV as ((NE & -> & -> & ->) & -> & Le & Hk).
      destruct (msg_in_queue s la I NE) as (M1 & M2 & M3). pose proof (bv_range s la I) as BR.
      pose proof (Z.mod_pos_bound (Bv s la) N N_pos). pose proof (zlen_nonneg (mj s (j0 s la))).
      assert (D : Bv s la mod N + zlen (mj s (j0 s la)) < N).
      { destruct (Z.lt_ge_cases (Bv s la mod N + zlen (mj s (j0 s la))) N); auto.
        rewrite mod_wrap in Le by lia. lia. }
      apply andb_true_iff in HR as [H1 H2]. exists (Bv s la + k). split; [lia|].
      rewrite <- (mod_add_l N (Bv s la)). rewrite (Z.mod_small (Bv s la mod N + k)); lia. }
  destruct RC as (q & Hq & HE).
  revert HE. apply mod_neq_window; auto. lia.
Qed.

(* no out-of-bounds access: neither the ring buffer nor read_buffer *)
Lemma safe : forall s, Inv s -> err s = false.
Proof. intros s I. apply (i_err _ _ _ _ I). Qed.

(* a successful hasNext stays true until the reader reads: in every state in
   which the reader is past a positive answer the queue it polls is non-empty *)
Definition reading (p : rpc) : option bool :=
  match p with
  | RVecW la | RVecR la _ | RVecB la _ | RFrame la _ _ | RReadR la _
  | RCopy1 la _ _ _ _ _ _ | RCopy2 la _ _ _ _ _ | RCopyC la _ _ _ _ _ => Some la
  | RStoreLA _ _ => Some true
  | RStoreR _ _ => Some false
  | _ => None
  end.
Lemma hasnext_stable : forall s la, Inv s -> reading (rp s) = Some la -> nonempty s la.
Proof.
  intros s la I H. pose proof (i_rv _ _ _ _ I) as RV. unfold RingInv.rview in RV.
  destruct (rp s); simpl in H; try discriminate; inversion H; subst;
    unfold snapped, rcore, nonempty in *; intuition lia.
Qed.
End Proofs.

(* ---- the writer's log: every written message is accepted or dropped, once,
   in script order (independent of framing) ---------------------------------- *)
Fixpoint wlog (os : list obs) : list msg :=
  match os with
  | [] => []
  | OAcc m :: t => m :: wlog t
  | ODrop m :: t => m :: wlog t
  | _ :: t => wlog t
  end.
Definition written (s : state) : list msg := wlog (out s) ++ inflight (wp s) ++ map wmsg (wscr s).

Lemma wlog_snoc : forall os o, wlog (os ++ [o]) = wlog os ++ wlog [o].
Proof. induction os as [|x t IH]; intros; simpl; auto. destruct x; simpl; rewrite ?IH; auto. Qed.

Lemma written_step : forall N MM frame s t, written (step N MM frame s t) = written s.
Proof.
  intros N MM frame s [|]; unfold written, step.
  - unfold wstep, wfetch. destruct (wp s) eqn:EW; simpl.
    + destruct (wscr s) as [|[m|m] tl] eqn:ES; simpl.
      * rewrite ?EW, ?ES; reflexivity.
      * destruct (zlen m <=? MM); simpl; rewrite ?EW; simpl; auto. rewrite wlog_snoc; simpl. now rewrite <- app_assoc.
      * reflexivity.
    + reflexivity.
    + destruct (len <=? _); simpl; auto. rewrite wlog_snoc; simpl. now rewrite <- app_assoc.
    + reflexivity.
    + destruct (nw <? iw s); reflexivity.
    + reflexivity.
    + reflexivity.
    + destruct (k <? w1); simpl; auto. unfold store. destruct (inb N (base + k)); reflexivity.
    + destruct (k <? len - w1); simpl; auto. unfold store. destruct (inb N k); reflexivity.
    + reflexivity.
    + destruct (k <? len); simpl; auto. unfold store. destruct (inb N (base + k)); reflexivity.
    + destruct (0 <? len); simpl; rewrite wlog_snoc; simpl; now rewrite <- app_assoc.
  - assert (X : forall s', wp s' = wp s -> wscr s' = wscr s -> wlog (out s') = wlog (out s) ->
                 wlog (out s') ++ inflight (wp s') ++ map wmsg (wscr s') =
                 wlog (out s) ++ inflight (wp s) ++ map wmsg (wscr s)).
    { intros s' -> -> ->. reflexivity. }
    assert (Y : forall o, wlog [o] = [] -> wlog (out s ++ [o]) = wlog (out s)).
    { intros o H. now rewrite wlog_snoc, H, app_nil_r. }
    unfold rstep, rfetch, rfinish, loadchk.
    destruct (rp s); simpl.
    + destruct (rscr s) as [|[la|la] tl]; reflexivity.
    + reflexivity.
    + destruct (try && _); simpl; rewrite Y by reflexivity; reflexivity.
    + reflexivity.
    + reflexivity.
    + reflexivity.
    + reflexivity.
    + destruct (_ <? _); reflexivity.
    + destruct (k <? r1); [destruct (_ && _)|]; reflexivity.
    + destruct (k <? len - r1); [destruct (_ && _)|destruct la]; reflexivity.
    + destruct (k <? len); [destruct (_ && _)|destruct la]; reflexivity.
    + rewrite Y by reflexivity; reflexivity.
    + reflexivity.
    + rewrite Y by reflexivity; reflexivity.
Qed.

Lemma written_run : forall N MM frame sched s, written (run N MM frame s sched) = written s.
Proof. induction sched; simpl; intros; auto. rewrite IHsched. apply written_step. Qed.

Lemma written_all : forall N MM frame ws rs sched,
  written (run N MM frame (init N ws rs) sched) = map wmsg ws.
Proof. intros. rewrite written_run. reflexivity. Qed.

(* ======================================================================== *)
(* Statements over all scripts and all schedules                              *)
Definition frame_ok (frame : list byte -> Z) (wf : msg -> Prop) : Prop :=
  forall m rest, wf m -> frame (m ++ rest) = zlen m.
Definition script_ok (wf : msg -> Prop) (ws : list wop) : Prop :=
  Forall (fun o => okmsg wf (wmsg o)) ws.

(* frame_ok = the hypothesis of Section Proofs with every message self-delimiting *)
Lemma frame_ok_sd : forall frame wf, frame_ok frame wf ->
  forall m rest, wf m -> (fun _ : msg => True) m \/ rest = [] -> frame (m ++ rest) = zlen m.
Proof. intros frame wf FR m rest W _. now apply FR. Qed.

Lemma inv2_trivial : forall s, Inv2 (fun _ => True) s.
Proof. intros s. unfold Inv2. apply Forall_forall. auto. Qed.

Lemma inv_step_ok : forall N MM frame wf, 0 < N -> frame_ok frame wf ->
  forall s t, Inv N MM wf s -> Inv N MM wf (step N MM frame s t).
Proof.
  intros N MM frame wf NP FR s t I.
  apply (inv_step N MM frame wf NP (fun _ => True) (frame_ok_sd frame wf FR) s t I (inv2_trivial s)).
Qed.

Lemma inv_reach_ok : forall N MM frame wf, 0 < N -> frame_ok frame wf ->
  forall ws rs sched, Forall (fun o => okmsg wf (wmsg o)) ws ->
  Inv N MM wf (run N MM frame (init N ws rs) sched).
Proof.
  intros N MM frame wf NP FR ws rs sched F.
  apply (inv_reach N MM frame wf NP (fun _ => True) (frame_ok_sd frame wf FR) ws rs sched F).
  apply Forall_forall. auto.
Qed.
Definition reach (N MM : Z) (frame : list byte -> Z) (ws : list wop) (rs : list rop) (sched : list tid) : state :=
  run N MM frame (init N ws rs) sched.

Lemma app_self_nil : forall (l : list obs) x, l = l ++ [x] -> False.
Proof. intros l x H. apply (f_equal (@length obs)) in H. rewrite app_length in H. simpl in H. lia. Qed.

(* a message is dropped only for one of the two reasons the property names:
   it is longer than MaxMsg, or it does not fit into the free space at the
   moment the writer loads read *)
Lemma drop_reason : forall N MM wf, 0 < N -> forall s m, Inv N MM wf s ->
  out (wstep N MM s) = out s ++ [ODrop m] ->
  MM < zlen m \/ N - 1 - (Wv s - Rv s) < zlen m.
Proof.
  intros N MM wf NP s m I H.
  pose proof (i_wv _ _ _ _ I) as WV. pose proof (inv_R_le_W N MM wf s I) as RW.
  pose proof (i_occ _ _ _ _ I) as OCC.
  unfold RingInv.wview in WV. unfold wstep, wfetch in H.
  destruct (wp s) eqn:EW.
  - destruct (wscr s) as [|[m'|m'] tl]; simpl in H; try (apply app_self_nil in H; tauto).
    destruct (zlen m' <=? MM) eqn:EM; simpl in H; try (apply app_self_nil in H; tauto).
    apply app_inv_head in H. inversion H; subst. left. lia.
  - simpl in H. apply app_self_nil in H; tauto.
  - destruct WV as [WL ->]. rewrite (i_w _ _ _ _ I), (i_r _ _ _ _ I) in H.
    rewrite free_eq in H by lia.
    destruct (len <=? N - 1 - (Wv s - Rv s)) eqn:EF; simpl in H; [apply app_self_nil in H; tauto|].
    apply app_inv_head in H. inversion H; subst.
    destruct WL as [_ [[-> _]|[-> _]]]; [lia|right; lia].
  - simpl in H. apply app_self_nil in H; tauto.
  - destruct (nw <? iw s); simpl in H; apply app_self_nil in H; tauto.
  - simpl in H. apply app_self_nil in H; tauto.
  - simpl in H. apply app_self_nil in H; tauto.
  - destruct (k <? w1); simpl in H; [unfold store in H; destruct (inb N (base + k)); simpl in H|];
      apply app_self_nil in H; tauto.
  - destruct (k <? len - w1); simpl in H; [unfold store in H; destruct (inb N k); simpl in H|];
      apply app_self_nil in H; tauto.
  - simpl in H. apply app_self_nil in H; tauto.
  - destruct (k <? len); simpl in H; [unfold store in H; destruct (inb N (base + k)); simpl in H|];
      apply app_self_nil in H; tauto.
  - destruct WV as ((WL & _) & _). destruct (0 <? len) eqn:EL; simpl in H; apply app_inv_head in H; inversion H; subst.
    destruct WL as [[_ P] [[_ ?]|[-> _]]]; [left; auto|lia].
Qed.

(* hasNext without a writer step in between is exact: it answers false exactly
   when everything accepted so far has been consumed (looked at, for the
   lookahead flavour) *)
Lemma hasnext_exact : forall N MM frame wf, 0 < N -> frame_ok frame wf ->
  forall s la try, Inv N MM wf s -> rp s = RHasW la try ->
  let s2 := rstep N MM frame (rstep N MM frame s) in
  out s2 = out s ++ [OHas la (j0 s la <? length (acc s))%nat (length (acc s)) (cons s) (peek s)].
Proof.
  intros N MM frame wf NP FR s la try I ER s2.
  assert (I1 : Inv N MM wf (rstep N MM frame s)) by (apply (inv_step_ok N MM frame wf NP FR s Rd I)).
  assert (I2 : Inv N MM wf s2) by (apply (inv_step_ok N MM frame wf NP FR _ Rd I1)).
  pose proof (hasnext_lin N MM wf s2 I2) as H.
  assert (E1 : rstep N MM frame s = set_rp (g_snap s) (RHasR la try (iw s)))
    by (unfold rstep; rewrite ER; reflexivity).
  subst s2. rewrite E1 in *.
  set (s1 := set_rp (g_snap s) (RHasR la try (iw s))) in *.
  assert (E2 : exists b, out (rstep N MM frame s1) = out s ++ [OHas la b (length (acc s)) (cons s) (peek s)]).
  { unfold rstep. cbn [rp s1 set_rp].
    match goal with |- context [push _ (OHas _ ?b _ _ _)] => exists b end.
    destruct (try && _); reflexivity. }
  destruct E2 as [b E2]. rewrite E2 in *.
  apply Forall_app in H as [_ H]. inversion H as [|? ? HO _]; subst. simpl in HO.
  rewrite HO. unfold j0. destruct la; rewrite ?Nat.add_0_r; reflexivity.
Qed.

(* ---- wait-freedom: every operation ends after a bounded number of its own
   steps, whatever the other thread does ------------------------------------ *)
Definition wrank (p : wpc) : Z :=
  match p with
  | WIdle => 0
  | WPublish _ _ _ => 1
  | WCopyC _ len _ _ k => 2 + (len - k)
  | WBaseC _ len _ => 3 + len
  | WCopy2 _ len _ w1 k => 2 + (len - w1 - k)
  | WCopy1 _ len _ _ _ k => 3 + (len - k)
  | WBase1 _ len _ _ => 4 + len
  | WW1 _ len _ => 5 + len
  | WCmpW _ len _ => 6 + len
  | WNextW _ len => 7 + len
  | WSizeR _ len _ => 8 + len
  | WSizeW _ len => 9 + len
  end.
Definition rrank (N : Z) (p : rpc) : Z :=
  match p with
  | RIdle => 0
  | RStoreRL _ _ => 1
  | RStoreR _ _ => 2
  | RStoreLA _ _ => 1
  | RCopyC _ _ len _ k _ => 3 + (len - k)
  | RCopy2 _ len _ r1 k _ => 3 + (len - r1 - k)
  | RCopy1 _ _ len _ r1 k _ => 4 + Z.max 0 (len - r1) + (r1 - k)
  | RReadR _ len => 5 + len + N
  | RFrame _ _ _ => 6 + 2 * N
  | RVecB _ _ => 7 + 2 * N
  | RVecR _ _ => 8 + 2 * N
  | RVecW _ => 9 + 2 * N
  | RHasR _ _ _ => 10 + 2 * N
  | RHasW _ _ => 11 + 2 * N
  end.

Lemma wrank_dec : forall N MM wf, 0 < N -> forall s, Inv N MM wf s -> wp s <> WIdle ->
  0 <= wrank (wp (wstep N MM s)) < wrank (wp s).
Proof.
  intros N MM wf NP s I NI. pose proof (i_wv _ _ _ _ I) as WV.
  pose proof (inv_iw_range N MM wf NP s I) as WR.
  unfold RingInv.wview in WV. unfold wstep.
  destruct (wp s) eqn:EW; try congruence; cbn [wp set_wp wrank].
  - destruct WV as [_ [[-> _]|[-> _]]]; pose proof (zlen_nonneg m); lia.
  - destruct WV as [[_ [[-> _]|[-> _]]] _]; pose proof (zlen_nonneg m);
      destruct (_ <=? _); cbn [wp set_wp push wrank]; lia.
  - destruct WV as [_ [F _]]. lia.
  - destruct WV as (_ & [F _] & _). destruct (nw <? iw s); cbn [wp set_wp wrank]; lia.
  - destruct WV as ((_ & [F _] & _) & _). lia.
  - destruct WV as ((_ & [F _] & _) & _). lia.
  - destruct WV as (C & Lt & -> & -> & Hk & _).
    destruct (wcore_discont N MM wf NP s m len nw I C Lt) as (D1 & D2 & D3).
    destruct (k <? N - iw s); cbn [wp set_wp wrank]; unfold store;
      try destruct (inb N (iw s + k)); cbn [wp set_wp set_buf set_err wrank]; lia.
  - destruct WV as (C & Lt & -> & Hk & _).
    destruct (k <? len - (N - iw s)); cbn [wp set_wp wrank]; unfold store;
      try destruct (inb N k); cbn [wp set_wp set_buf set_err wrank]; lia.
  - destruct WV as ((_ & [F _] & _) & _). lia.
  - destruct WV as (C & Le & -> & Hk & _).
    destruct (k <? len); cbn [wp set_wp wrank]; unfold store;
      try destruct (inb N (iw s + k)); cbn [wp set_wp set_buf set_err wrank]; lia.
  - destruct (0 <? len); cbn [wp set_wp set_iw push g_acc wrank]; lia.
Qed.

Lemma rrank_dec : forall N MM frame wf, 0 < N -> frame_ok frame wf -> forall s, Inv N MM wf s -> rp s <> RIdle ->
  0 <= rrank N (rp (rstep N MM frame s)) < rrank N (rp s).
Proof.
  intros N MM frame wf NP FR s I NI.
  pose proof (inv_step_ok N MM frame wf NP FR s Rd I) as I'. simpl in I'.
  pose proof (i_rv _ _ _ _ I) as RV. pose proof (i_rv _ _ _ _ I') as RV'.
  unfold RingInv.rview in RV, RV'. revert RV'. unfold rstep, rfinish.
  destruct (rp s) eqn:ER; try congruence; cbn [rp set_rp g_snap rrank].
  - intros _. lia.
  - destruct (try && _); cbn [rp set_rp push rrank]; intros _; lia.
  - intros _. lia.
  - intros _. lia.
  - intros _. lia.
  - cbn [rp set_rp]. intros (NE & ->).
    destruct (msg_in_queue N MM wf s la I NE) as (_ & M2 & _).
    pose proof (zlen_nonneg (mj s (j0 s la))).
    change (j0 (set_rp s _) la) with (j0 s la). change (mj (set_rp s _)) with (mj s). lia.
  - destruct RV as (NE & -> ). pose proof (zlen_nonneg (mj s (j0 s la))).
    assert (0 <= base_of s la < N).
    { apply (base_range N MM wf NP s la I). now rewrite ER. }
    destruct (_ <? _); cbn [rp set_rp rrank]; intros _; lia.
  - destruct RV as ((NE & -> & _) & _ & _ & -> & Hk).
    destruct (k <? N - rv); cbn [rp set_rp rrank]; intros RV'.
    + lia.
    + destruct RV' as (_ & _ & _ & H). lia.
  - destruct RV as ((NE & -> & _) & _ & -> & Hk).
    destruct (_ <? _); [|destruct la]; cbn [rp set_rp rrank]; intros _; lia.
  - destruct RV as ((NE & -> & _) & _ & _ & Hk).
    destruct (_ <? _); [|destruct la]; cbn [rp set_rp rrank]; intros _; lia.
  - cbn [rp set_rp set_irl g_cp push rrank]. intros _. lia.
  - cbn [rp set_rp set_ir g_cp rrank]. intros _. lia.
  - cbn [rp set_rp set_irl push rrank]. intros _. lia.
Qed.

Section Top.
Variable N MM : Z.
Variable frame : list byte -> Z.
Variable wf : msg -> Prop.
Hypothesis N_pos : 0 < N.
Hypothesis FR : frame_ok frame wf.
Variable ws : list wop.
Variable rs : list rop.
Variable sched : list tid.
Hypothesis WS : script_ok wf ws.

Let s := reach N MM frame ws rs sched.

Lemma reach_inv : Inv N MM wf s.
Proof. apply inv_reach_ok; auto. Qed.

Lemma top_inv_step : forall s0 t, Inv N MM wf s0 -> Inv N MM wf (step N MM frame s0 t).
Proof. intros; apply inv_step_ok; auto. Qed.

Lemma top_fifo : nreads (out s) = firstn (length (nreads (out s))) (accs_of (out s)).
Proof. apply (fifo N MM wf), reach_inv. Qed.

Lemma top_accepted_written : wlog (out s) ++ inflight (wp s) ++ map wmsg (wscr s) = map wmsg ws.
Proof. apply written_all. Qed.

Lemma top_lookahead : reads_ok (accs_of (out s)) (out s) O O.
Proof. apply (lookahead N MM wf), reach_inv. Qed.

Lemma top_hasnext_lin : Forall has_ok (out s) /\
  (forall la, reading (rp s) = Some la -> (j0 s la < length (acc s))%nat).
Proof.
  split; [apply (hasnext_lin N MM wf), reach_inv|].
  intros la H. apply (hasnext_stable N MM wf s la reach_inv H).
Qed.

Lemma top_drop_whole :
  (wp_len (wp s) = Some 0 -> shared_eq s (wstep N MM s)) /\
  (forall m len wv, wp s = WSizeR m len wv ->
     (len <= N - 1 - (Wv s - Rv s) -> wp (wstep N MM s) = WNextW m len) /\
     (N - 1 - (Wv s - Rv s) < len ->
        shared_eq s (wstep N MM s) /\ wp (wstep N MM s) = WIdle /\ out (wstep N MM s) = out s ++ [ODrop m])) /\
  Forall (fun m => zlen m <= MM) (acc s).
Proof.
  pose proof reach_inv as I. split; [|split].
  - intros H. apply (drop_maxmsg N MM wf N_pos s I H).
  - intros m len wv H. apply (write_decision N MM wf N_pos s m len wv I H).
  - pose proof (i_acc _ _ _ _ I) as F. rewrite Forall_forall in *. intros x Hx.
    destruct (F x Hx) as (_ & _ & ?). auto.
Qed.

Lemma top_drf : forall i, wfoot s = Some i -> rfoot N s i = false.
Proof. intros i. apply (drf N MM wf N_pos s i reach_inv). Qed.

Lemma top_drop_reason : forall m, out (wstep N MM s) = out s ++ [ODrop m] ->
  MM < zlen m \/ N - 1 - (Wv s - Rv s) < zlen m.
Proof. intros m. apply (drop_reason N MM wf N_pos s m reach_inv). Qed.

Lemma top_hasnext_exact : forall la try, rp s = RHasW la try ->
  out (rstep N MM frame (rstep N MM frame s)) =
  out s ++ [OHas la (j0 s la <? length (acc s))%nat (length (acc s)) (cons s) (peek s)].
Proof. intros la try. apply (hasnext_exact N MM frame wf N_pos FR s la try reach_inv). Qed.

Lemma top_wait_free :
  (wp s <> WIdle -> 0 <= wrank (wp (wstep N MM s)) < wrank (wp s)) /\
  (rp s <> RIdle -> 0 <= rrank N (rp (rstep N MM frame s)) < rrank N (rp s)).
Proof.
  split.
  - apply (wrank_dec N MM wf N_pos s reach_inv).
  - apply (rrank_dec N MM frame wf N_pos FR s reach_inv).
Qed.

Lemma top_safe : err s = false.
Proof. apply (safe N MM wf), reach_inv. Qed.
End Top.
