(* C06 - non-vacuity of the OSC instantiation: a script of real (non-bundle) OSC
   messages satisfies [script_ok osc_wf], and the model run with the OSC framing
   function returns them in order, the third one wrapped around the buffer end. *)
From Coq Require Import List ZArith Bool Lia.
From RtoscV Require Import Osc.OscModel Osc.OscBase Osc.OscReadProofs Osc.OscLenProofs.
From RtoscV Require Import Ring.RingModel Ring.RingInv Ring.RingProofs Ring.RingOsc.
Import ListNotations.
Local Open Scope Z_scope.

(* "/ab" ",is" 7 "xyz" (16 bytes) and "/c" "," (8 bytes), as the encoder's Spec builds them *)
Definition oscA : RingModel.msg := enc_spec [47; 97; 98] [105; 115] [P4 7; PStr [120; 121; 122]].
Definition oscB : RingModel.msg := enc_spec [47; 99] [] [].

Lemma oscA_bytes : oscA = [47;97;98;0; 44;105;115;0; 0;0;0;7; 120;121;122;0].
Proof. vm_compute. reflexivity. Qed.
Lemma oscB_bytes : oscB = [47;99;0;0; 44;0;0;0].
Proof. vm_compute. reflexivity. Qed.

Lemma oscA_wf : osc_wf oscA.
Proof.
  exists [47; 97; 98], [105; 115], [P4 7; PStr [120; 121; 122]].
  split; [reflexivity|]. split; [constructor|split].
  - discriminate.
  - repeat constructor; discriminate.
  - repeat constructor; discriminate.
  - reflexivity.
  - repeat constructor; cbn; try lia; repeat constructor; discriminate.
  - unfold not_bundle_addr. cbn. discriminate.
  - vm_compute. reflexivity.
Qed.

Lemma oscB_wf : osc_wf oscB.
Proof.
  exists [47; 99], [], [].
  split; [reflexivity|]. split; [constructor|split].
  - discriminate.
  - repeat constructor; discriminate.
  - constructor.
  - reflexivity.
  - constructor.
  - unfold not_bundle_addr. cbn. discriminate.
  - vm_compute. reflexivity.
Qed.

Definition osc_ws : list wop := [WRaw oscA; WArr oscB; WRaw oscA].
Definition osc_rs : list rop := RTry true :: repeat (RTry false) 6.
Definition osc_sched : list tid := repeat Wr 40 ++ repeat Rd 60 ++ repeat Wr 30 ++ repeat Rd 150.

Lemma osc_script_ok : script_ok osc_wf osc_ws.
Proof.
  repeat constructor; try apply oscA_wf; try apply oscB_wf; vm_compute; reflexivity.
Qed.

(* ring of 32 bytes, MaxMsg 16: all three messages come out, in order; the third
   was written across the end of the buffer (write index 24 -> 8) *)
Definition osc_state : state := reach 32 16 osc_frame osc_ws osc_rs osc_sched.

Example osc_run : nreads (out osc_state) = [oscA; oscB; oscA] /\ err osc_state = false /\
  iw osc_state = 8 /\ ir osc_state = 8.
Proof. vm_compute. repeat split; reflexivity. Qed.

Theorem fifo_osc_nonvacuous :
  script_ok osc_wf osc_ws /\ osc_ws <> [] /\
  nreads (out (reach 32 16 osc_frame osc_ws osc_rs osc_sched)) = [oscA; oscB; oscA] /\
  accs_of (out (reach 32 16 osc_frame osc_ws osc_rs osc_sched)) = [oscA; oscB; oscA].
Proof.
  split; [exact osc_script_ok|]. split; [discriminate|]. vm_compute. split; reflexivity.
Qed.
