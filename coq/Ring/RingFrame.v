(* C06 - the concrete framing function of the executable model: a port of
   rtosc_message_ring_length / bundle_ring_length / deref (src/rtosc.c:545-652)
   over the concatenation of the two ring segments.  deref returns 0 beyond
   the view.  Positions are unbounded Z (the code's `unsigned pos` does not
   wrap for views shorter than 2^32, and a ring is far smaller).

   The theorems of RingProofs.v do not depend on this function: there
   [frame] is abstract with the single hypothesis
   [frame (m ++ rest) = length m] for well-formed m.  No proofs here. *)
From Coq Require Import List ZArith Bool.
Import ListNotations.
Local Open Scope Z_scope.

(* (the bound is tested on Z first so that a huge position is never turned
   into a unary number) *)
Definition deref (v : list Z) (pos : Z) : Z :=
  if (pos <? 0) || (Z.of_nat (length v) <=? pos) then 0 else nth (Z.to_nat pos) v 0.

(* number of leading non-zero bytes *)
Fixpoint nz_run (l : list Z) : Z :=
  match l with
  | [] => 0
  | c :: t => if c =? 0 then 0 else 1 + nz_run t
  end.

(* smallest p >= from with deref v p = 0 *)
Definition first_zero (v : list Z) (from : Z) : Z :=
  if Z.of_nat (length v) <=? from then from else from + nz_run (skipn (Z.to_nat from) v).

Definition be32 (v : list Z) (pos : Z) : Z :=
  deref v pos * 16777216 + deref v (pos + 1) * 65536 + deref v (pos + 2) * 256 + deref v (pos + 3).

Definition has_reserved (c : Z) : bool :=
  (c =? 105) || (c =? 115) || (c =? 98) || (c =? 102) || (c =? 104) || (c =? 116) ||
  (c =? 100) || (c =? 83) || (c =? 114) || (c =? 109) || (c =? 99).

Definition is_bundle (v : list Z) : bool :=
  (deref v 0 =? 35) && (deref v 1 =? 98) && (deref v 2 =? 117) && (deref v 3 =? 110) &&
  (deref v 4 =? 100) && (deref v 5 =? 108) && (deref v 6 =? 101) && (deref v 7 =? 0).

(* do { advance = be32(pos); if(advance) pos += 4+advance; } while(advance); *)
Fixpoint bundle_walk (fuel : nat) (v : list Z) (pos : Z) : option Z :=
  match fuel with
  | O => None
  | S f => let adv := be32 v pos in
           if adv =? 0 then Some pos else bundle_walk f v (pos + 4 + adv)
  end.

Definition bundle_length (v : list Z) : Z :=
  match bundle_walk (S (length v)) v 16 with
  | Some pos => if pos <=? Z.of_nat (length v) then pos else 0
  | None => 0
  end.

Definition align_from (pos aligned : Z) : Z := pos + (4 - (pos - aligned) mod 4).

(* the varargs loop, over the tag characters after ',' *)
Fixpoint skip_args (tags : list Z) (v : list Z) (aligned pos : Z) : Z :=
  match tags with
  | [] => pos
  | c :: t =>
      if (c =? 104) || (c =? 116) || (c =? 100) then skip_args t v aligned (pos + 8)
      else if (c =? 109) || (c =? 114) || (c =? 99) || (c =? 102) || (c =? 105)
      then skip_args t v aligned (pos + 4)
      else if (c =? 83) || (c =? 115)
      then skip_args t v aligned (align_from (first_zero v (pos + 1)) aligned)
      else if c =? 98 then
        let p := pos + 4 + be32 v pos in
        skip_args t v aligned (if (p - aligned) mod 4 =? 0 then p else align_from p aligned)
      else skip_args t v aligned pos
  end.

(* the tag characters from position [from] up to the first zero *)
Definition tags_at (v : list Z) (from : Z) : list Z :=
  if Z.of_nat (length v) <=? from then []
  else firstn (Z.to_nat (first_zero v from - from)) (skipn (Z.to_nat from) v).

Definition ring_length (v : list Z) : Z :=
  if is_bundle v then bundle_length v
  else
    let p0 := first_zero v 0 in
    (* for(i<4) if(deref(++pos)) break; *)
    let p1 := if negb (deref v (p0 + 1) =? 0) then p0 + 1
              else if negb (deref v (p0 + 2) =? 0) then p0 + 2
              else if negb (deref v (p0 + 3) =? 0) then p0 + 3
              else p0 + 4 in
    if negb (deref v p1 =? 44) then 0
    else
      let aligned := p1 in
      let tags := tags_at v (p1 + 1) in
      let p2 := align_from (first_zero v (p1 + 1)) aligned in
      let pos := skip_args tags v aligned p2 in
      if pos <=? Z.of_nat (length v) then pos else 0.
