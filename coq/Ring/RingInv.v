(* C06 - helper lemmas (lists, modular arithmetic, message positions, the
   two-segment view), the index-range invariant Inv0 and the definition of
   the main invariant Inv.  The preservation proof is in RingProofs.v. *)
From Coq Require Import List ZArith Bool Lia.
From RtoscV Require Import Ring.RingModel.
Import ListNotations.
Local Open Scope Z_scope.

Lemma upd_nat_length : forall l n v, length (upd_nat l n v) = length l.
Proof. induction l; destruct n; simpl; auto. Qed.

Lemma upd_length : forall l i v, length (upd l i v) = length l.
Proof. intros; apply upd_nat_length. Qed.

Lemma upd_nat_same : forall l n v d, (n < length l)%nat -> nth n (upd_nat l n v) d = v.
Proof. induction l; destruct n; simpl; intros; try lia; auto. apply IHl; lia. Qed.

Lemma upd_nat_other : forall l n k v d, n <> k -> nth k (upd_nat l n v) d = nth k l d.
Proof.
  induction l; destruct n; destruct k; simpl; intros; try congruence; auto.
Qed.

Lemma zn_upd_same : forall l i v, 0 <= i < zlen l -> zn (upd l i v) i = v.
Proof. unfold zn, upd, zlen; intros. apply upd_nat_same. lia. Qed.

Lemma zn_upd_other : forall l i j v, 0 <= i -> 0 <= j -> i <> j -> zn (upd l i v) j = zn l j.
Proof. unfold zn, upd; intros. apply upd_nat_other. lia. Qed.

Lemma zlen_upd : forall l i v, zlen (upd l i v) = zlen l.
Proof. unfold zlen; intros; now rewrite upd_length. Qed.

Lemma zlen_app : forall a b, zlen (a ++ b) = zlen a + zlen b.
Proof. unfold zlen; intros; rewrite app_length; lia. Qed.

Lemma zlen_nonneg : forall l, 0 <= zlen l.
Proof. unfold zlen; lia. Qed.

(* ---- modular arithmetic of the virtual counters ---- *)
Section Arith.
Variable N : Z.
Hypothesis N_pos : 0 < N.

Lemma mod_add_l : forall a k, (a mod N + k) mod N = (a + k) mod N.
Proof. intros. now rewrite Zplus_mod_idemp_l. Qed.

(* (b) no wrap *)
Lemma mod_nowrap : forall a k, 0 <= k -> a mod N + k < N -> (a + k) mod N = a mod N + k.
Proof.
  intros. rewrite <- mod_add_l. apply Z.mod_small.
  pose proof (Z.mod_pos_bound a N N_pos). lia.
Qed.

(* (c) wrap *)
Lemma mod_wrap : forall a k, 0 <= k -> N <= a mod N + k < 2 * N -> (a + k) mod N = a mod N + k - N.
Proof.
  intros. rewrite <- mod_add_l. symmetry.
  apply Z.mod_unique with (q := 1); lia.
Qed.

(* (d) difference of two residues *)
Lemma mod_diff : forall a b, 0 <= a - b < N -> (a mod N - b mod N + N) mod N = a - b.
Proof.
  intros. symmetry.
  apply Z.mod_unique with (q := 1 - a / N + b / N); [lia|].
  pose proof (Z.div_mod a N). pose proof (Z.div_mod b N). lia.
Qed.

Lemma mod_eq_close : forall a b, 0 <= a - b < N -> a mod N = b mod N -> a = b.
Proof.
  intros. pose proof (mod_diff a b H). rewrite H0 in H1.
  replace (b mod N - b mod N + N) with (0 + 1 * N) in H1 by lia.
  rewrite Z_mod_plus_full, Z.mod_0_l in H1; lia.
Qed.

Lemma mod_neq_window : forall a b, 0 < a - b < N -> a mod N <> b mod N.
Proof. intros a b H E. apply mod_eq_close in E; lia. Qed.

(* free space as the writer computes it *)
Lemma free_eq : forall W R, 0 <= W - R <= N - 1 ->
  (if R mod N =? W mod N then N - 1 else (R mod N - W mod N + N) mod N - 1) = N - 1 - (W - R).
Proof.
  intros. destruct (R mod N =? W mod N) eqn:E.
  - apply Z.eqb_eq in E. symmetry in E. apply mod_eq_close in E; lia.
  - apply Z.eqb_neq in E.
    assert (W <> R) by (intro; subst; congruence).
    assert (X : N - (W - R) = (R mod N - W mod N + N) mod N).
    { apply Z.mod_unique with (q := W / N - R / N); [lia|].
      pose proof (Z.div_mod W N). pose proof (Z.div_mod R N). lia. }
    lia.
Qed.
End Arith.

(* ---- positions of message boundaries in the accepted stream ---- *)
Definition pos (l : list msg) (j : nat) : Z := zlen (concat (firstn j l)).

Lemma pos_0 : forall l, pos l 0 = 0.
Proof. reflexivity. Qed.

Lemma pos_S : forall l j, (j < length l)%nat -> pos l (S j) = pos l j + zlen (nth j l []).
Proof.
  unfold pos. induction l; intros j H; simpl in H; [lia|].
  destruct j; simpl.
  - rewrite app_nil_r. unfold zlen; simpl; lia.
  - rewrite !zlen_app. specialize (IHl j ltac:(lia)). simpl in IHl. lia.
Qed.

Lemma pos_mono1 : forall l j, pos l j <= pos l (S j).
Proof.
  intros. destruct (Nat.lt_ge_cases j (length l)).
  - rewrite pos_S by auto. pose proof (zlen_nonneg (nth j l [])). lia.
  - unfold pos. rewrite !firstn_all2 by lia. lia.
Qed.

Lemma pos_mono : forall l j k, (j <= k)%nat -> pos l j <= pos l k.
Proof.
  intros l j k H. induction H; [lia|]. pose proof (pos_mono1 l m). lia.
Qed.

Lemma pos_nonneg : forall l j, 0 <= pos l j.
Proof. intros; apply zlen_nonneg. Qed.

Lemma pos_app : forall l m j, (j <= length l)%nat -> pos (l ++ [m]) j = pos l j.
Proof. unfold pos; intros. rewrite firstn_app. replace (j - length l)%nat with O by lia. simpl. now rewrite app_nil_r. Qed.

Lemma pos_app_last : forall l m, pos (l ++ [m]) (S (length l)) = pos l (length l) + zlen m.
Proof.
  intros. rewrite pos_S by (rewrite app_length; simpl; lia).
  rewrite pos_app by lia. rewrite app_nth2 by lia. rewrite Nat.sub_diag. reflexivity.
Qed.

Lemma nth_app_old : forall (l : list msg) m j, (j < length l)%nat -> nth j (l ++ [m]) [] = nth j l [].
Proof. intros; now rewrite app_nth1. Qed.

Lemma pos_strict1 : forall (l : list msg) j, Forall (fun m : msg => 0 < zlen m) l -> (j < length l)%nat -> pos l j < pos l (S j).
Proof.
  intros l j F H. rewrite pos_S by lia. rewrite Forall_forall in F.
  specialize (F (nth j l []) (nth_In _ _ H)). lia.
Qed.

Lemma pos_strict : forall (l : list msg) j k, Forall (fun m : msg => 0 < zlen m) l -> (j < k <= length l)%nat -> pos l j < pos l k.
Proof.
  intros l j k F [H1 H2].
  pose proof (pos_strict1 l j F ltac:(lia)). pose proof (pos_mono l (S j) k ltac:(lia)). lia.
Qed.

(* ---- Z-indexed prefixes ---- *)
Lemma firstn_zsnoc : forall (l : list byte) k, 0 <= k < zlen l ->
  firstn (Z.to_nat (k + 1)) l = firstn (Z.to_nat k) l ++ [zn l k].
Proof.
  intros l k H. unfold zn, zlen in *. replace (Z.to_nat (k + 1)) with (S (Z.to_nat k)) by lia.
  assert (Z.to_nat k < length l)%nat by lia. generalize dependent (Z.to_nat k). clear.
  induction l; intros n H; simpl in *; [lia|].
  destruct n; simpl; auto. f_equal. apply IHl; lia.
Qed.

Lemma firstn_zall : forall (l : list byte), firstn (Z.to_nat (zlen l)) l = l.
Proof. intros; unfold zlen; rewrite Nat2Z.id; apply firstn_all. Qed.

Lemma nth_firstn_lt : forall (l : list byte) n i d, (i < n)%nat -> nth i (firstn n l) d = nth i l d.
Proof. induction l; destruct n, i; simpl; intros; try lia; auto. apply IHl; lia. Qed.

Lemma nth_skipn_add : forall (l : list byte) n i d, nth i (skipn n l) d = nth (n + i) l d.
Proof. induction l; destruct n; simpl; intros; auto. destruct i; auto. Qed.

Lemma slice_len : forall b st cnt, 0 <= st -> 0 <= cnt -> st + cnt <= zlen b -> zlen (slice b st cnt) = cnt.
Proof.
  unfold slice, zlen; intros. rewrite firstn_length, skipn_length. lia.
Qed.

Lemma slice_zn : forall b st cnt i, 0 <= st -> 0 <= i < cnt -> zn (slice b st cnt) i = zn b (st + i).
Proof.
  unfold slice, zn; intros. rewrite nth_firstn_lt by lia. rewrite nth_skipn_add. f_equal. lia.
Qed.

Lemma zn_app1 : forall a b i, 0 <= i < zlen a -> zn (a ++ b) i = zn a i.
Proof. unfold zn, zlen; intros. apply app_nth1. lia. Qed.
Lemma zn_app2 : forall a b i, zlen a <= i -> zn (a ++ b) i = zn b (i - zlen a).
Proof. unfold zn, zlen; intros. rewrite app_nth2 by lia. f_equal. lia. Qed.

Lemma list_eq_zn : forall (a b : list byte), zlen a = zlen b -> (forall i, 0 <= i < zlen a -> zn a i = zn b i) -> a = b.
Proof.
  unfold zlen, zn; intros a b L H. apply nth_ext with (d := 0) (d' := 0); [lia|].
  intros n Hn. specialize (H (Z.of_nat n) ltac:(lia)). now rewrite Nat2Z.id in H.
Qed.

Section View.
Variable N : Z.
Hypothesis N_pos : 0 < N.

Lemma view_len : forall b rv sz, zlen b = N -> 0 <= rv < N -> 0 <= sz < N -> zlen (view N b rv sz) = sz.
Proof.
  intros. unfold view. destruct (N <? sz + rv) eqn:E.
  - apply Z.ltb_lt in E.
    assert (X : (sz + rv) mod N = sz + rv - N) by (symmetry; apply Z.mod_unique with (q := 1); lia).
    rewrite X, zlen_app, !slice_len; lia.
  - apply Z.ltb_ge in E. apply slice_len; lia.
Qed.

Lemma view_zn : forall b rv sz i, zlen b = N -> 0 <= rv < N -> 0 <= sz < N -> 0 <= i < sz ->
  zn (view N b rv sz) i = zn b ((rv + i) mod N).
Proof.
  intros. unfold view. destruct (N <? sz + rv) eqn:E.
  - apply Z.ltb_lt in E.
    assert (X : (sz + rv) mod N = sz + rv - N) by (symmetry; apply Z.mod_unique with (q := 1); lia).
    rewrite X. replace (sz - (sz + rv - N)) with (N - rv) by lia.
    destruct (Z.lt_ge_cases i (N - rv)).
    + rewrite zn_app1 by (rewrite slice_len; lia). rewrite slice_zn by lia.
      now rewrite Z.mod_small by lia.
    + rewrite zn_app2 by (rewrite slice_len; lia). rewrite slice_len by lia.
      rewrite slice_zn by lia. f_equal.
      apply Z.mod_unique with (q := 1); lia.
  - apply Z.ltb_ge in E. rewrite slice_zn by lia. now rewrite Z.mod_small by lia.
Qed.

(* the view starts with the bytes of m if the buffer holds m at rv *)
Lemma view_prefix : forall b rv sz (m : msg), zlen b = N -> 0 <= rv < N -> 0 <= sz < N -> zlen m <= sz ->
  (forall i, 0 <= i < zlen m -> zn b ((rv + i) mod N) = zn m i) ->
  exists rest, view N b rv sz = m ++ rest.
Proof.
  intros b rv sz m L Hr Hs Hm C.
  exists (skipn (length m) (view N b rv sz)).
  rewrite <- (firstn_skipn (length m) (view N b rv sz)) at 1. f_equal.
  pose proof (view_len b rv sz L Hr Hs) as VL.
  apply list_eq_zn.
  - unfold zlen in *. rewrite firstn_length. lia.
  - intros i Hi. assert (0 <= i < zlen m).
    { unfold zlen in *. rewrite firstn_length in Hi. lia. }
    unfold zn at 1. rewrite nth_firstn_lt by (unfold zlen in *; lia).
    fold (zn (view N b rv sz) i). rewrite view_zn by lia. auto.
Qed.
End View.

Section Range.

Variable N MM : Z.
Variable frame : list byte -> Z.
Hypothesis N_pos : 0 < N.

Definition in_ring (x : Z) := 0 <= x < N.

Definition wpc_ok (p : wpc) : Prop :=
  match p with
  | WCmpW _ _ nw | WW1 _ _ nw | WBase1 _ _ nw _ | WCopy1 _ _ nw _ _ _ | WCopy2 _ _ nw _ _
  | WBaseC _ _ nw | WCopyC _ _ nw _ _ | WPublish _ _ nw => in_ring nw
  | _ => True
  end.
Definition rpc_ok (p : rpc) : Prop :=
  match p with
  | RCopy1 _ _ _ nr _ _ _ | RCopy2 _ _ nr _ _ _ | RCopyC _ _ _ nr _ _
  | RStoreLA nr _ | RStoreR nr _ | RStoreRL nr _ => in_ring nr
  | _ => True
  end.

Record Inv0 (s : state) : Prop := {
  i0_len : zlen (buf s) = N;
  i0_w : in_ring (iw s);
  i0_r : in_ring (ir s);
  i0_rl : in_ring (irl s);
  i0_wp : wpc_ok (wp s);
  i0_rp : rpc_ok (rp s)
}.

Lemma store_len : forall s i v, zlen (buf (store N s i v)) = zlen (buf s).
Proof. intros; unfold store; destruct (inb N i); simpl; auto using zlen_upd. Qed.

Lemma mod_in_ring : forall x, in_ring (x mod N).
Proof. intros; unfold in_ring; apply Z.mod_pos_bound; lia. Qed.

Lemma inv0_init : forall ws rs, Inv0 (init N ws rs).
Proof.
  intros; constructor; simpl; unfold in_ring; try lia; auto.
  unfold zlen; rewrite repeat_length; lia.
Qed.

Lemma inv0_wstep : forall s, Inv0 s -> Inv0 (wstep N MM s).
Proof.
  intros s [L W R RL WP RP]. unfold wstep, wfetch.
  destruct (wp s) eqn:E; simpl in WP.
  - destruct (wscr s) as [|[m|m] tl]; [constructor; auto; rewrite E; auto| |].
    + destruct (zlen m <=? MM); constructor; simpl; auto; rewrite E; auto.
    + constructor; simpl; auto.
  - constructor; simpl; auto.
  - destruct (len <=? _); constructor; simpl; auto.
  - constructor; simpl; auto using mod_in_ring.
  - destruct (nw <? iw s); constructor; simpl; auto.
  - constructor; simpl; auto.
  - constructor; simpl; auto.
  - destruct (k <? w1); constructor; simpl; auto.
    all: unfold store; destruct (inb N (base + k)); simpl; auto. now rewrite zlen_upd.
  - destruct (k <? len - w1); constructor; simpl; auto.
    all: unfold store; destruct (inb N k); simpl; auto. now rewrite zlen_upd.
  - constructor; simpl; auto.
  - destruct (k <? len); constructor; simpl; auto.
    all: unfold store; destruct (inb N (base + k)); simpl; auto. now rewrite zlen_upd.
  - destruct (0 <? len); constructor; simpl; auto.
Qed.

Lemma inv0_rstep : forall s, Inv0 s -> Inv0 (rstep N MM frame s).
Proof.
  intros s [L W R RL WP RP]. unfold rstep, rfetch, rfinish.
  destruct (rp s) eqn:E; simpl in RP.
  - destruct (rscr s) as [|[la|la] tl]; constructor; simpl; auto; rewrite E; auto.
  - constructor; simpl; auto.
  - destruct (try && _); constructor; simpl; auto.
  - constructor; simpl; auto.
  - constructor; simpl; auto.
  - constructor; simpl; auto.
  - constructor; simpl; auto.
  - destruct (_ <? _); constructor; simpl; auto using mod_in_ring.
  - destruct (k <? r1); constructor; simpl; auto.
    all: unfold loadchk; destruct (inb N (rv + k) && (k <? MM)); simpl; auto.
  - destruct (k <? len - r1); [|destruct la]; constructor; simpl; auto.
    all: unfold loadchk; destruct (inb N k && (r1 + k <? MM)); simpl; auto.
  - destruct (k <? len); [|destruct la]; constructor; simpl; auto.
    all: unfold loadchk; destruct (inb N (rv + k) && (k <? MM)); simpl; auto.
  - constructor; simpl; auto.
  - constructor; simpl; auto.
  - constructor; simpl; auto.
Qed.

Lemma inv0_step : forall s t, Inv0 s -> Inv0 (step N MM frame s t).
Proof. intros s [|]; simpl; auto using inv0_wstep, inv0_rstep. Qed.

Lemma inv0_run : forall sched s, Inv0 s -> Inv0 (run N MM frame s sched).
Proof. induction sched; simpl; intros; auto. apply IHsched, inv0_step; auto. Qed.

End Range.

(* ======================================================================== *)
(* The main invariant.                                                       *)
(* Virtual (never wrapping) counters are derived from the ghost fields:      *)
(*   Wv = bytes of all accepted messages, Rv = bytes of the consumed ones,    *)
(*   RLv = bytes up to the lookahead position.                                *)
Section InvDef.
Variable N MM : Z.
Variable wf : msg -> Prop.

Definition okmsg (m : msg) : Prop := wf m /\ 0 < zlen m.
Definition accok (m : msg) : Prop := wf m /\ 0 < zlen m <= MM.
Definition wmsg (o : wop) : msg := match o with WRaw m | WArr m => m end.

Definition Wv (s : state) : Z := pos (acc s) (length (acc s)).
Definition Rv (s : state) : Z := pos (acc s) (cons s).
Definition RLv (s : state) : Z := pos (acc s) (cons s + peek s).
Definition mj (s : state) (j : nat) : msg := nth j (acc s) [].
(* index of the message the next (lookahead) read returns, and its position *)
Definition j0 (s : state) (la : bool) : nat := if la then (cons s + peek s)%nat else cons s.
Definition Bv (s : state) (la : bool) : Z := pos (acc s) (j0 s la).

(* the bytes of every unconsumed accepted message sit in the buffer *)
Definition content (s : state) : Prop :=
  forall j i, (cons s <= j < length (acc s))%nat -> 0 <= i < zlen (mj s j) ->
    zn (buf s) ((pos (acc s) j + i) mod N) = zn (mj s j) i.

Definition fits (s : state) (len : Z) : Prop := 0 <= len <= N - 1 - (Wv s - Rv s).
Definition copied (s : state) (m : msg) (c : Z) : Prop :=
  forall i, 0 <= i < c -> zn (buf s) ((Wv s + i) mod N) = zn m i.
(* len is what the encoder / rtosc_message_length reported for m: its length,
   or 0 when it is longer than MaxMsg *)
Definition wlen (m : msg) (len : Z) : Prop :=
  okmsg m /\ ((len = 0 /\ MM < zlen m) \/ (len = zlen m /\ len <= MM)).
Definition wcore (s : state) (m : msg) (len nw : Z) : Prop :=
  wlen m len /\ fits s len /\ nw = (Wv s + len) mod N.

Definition wview (s : state) : Prop :=
  match wp s with
  | WIdle => True
  | WSizeW m len => wlen m len
  | WSizeR m len wv => wlen m len /\ wv = iw s
  | WNextW m len => wlen m len /\ fits s len
  | WCmpW m len nw => wcore s m len nw
  | WW1 m len nw => wcore s m len nw /\ nw < iw s
  | WBase1 m len nw w1 => wcore s m len nw /\ nw < iw s /\ w1 = N - iw s
  | WCopy1 m len nw w1 base k =>
      wcore s m len nw /\ nw < iw s /\ w1 = N - iw s /\ base = iw s /\ 0 <= k <= w1 /\ copied s m k
  | WCopy2 m len nw w1 k =>
      wcore s m len nw /\ nw < iw s /\ w1 = N - iw s /\ 0 <= k <= len - w1 /\ copied s m (w1 + k)
  | WBaseC m len nw => wcore s m len nw /\ iw s <= nw
  | WCopyC m len nw base k =>
      wcore s m len nw /\ iw s <= nw /\ base = iw s /\ 0 <= k <= len /\ copied s m k
  | WPublish m len nw => wcore s m len nw /\ copied s m len
  end.

Definition nonempty (s : state) (la : bool) : Prop := (j0 s la < length (acc s))%nat.
Definition snapped (s : state) (la : bool) : Prop := (j0 s la < snap s <= length (acc s))%nat.
(* the part of a read that every copying program counter shares *)
Definition rcore (s : state) (la : bool) (len nr : Z) (a : list byte) (done : Z) : Prop :=
  nonempty s la /\ len = zlen (mj s (j0 s la)) /\ nr = (Bv s la + len) mod N /\
  a = firstn (Z.to_nat done) (mj s (j0 s la)).

Definition rview (s : state) : Prop :=
  match rp s with
  | RIdle => True
  | RHasW la try => True
  | RHasR la try wv =>
      (cons s + peek s <= snap s <= length (acc s))%nat /\ wv = pos (acc s) (snap s) mod N
  | RVecW la => nonempty s la
  | RVecR la wv => snapped s la /\ wv = pos (acc s) (snap s) mod N
  | RVecB la sz => snapped s la /\ sz = pos (acc s) (snap s) - Bv s la
  | RFrame la rv sz => snapped s la /\ sz = pos (acc s) (snap s) - Bv s la /\ rv = Bv s la mod N
  | RReadR la len => nonempty s la /\ len = zlen (mj s (j0 s la))
  | RCopy1 la rv len nr r1 k a =>
      rcore s la len nr a k /\ rv = Bv s la mod N /\ nr < rv /\ r1 = N - rv /\ 0 <= k <= r1
  | RCopy2 la len nr r1 k a =>
      rcore s la len nr a (r1 + k) /\ nr < Bv s la mod N /\ r1 = N - Bv s la mod N /\ 0 <= k <= len - r1
  | RCopyC la rv len nr k a =>
      rcore s la len nr a k /\ rv = Bv s la mod N /\ rv <= nr /\ 0 <= k <= len
  | RStoreLA nr a =>
      nonempty s true /\ nr = (RLv s + zlen (mj s (j0 s true))) mod N /\ a = mj s (j0 s true)
  | RStoreR nr a =>
      nonempty s false /\ nr = (Rv s + zlen (mj s (cons s))) mod N /\ a = mj s (cons s)
  | RStoreRL nr a =>
      (0 < cons s)%nat /\ peek s = O /\ nr = Rv s mod N /\ a = mj s (pred (cons s))
  end.

(* ---- the Spec machine the observations are replayed on ------------------- *)
(* counters (consumed, looked ahead) after a list of observations *)
Fixpoint final_cp (os : list obs) (c p : nat) : nat * nat :=
  match os with
  | [] => (c, p)
  | ORead false _ :: t => final_cp t (S c) O
  | ORead true _ :: t => final_cp t c (S p)
  | _ :: t => final_cp t c p
  end.
(* every normal read returns the next unconsumed accepted message and resets
   the lookahead; every lookahead read returns the message after the ones
   already looked at and consumes nothing *)
Fixpoint reads_ok (accl : list msg) (os : list obs) (c p : nat) : Prop :=
  match os with
  | [] => True
  | ORead false b :: t => nth_error accl c = Some b /\ reads_ok accl t (S c) O
  | ORead true b :: t => nth_error accl (c + p) = Some b /\ reads_ok accl t c (S p)
  | _ :: t => reads_ok accl t c p
  end.
(* hasNext answers the abstract emptiness test taken at its load of write *)
Definition has_ok (o : obs) : Prop :=
  match o with
  | OHas la b gn gc gp => b = (gc + (if la then gp else O) <? gn)%nat
  | _ => True
  end.
Fixpoint accs_of (os : list obs) : list msg :=
  match os with
  | [] => []
  | OAcc m :: t => m :: accs_of t
  | _ :: t => accs_of t
  end.

Definition is_rl (p : rpc) : bool := match p with RStoreRL _ _ => true | _ => false end.

(* pend = the reader has stored read but its normal read has not returned yet *)
Definition histP (accl : list msg) (outl : list obs) (pend : bool) (c p : nat) : Prop :=
  reads_ok accl outl O O /\
  Forall has_ok outl /\
  accs_of outl = accl /\
  if pend then exists p', final_cp outl O O = (pred c, p') else final_cp outl O O = (c, p).

Definition hist (s : state) : Prop := histP (acc s) (out s) (is_rl (rp s)) (cons s) (peek s).

Record Inv (s : state) : Prop := {
  i_len : zlen (buf s) = N;
  i_err : err s = false;
  i_w : iw s = Wv s mod N;
  i_r : ir s = Rv s mod N;
  i_rl : is_rl (rp s) = false -> irl s = RLv s mod N;
  i_occ : Wv s - Rv s <= N - 1;
  i_pk : (cons s + peek s <= length (acc s))%nat;
  i_acc : Forall accok (acc s);
  i_scr : Forall (fun o => okmsg (wmsg o)) (wscr s);
  i_content : content s;
  i_wv : wview s;
  i_rv : rview s;
  i_hist : hist s
}.
End InvDef.
