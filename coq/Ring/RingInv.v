(* C06 - basic facts about the ring model: list helpers, index ranges.
   (The main invariant is in RingProofs.v.) *)
From Coq Require Import List ZArith Bool Lia.
From RtoscV Require Import Ring.RingModel.
Import ListNotations.
Local Open Scope Z_scope.

Lemma upd_nat_length : forall l n v, length (upd_nat l n v) = length l.
Proof. induction l; destruct n; simpl; auto. Qed.

Lemma upd_length : forall l i v, length (upd l i v) = length l.
Proof. intros; apply upd_nat_length. Qed.

Lemma upd_nat_same : forall l n v d, (n < length l)%nat -> nth n (upd_nat l n v) d = v.
Proof. induction l; destruct n; simpl; intros; try lia; auto. apply IHl; lia. Qed.

Lemma upd_nat_other : forall l n k v d, n <> k -> nth k (upd_nat l n v) d = nth k l d.
Proof.
  induction l; destruct n; destruct k; simpl; intros; try congruence; auto.
Qed.

Lemma zn_upd_same : forall l i v, 0 <= i < zlen l -> zn (upd l i v) i = v.
Proof. unfold zn, upd, zlen; intros. apply upd_nat_same. lia. Qed.

Lemma zn_upd_other : forall l i j v, 0 <= i -> 0 <= j -> i <> j -> zn (upd l i v) j = zn l j.
Proof. unfold zn, upd; intros. apply upd_nat_other. lia. Qed.

Lemma zlen_upd : forall l i v, zlen (upd l i v) = zlen l.
Proof. unfold zlen; intros; now rewrite upd_length. Qed.

Lemma zlen_app : forall a b, zlen (a ++ b) = zlen a + zlen b.
Proof. unfold zlen; intros; rewrite app_length; lia. Qed.

Lemma zlen_nonneg : forall l, 0 <= zlen l.
Proof. unfold zlen; lia. Qed.

Section Range.
Variable N MM : Z.
Variable frame : list byte -> Z.
Hypothesis N_pos : 0 < N.

Definition in_ring (x : Z) := 0 <= x < N.

Definition wpc_ok (p : wpc) : Prop :=
  match p with
  | WCmpW _ _ nw | WW1 _ _ nw | WBase1 _ _ nw _ | WCopy1 _ _ nw _ _ _ | WCopy2 _ _ nw _ _
  | WBaseC _ _ nw | WCopyC _ _ nw _ _ | WPublish _ _ nw => in_ring nw
  | _ => True
  end.
Definition rpc_ok (p : rpc) : Prop :=
  match p with
  | RCopy1 _ _ _ nr _ _ _ | RCopy2 _ _ nr _ _ _ | RCopyC _ _ _ nr _ _
  | RStoreLA nr _ | RStoreR nr _ | RStoreRL nr _ => in_ring nr
  | _ => True
  end.

Record Inv0 (s : state) : Prop := {
  i0_len : zlen (buf s) = N;
  i0_w : in_ring (iw s);
  i0_r : in_ring (ir s);
  i0_rl : in_ring (irl s);
  i0_wp : wpc_ok (wp s);
  i0_rp : rpc_ok (rp s)
}.

Lemma store_len : forall s i v, zlen (buf (store N s i v)) = zlen (buf s).
Proof. intros; unfold store; destruct (inb N i); simpl; auto using zlen_upd. Qed.

Lemma mod_in_ring : forall x, in_ring (x mod N).
Proof. intros; unfold in_ring; apply Z.mod_pos_bound; lia. Qed.

Lemma inv0_init : forall ws rs, Inv0 (init N ws rs).
Proof.
  intros; constructor; simpl; unfold in_ring; try lia; auto.
  unfold zlen; rewrite repeat_length; lia.
Qed.

Lemma inv0_wstep : forall s, Inv0 s -> Inv0 (wstep N MM s).
Proof.
  intros s [L W R RL WP RP]. unfold wstep, wfetch.
  destruct (wp s) eqn:E; simpl in WP.
  - destruct (wscr s) as [|[m|m] tl]; [constructor; auto; rewrite E; auto| |].
    + destruct (zlen m <=? MM); constructor; simpl; auto; rewrite E; auto.
    + constructor; simpl; auto.
  - constructor; simpl; auto.
  - destruct (len <=? _); constructor; simpl; auto.
  - constructor; simpl; auto using mod_in_ring.
  - destruct (nw <? iw s); constructor; simpl; auto.
  - constructor; simpl; auto.
  - constructor; simpl; auto.
  - destruct (k <? w1); constructor; simpl; auto.
    all: unfold store; destruct (inb N (base + k)); simpl; auto. now rewrite zlen_upd.
  - destruct (k <? len - w1); constructor; simpl; auto.
    all: unfold store; destruct (inb N k); simpl; auto. now rewrite zlen_upd.
  - constructor; simpl; auto.
  - destruct (k <? len); constructor; simpl; auto.
    all: unfold store; destruct (inb N (base + k)); simpl; auto. now rewrite zlen_upd.
  - destruct (0 <? len); constructor; simpl; auto.
Qed.

Lemma inv0_rstep : forall s, Inv0 s -> Inv0 (rstep N MM frame s).
Proof.
  intros s [L W R RL WP RP]. unfold rstep, rfetch, rfinish.
  destruct (rp s) eqn:E; simpl in RP.
  - destruct (rscr s) as [|[la|la] tl]; constructor; simpl; auto; rewrite E; auto.
  - constructor; simpl; auto.
  - destruct (try && _); constructor; simpl; auto.
  - constructor; simpl; auto.
  - constructor; simpl; auto.
  - constructor; simpl; auto.
  - constructor; simpl; auto.
  - destruct (_ <? _); constructor; simpl; auto using mod_in_ring.
  - destruct (k <? r1); constructor; simpl; auto.
    all: unfold loadchk; destruct (inb N (rv + k) && (k <? MM)); simpl; auto.
  - destruct (k <? len - r1); [|destruct la]; constructor; simpl; auto.
    all: unfold loadchk; destruct (inb N k && (r1 + k <? MM)); simpl; auto.
  - destruct (k <? len); [|destruct la]; constructor; simpl; auto.
    all: unfold loadchk; destruct (inb N (rv + k) && (k <? MM)); simpl; auto.
  - constructor; simpl; auto.
  - constructor; simpl; auto.
  - constructor; simpl; auto.
Qed.

Lemma inv0_step : forall s t, Inv0 s -> Inv0 (step N MM frame s t).
Proof. intros s [|]; simpl; auto using inv0_wstep, inv0_rstep. Qed.

Lemma inv0_run : forall sched s, Inv0 s -> Inv0 (run N MM frame s sched).
Proof. induction sched; simpl; intros; auto. apply IHsched, inv0_step; auto. Qed.

End Range.
