(* C06 - non-vacuity: the hypotheses of the theorems are satisfiable, and
   concrete runs of the model (with a toy length-prefixed framing and with the
   real framing function) behave as the theorems say. *)
From Coq Require Import List ZArith Bool Lia.
From RtoscV Require Import Ring.RingModel Ring.RingFrame Ring.RingInv Ring.RingProofs.
Import ListNotations.
Local Open Scope Z_scope.

(* a framing that satisfies frame_hd outright: the first byte is the length *)
Definition toy_frame (v : list byte) : Z := hd 0 v.
Definition toy_wf (m : msg) : Prop := m <> [] /\ hd 0 m = zlen m.

Lemma toy_frame_ok : frame_ok toy_frame toy_wf.
Proof. intros m rest [NE H]. destruct m; [congruence|]. exact H. Qed.

Definition ex_ws : list wop := [WRaw [3; 1; 2]; WRaw [4; 5; 6; 7]; WArr [5; 0; 0; 0; 0]; WRaw [2; 9]].
Definition ex_rs : list rop :=
  [RHas false; RTry true; RTry true; RHas true; RTry false; RTry true; RTry false; RHas false; RTry false;
   RTry false; RHas false].

Lemma ex_script_ok : script_ok toy_wf ex_ws.
Proof.
  repeat constructor; simpl; try congruence; try reflexivity.
Qed.

(* writer and reader interleave access by access on a ring of 8 bytes, MaxMsg 4:
   the third write is longer than MaxMsg and is dropped, the fourth does not
   fit (7 of 7 usable bytes are taken) and is dropped, lookahead reads see the
   queue without consuming it *)
Fixpoint alternate (n : nat) : list tid :=
  match n with O => [] | S k => Wr :: Wr :: Wr :: Rd :: Rd :: alternate k end.

Definition ex_state : state := reach 8 4 toy_frame ex_ws ex_rs (alternate 60).

Example ex_out : out ex_state =
  [OHas false false 0 0 0; OHas true false 0 0 0; OAcc [3; 1; 2]; OHas true true 1 0 0; OAcc [4; 5; 6; 7];
   ORead true [3; 1; 2]; ODrop [5; 0; 0; 0; 0]; OHas true true 2 0 1; ODrop [2; 9]; OHas false true 2 0 1;
   ORead false [3; 1; 2]; OHas true true 2 1 0; ORead true [4; 5; 6; 7]; OHas false true 2 1 1;
   ORead false [4; 5; 6; 7]; OHas false false 2 2 0; OHas false false 2 2 0; OHas false false 2 2 0;
   OHas false false 2 2 0].
Proof. vm_compute. reflexivity. Qed.

Example ex_reads : nreads (out ex_state) = [[3; 1; 2]; [4; 5; 6; 7]].
Proof. vm_compute. reflexivity. Qed.

Example ex_accepted : accs_of (out ex_state) = [[3; 1; 2]; [4; 5; 6; 7]].
Proof. vm_compute. reflexivity. Qed.

Example ex_wlog : wlog (out ex_state) = [[3; 1; 2]; [4; 5; 6; 7]; [5; 0; 0; 0; 0]; [2; 9]].
Proof. vm_compute. reflexivity. Qed.

Example ex_noerr : err ex_state = false.
Proof. vm_compute. reflexivity. Qed.

(* the real framing function on a real message followed by another one:
   "/ab" ",is" 7 "xyz"  (20 bytes)  ++  "/c" "," *)
Definition osc1 : msg := [47;97;98;0; 44;105;115;0; 0;0;0;7; 120;121;122;0].
Definition osc2 : msg := [47;99;0;0; 44;0;0;0].
Example ring_length_first : ring_length (osc1 ++ osc2) = zlen osc1 /\ ring_length (osc2 ++ osc1) = zlen osc2.
Proof. vm_compute. split; reflexivity. Qed.

(* a run with the real framing: ring of 32 bytes, MaxMsg 16; the third message
   wraps around the end of the buffer (write index 24 -> 8) *)
Definition ex2_state : state :=
  reach 32 16 ring_length [WRaw osc1; WArr osc2; WRaw osc1] (RTry true :: repeat (RTry false) 6)
        (repeat Wr 40 ++ repeat Rd 60 ++ repeat Wr 30 ++ repeat Rd 150).
Example ex2_reads : nreads (out ex2_state) = [osc1; osc2; osc1] /\ err ex2_state = false /\
  iw ex2_state = 8 /\ ir ex2_state = 8.
Proof. vm_compute. repeat split; reflexivity. Qed.
