(* C06 - the FIFO theorems when only the LAST message of the writer's script
   may fail to be self-delimiting (the complement of finding bundle-not-last).

   Ring/RingProofs.v proves the invariant from
     frame (m ++ rest) = zlen m   whenever  sd m  or  rest = []
   and the second invariant Inv2 (every message of the history but the last
   one is sd).  Here: the statements over all scripts and schedules, the OSC
   instantiation (sd = well-formed non-bundle message, the last message may be
   a well-formed bundle: OscBundleProofs.message_length_bundle_exact), a
   computed run with a bundle as the last message, and the finding itself as a
   computed run of the model (bundle, then a message: the queue is wedged). *)
From Coq Require Import List ZArith Bool Lia.
From RtoscV Require Import Osc.OscModel Osc.OscBase Osc.OscReadProofs Osc.OscLenProofs Osc.OscBundleProofs.
From RtoscV Require Import Ring.RingModel Ring.RingInv Ring.RingProofs Ring.RingOsc Ring.RingOscExamples.
From RtoscV Require Ring.RingFrame.
Import ListNotations.
Local Open Scope Z_scope.

Definition frame_ok_last (frame : list byte -> Z) (wf sd : RingModel.msg -> Prop) : Prop :=
  forall m rest, wf m -> sd m \/ rest = [] -> frame (m ++ rest) = zlen m.

(* every message well-formed, every message but the last one self-delimiting *)
Definition script_ok_last (wf sd : RingModel.msg -> Prop) (ws : list wop) : Prop :=
  script_ok wf ws /\ Forall sd (removelast (map wmsg ws)).

Section TopLast.
Variable N MM : Z.
Variable frame : list byte -> Z.
Variable wf sd : RingModel.msg -> Prop.
Hypothesis N_pos : 0 < N.
Hypothesis FR : frame_ok_last frame wf sd.
Variable ws : list wop.
Variable rs : list rop.
Variable sched : list tid.
Hypothesis WS : script_ok_last wf sd ws.

Let s := reach N MM frame ws rs sched.

Lemma reach_inv_last : Inv N MM wf s.
Proof. destruct WS as [W1 W2]. apply (inv_reach N MM frame wf N_pos sd FR ws rs sched W1 W2). Qed.

Lemma last_fifo : nreads (out s) = firstn (length (nreads (out s))) (accs_of (out s)).
Proof. apply (fifo N MM wf), reach_inv_last. Qed.

Lemma last_lookahead : reads_ok (accs_of (out s)) (out s) O O.
Proof. apply (lookahead N MM wf), reach_inv_last. Qed.

Lemma last_hasnext_lin : Forall has_ok (out s).
Proof. apply (hasnext_lin N MM wf), reach_inv_last. Qed.

Lemma last_safe : err s = false.
Proof. apply (safe N MM wf), reach_inv_last. Qed.
End TopLast.

(* ---- OSC ------------------------------------------------------------------ *)
Definition bundle_wf (m : list byte) : Prop :=
  exists ttag es, m = elem_bytes (Bun ttag es) /\ elem_wf (Bun ttag es).

Definition osc_or_bundle (m : list byte) : Prop := osc_wf m \/ bundle_wf m.

Theorem osc_frame_ok_last : frame_ok_last osc_frame osc_or_bundle osc_wf.
Proof.
  intros m rest [W|(ttag & es & -> & W)] [S | ->].
  - now apply osc_frame_ok.
  - now apply osc_frame_ok.
  - now apply osc_frame_ok.
  - rewrite app_nil_r. unfold osc_frame. now rewrite message_length_bundle_exact.
Qed.

Theorem fifo_osc_bundle_last : forall N MM, 0 < N ->
  forall ws rs sched, script_ok osc_or_bundle ws -> Forall osc_wf (removelast (map wmsg ws)) ->
  let s := reach N MM osc_frame ws rs sched in
  nreads (out s) = firstn (length (nreads (out s))) (accs_of (out s)) /\
  reads_ok (accs_of (out s)) (out s) O O /\ Forall has_ok (out s) /\ err s = false.
Proof.
  intros N MM HN ws rs sched W1 W2. cbv zeta.
  pose proof (conj W1 W2 : script_ok_last osc_or_bundle osc_wf ws) as WS.
  repeat split.
  - exact (last_fifo N MM osc_frame osc_or_bundle osc_wf HN osc_frame_ok_last ws rs sched WS).
  - exact (last_lookahead N MM osc_frame osc_or_bundle osc_wf HN osc_frame_ok_last ws rs sched WS).
  - exact (last_hasnext_lin N MM osc_frame osc_or_bundle osc_wf HN osc_frame_ok_last ws rs sched WS).
  - exact (last_safe N MM osc_frame osc_or_bundle osc_wf HN osc_frame_ok_last ws rs sched WS).
Qed.

(* ---- a bundle as the last message: read back whole -------------------------- *)
(* #bundle, time tag 1, one element "/c" "," *)
Definition bunB : RingModel.msg := elem_bytes (Bun 1 [Msg oscB]).

Lemma bunB_wf : bundle_wf bunB.
Proof.
  exists 1, [Msg oscB]. split; [reflexivity|]. constructor; [lia| |vm_compute; reflexivity].
  constructor; [|constructor]. unfold oscB. constructor.
  - constructor; [discriminate | repeat constructor; discriminate | constructor | reflexivity | constructor].
  - unfold not_bundle_addr. cbn. discriminate.
  - vm_compute. reflexivity.
Qed.

Definition last_ws : list wop := [WRaw oscA; WArr oscB; WRaw bunB].
Definition last_sched : list tid := repeat Wr 120 ++ repeat Rd 400.

Lemma okmsg_osc : forall m, osc_wf m -> 0 < zlen m -> okmsg osc_or_bundle m.
Proof. intros m W L. split; [left; exact W | exact L]. Qed.
Lemma okmsg_bun : forall m, bundle_wf m -> 0 < zlen m -> okmsg osc_or_bundle m.
Proof. intros m W L. split; [right; exact W | exact L]. Qed.

Theorem bundle_last_nonvacuous :
  script_ok osc_or_bundle last_ws /\ Forall osc_wf (removelast (map wmsg last_ws)) /\
  RingFrame.is_bundle (wmsg (last last_ws (WRaw []))) = true /\
  nreads (out (reach 64 32 osc_frame last_ws osc_rs last_sched)) = [oscA; oscB; bunB].
Proof.
  split.
  { constructor; [apply okmsg_osc; [apply oscA_wf | vm_compute; reflexivity]|].
    constructor; [apply okmsg_osc; [apply oscB_wf | vm_compute; reflexivity]|].
    constructor; [apply okmsg_bun; [apply bunB_wf | vm_compute; reflexivity]|]. constructor. }
  split.
  { cbn. constructor; [apply oscA_wf|]. constructor; [apply oscB_wf|]. constructor. }
  split; vm_compute; reflexivity.
Qed.

(* ---- the finding on the model: a bundle that is NOT the last message --------- *)
(* raw_write(bundle), raw_write(message), then guarded reads: hasNext answers
   true every time, every read returns nothing, nothing is consumed *)
Definition wedge_ws : list wop := [WRaw bunB; WRaw oscB].
Definition wedge_state : state :=
  reach 64 32 osc_frame wedge_ws (repeat (RTry false) 4) (repeat Wr 120 ++ repeat Rd 400).

Theorem bundle_not_last_refuted :
  script_ok osc_or_bundle wedge_ws /\
  accs_of (out wedge_state) = [bunB; oscB] /\
  nreads (out wedge_state) = [[]; []; []; []] /\
  ir wedge_state = 0 /\ iw wedge_state = 36 /\
  nreads (out wedge_state) <> firstn 4 (accs_of (out wedge_state)).
Proof.
  split.
  { constructor; [apply okmsg_bun; [apply bunB_wf | vm_compute; reflexivity]|].
    constructor; [apply okmsg_osc; [apply oscB_wf | vm_compute; reflexivity]|]. constructor. }
  vm_compute. repeat split; try reflexivity. discriminate.
Qed.
