(* C20 - regression witness for the repaired defect: MidiMappernRT::clear()
   before the fix emptied the learn queue without withdrawing the watches the
   queued addresses had been given.  The old function and the history on which
   the property fails with it (a fully synchronous, nocross history). *)
From Coq Require Import List ZArith Bool.
From RtoscV Require Import Midi.MidiModel Midi.MidiSpec.
Import ListNotations.
Local Open Scope Z_scope.

Definition nrt_clear_old (n : nrt) : option (nrt * list rmsg) :=
  Some ({| nstorage := Some empty_store; inv_map := []; learnQ := [] |}, [RBind empty_store]).

Definition step_old (ports : list port) (w : world) (e : event) : option (world * list obs) :=
  match e with
  | EClear => nrt_result w (nrt_clear_old (wn w)) []
  | _ => step ports w e
  end.

Fixpoint run_old (ports : list port) (w : world) (es : list event) : list (list obs) * option world :=
  match es with
  | [] => ([], Some w)
  | e :: r =>
      match step_old ports w e with
      | None => ([], None)
      | Some (w', o) => let '(tr, fin) := run_old ports w' r in (o :: tr, fin)
      end
  end.

Definition leak_ports : list port :=
  [ {| pint := true;  pmin := (0, 0); pmax := (127, 0) |};
    {| pint := false; pmin := (0, 0); pmax := (1, 0) |} ].

(* map p0; clear; controller 6 takes the stale watch, finds the queue empty and
   stays pending; map p1; controller 6 is ignored although p1 is queued and 6
   is assigned to nothing *)
Definition leak_history : list event :=
  [ EMap 0 true; EDelR; EClear; EDelR; ECC 6 1 1 false; EDelN;
    EMap 1 true; EDelR; ECC 6 2 1 false; EDelN; EDelR; ECC 6 3 1 false ].

Lemma clear_watch_leak_refuted :
  exists tr fin,
    run_old leak_ports world0 leak_history = (tr, Some fin) /\
    nocross leak_history tr = true /\
    nth_error tr 5 = Some [OA 6 None] /\            (* offered, nothing queued *)
    nth_error tr 8 = Some [] /\                     (* p1 queued, 6 not taken *)
    learnQ (wn fin) = [(1, true)] /\ assigned_targets 6 tr = [] /\
    pq_has (pending (wr fin)) 6 = true.
Proof.
  eexists. eexists. split; [vm_compute; reflexivity |].
  vm_compute. repeat split; reflexivity.
Qed.

(* with the repaired clear (one more delivery: the remove-watch) controller 6
   is silent at first, then binds p1 *)
Definition fixed_history : list event :=
  [ EMap 0 true; EDelR; EClear; EDelR; EDelR; ECC 6 1 1 false; EDelN;
    EMap 1 true; EDelR; ECC 6 2 1 false; EDelN; EDelR; ECC 6 3 1 false ].

Lemma clear_watch_fixed :
  exists tr fin,
    run leak_ports world0 fixed_history = (tr, Some fin) /\
    nth_error tr 5 = Some [] /\ nth_error tr 6 = Some [OE] /\
    assigned_targets 6 tr = [(1, true)] /\
    option_map msgs_of (nth_error tr 12) =
      Some [ {| maddr := 1; mvalue := VFloat (bi_float {| bmin := (0, 0); bmax := (1, 0) |} (3 * 128)) |} ].
Proof.
  eexists. eexists. split; [vm_compute; reflexivity |].
  vm_compute. repeat split; reflexivity.
Qed.
