(* C20 - regression witnesses for the repaired defects.
   (1) MidiMappernRT::clear()
   before the fix emptied the learn queue without withdrawing the watches the
   queued addresses had been given.  The old function and the history on which
   the property fails with it (a fully synchronous, nocross history). *)
From Coq Require Import List ZArith Bool.
From RtoscV Require Import Midi.MidiModel Midi.MidiSpec Midi.MidiProofs.
Import ListNotations.
Local Open Scope Z_scope.

(* the functions as they were before the D19 fix (2); the clear() witness (1)
   is about the code of its time, i.e. with these *)
Definition rt_deliver_old (r : rt) (m : rmsg) : option rt :=
  match m with
  | RBind ns _ =>
      match pq_pop (pending r) with
      | None => None
      | Some p' =>
          match rstorage r with
          | None => Some {| rstorage := Some ns; pending := p'; watch := watch r |}
          | Some old =>
              match cloneValues ns old with
              | Some ns' => Some {| rstorage := Some ns'; pending := p'; watch := watch r |}
              | None => None
              end
          end
      end
  | _ => rt_deliver r m
  end.

Definition nrt_useFreeID_old (ports : list port) (n : nrt) (id : Z) : option (nrt * list rmsg) :=
  match learnQ n with
  | [] => Some (n, [])
  | _ => nrt_useFreeID ports n id
  end.

Definition step_old19 (ports : list port) (w : world) (e : event) : option (world * list obs) :=
  match e with
  | EDelN =>
      match chN w with
      | [] => Some (w, [OE])
      | id :: rest =>
          nrt_result {| wn := wn w; wr := wr w; chN := rest; chR := chR w |}
                     (nrt_useFreeID_old ports (wn w) id)
                     [OA id (hd_error (learnQ (wn w)))]
      end
  | EDelR =>
      match chR w with
      | [] => Some (w, [OE])
      | m :: rest =>
          match rt_deliver_old (wr w) m with
          | None => None
          | Some r' => Some ({| wn := wn w; wr := r'; chN := chN w; chR := rest |}, [])
          end
      end
  | _ => step ports w e
  end.

Fixpoint run_old19 (ports : list port) (w : world) (es : list event) : list (list obs) * option world :=
  match es with
  | [] => ([], Some w)
  | e :: r =>
      match step_old19 ports w e with
      | None => ([], None)
      | Some (w', o) => let '(tr, fin) := run_old19 ports w' r in (o :: tr, fin)
      end
  end.

Definition nrt_clear_old (n : nrt) : option (nrt * list rmsg) :=
  Some ({| nstorage := Some empty_store; inv_map := []; learnQ := [] |}, [RBind empty_store (-1)]).

Definition step_old (ports : list port) (w : world) (e : event) : option (world * list obs) :=
  match e with
  | EClear => nrt_result w (nrt_clear_old (wn w)) []
  | _ => step_old19 ports w e
  end.

Fixpoint run_old (ports : list port) (w : world) (es : list event) : list (list obs) * option world :=
  match es with
  | [] => ([], Some w)
  | e :: r =>
      match step_old ports w e with
      | None => ([], None)
      | Some (w', o) => let '(tr, fin) := run_old ports w' r in (o :: tr, fin)
      end
  end.

Definition leak_ports : list port :=
  [ {| pint := true;  pmin := (0, 0); pmax := (127, 0) |};
    {| pint := false; pmin := (0, 0); pmax := (1, 0) |} ].

(* map p0; clear; controller 6 takes the stale watch, finds the queue empty and
   stays pending; map p1; controller 6 is ignored although p1 is queued and 6
   is assigned to nothing *)
Definition leak_history : list event :=
  [ EMap 0 true; EDelR; EClear; EDelR; ECC 6 1 1 false; EDelN;
    EMap 1 true; EDelR; ECC 6 2 1 false; EDelN; EDelR; ECC 6 3 1 false ].

Lemma clear_watch_leak_refuted :
  exists tr fin,
    run_old leak_ports world0 leak_history = (tr, Some fin) /\
    nocross leak_history tr = true /\
    nth_error tr 5 = Some [OA 6 None] /\            (* offered, nothing queued *)
    nth_error tr 8 = Some [] /\                     (* p1 queued, 6 not taken *)
    learnQ (wn fin) = [(1, true)] /\ assigned_targets 6 tr = [] /\
    pq_has (pending (wr fin)) 6 = true.
Proof.
  eexists. eexists. split; [vm_compute; reflexivity |].
  vm_compute. repeat split; reflexivity.
Qed.

(* with the repaired clear (one more delivery: the remove-watch) controller 6
   is silent at first, then binds p1 *)
Definition fixed_history : list event :=
  [ EMap 0 true; EDelR; EClear; EDelR; EDelR; ECC 6 1 1 false; EDelN;
    EMap 1 true; EDelR; ECC 6 2 1 false; EDelN; EDelR; ECC 6 3 1 false ].

Lemma clear_watch_fixed :
  exists tr fin,
    run leak_ports world0 fixed_history = (tr, Some fin) /\
    nth_error tr 5 = Some [] /\ nth_error tr 6 = Some [OE] /\
    assigned_targets 6 tr = [(1, true)] /\
    option_map msgs_of (nth_error tr 12) =
      Some [ {| maddr := 1; mvalue := VFloat (bi_float {| bmin := (0, 0); bmax := (1, 0) |} (3 * 128)) |} ].
Proof.
  eexists. eexists. split; [vm_compute; reflexivity |].
  vm_compute. repeat split; reflexivity.
Qed.

(* (2) D19.  Before the fix every midi-bind released the oldest pending
   controller on the realtime side, and a midi-use-CC that found the learn
   queue empty was not answered.  The old functions and the history on which
   the property fails with them (MidiProofs.d19_repaired: the same history on
   the repaired functions). *)
Lemma d19_refuted :
  exists ports evs tr fin,
    run_old19 ports world0 evs = (tr, Some fin) /\
    (* controller 5 takes two queued addresses although it was never unmapped *)
    assigned_targets 5 tr = [(0, true); (1, true)] /\
    (* p1's assignment is lost: after p0 is unmapped 5 drives nothing *)
    nth_error evs 20 = Some (ECC 5 67 1 false) /\ nth_error tr 20 = Some [] /\
    inv_find 1 (inv_map (wn fin)) = Some (2, 5, -1, {| bmin := (0, 0); bmax := (1, 0) |}) /\
    (* controller 0 was never assigned and drives p2 *)
    assigned_targets 0 tr = [] /\
    nth_error evs 21 = Some (ECC 0 9 1 false) /\
    option_map msgs_of (nth_error tr 21) = Some [ {| maddr := 2; mvalue := VFloat (bi_float {| bmin := (-3, -1); bmax := (11, -2) |} 9) |} ] /\
    nocross evs tr = false.
Proof.
  exists d19_ports, d19_history.
  eexists. eexists.
  split; [vm_compute; reflexivity |].
  vm_compute. repeat split; reflexivity.
Qed.

(* the second half of the defect: two controllers on offer, clear(): neither
   midi-use-CC finds an address, the bind of clear() released one of them, the
   other stayed pending and could not be learned any more *)
Definition stuck_history : list event :=
  [ EMap 0 true; EMap 1 true; EDelR; EDelR; ECC 5 1 1 false; ECC 6 1 1 false; EClear;
    EDelN; EDelN; EDelR; EDelR; EDelR; EDelR; EDelR;
    EMap 0 true; EDelR; ECC 6 2 1 false; EDelN; EDelR; ECC 6 3 1 false ].

Lemma stuck_refuted :
  exists tr fin,
    run_old19 d19_ports world0 stuck_history = (tr, Some fin) /\
    nth_error tr 16 = Some [] /\                      (* p0 queued and watched, 6 not taken *)
    learnQ (wn fin) = [(0, true)] /\ watch (wr fin) = 1 /\ assigned_targets 6 tr = [] /\
    pq_has (pending (wr fin)) 6 = true.
Proof.
  eexists. eexists. split; [vm_compute; reflexivity |].
  vm_compute. repeat split; reflexivity.
Qed.

Lemma stuck_repaired :
  exists tr fin,
    run d19_ports world0 stuck_history = (tr, Some fin) /\
    nth_error tr 16 = Some [OU 6] /\ assigned_targets 6 tr = [(0, true)] /\
    option_map msgs_of (nth_error tr 19) = Some [ {| maddr := 0; mvalue := VInt 3 |} ].
Proof.
  eexists. eexists. split; [vm_compute; reflexivity |].
  vm_compute. repeat split; reflexivity.
Qed.
