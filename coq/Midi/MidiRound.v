(* C20 - the executable rounding rnd p emin is Flocq's round-to-nearest-even
   onto the format FLT(emin, p) (unbounded exponent above: the model has no
   overflow).  From Flocq's round_le / round_generic / relative_error_N_FLT:
   rounding_ok holds for r24, r53 and every pair of float bounds. *)
From Coq Require Import ZArith Reals QArith Qpower Qreals Lia Lra List Bool.
From Flocq Require Import Core Round Bracket FLT Relative Plus_error.
From RtoscV Require Import Midi.MidiModel Midi.MidiSpec Midi.MidiFloat.
Local Open Scope Z_scope.

Definition dy2R (x : dy) : R := F2R (Float radix2 (fst x) (snd x)).

Lemma Q2R_inject : forall z, Q2R (inject_Z z) = IZR z.
Proof. intro z. unfold Q2R, inject_Z. cbn [Qnum Qden]. rewrite Rinv_1. ring. Qed.

Lemma Q2R_pow2 : forall e, Q2R ((2 # 1) ^ e) = bpow radix2 e.
Proof.
  assert (P : forall k, 0 <= k -> Q2R ((2 # 1) ^ k) = bpow radix2 k).
  { intros k Hk. rewrite <- (IZR_Zpower radix2 k Hk). change (radix2 : Z) with 2.
    rewrite <- Q2R_inject. apply Qeq_eqR. rewrite Zpower_Qpower by exact Hk. reflexivity. }
  intro e. destruct (Z.le_gt_cases 0 e) as [H | H]; [apply P; exact H |].
  replace e with (- (- e)) by lia. rewrite Qpower_opp, bpow_opp.
  rewrite Q2R_inv.
  - rewrite P by lia. reflexivity.
  - intro E. pose proof (pow2_pos (- e)) as Pp. rewrite E in Pp. discriminate.
Qed.

Lemma dy2R_Q : forall x, dy2R x = Q2R (dy2Q x).
Proof.
  intros [m e]. unfold dy2R, dy2Q, F2R. cbn [fst snd Fnum Fexp].
  rewrite Q2R_mult, Q2R_inject, Q2R_pow2. reflexivity.
Qed.

Lemma bitlen_Zdigits : forall a, 0 <= a -> bitlen a = Zdigits radix2 a.
Proof.
  intros a Ha. unfold bitlen. destruct (Z.eqb_spec a 0) as [-> | Ne]; [reflexivity |].
  symmetry. apply Zdigits_unique. change (radix2 : Z) with 2. rewrite Z.abs_eq by lia.
  replace (Z.log2 a + 1 - 1) with (Z.log2 a) by lia.
  pose proof (Z.log2_spec a). replace (Z.log2 a + 1) with (Z.succ (Z.log2 a)) by lia. lia.
Qed.

Lemma half_bpow : bpow radix2 (-1) = (/ 2)%R.
Proof. reflexivity. Qed.

(* nearest-even of m / 2^k from the quotient and the remainder *)
Lemma ZnearestE_div : forall m k, 0 < k ->
  ZnearestE (IZR m * bpow radix2 (- k)) =
  let q := m / 2 ^ k in let r := m mod 2 ^ k in let h := 2 ^ (k - 1) in
  if (h <? r) || ((r =? h) && Z.odd q) then q + 1 else q.
Proof.
  intros m k Hk. cbv zeta.
  set (q := m / 2 ^ k). set (r := m mod 2 ^ k). set (h := 2 ^ (k - 1)).
  assert (P : 0 < 2 ^ k) by (apply Z.pow_pos_nonneg; lia).
  assert (Hh : 2 * h = 2 ^ k).
  { unfold h. replace k with (1 + (k - 1)) at 2 by lia. rewrite Z.pow_add_r by lia. reflexivity. }
  assert (Hm : m = q * 2 ^ k + r) by (unfold q, r; rewrite Z.mul_comm; apply Z.div_mod; lia).
  assert (Hr : 0 <= r < 2 ^ k) by (apply Z.mod_pos_bound; lia).
  assert (Bk : bpow radix2 k = IZR (2 ^ k)) by (rewrite <- (IZR_Zpower radix2) by lia; reflexivity).
  assert (Bp : (0 < bpow radix2 (- k))%R) by apply bpow_gt_0.
  assert (Inv : (bpow radix2 k * bpow radix2 (- k) = 1)%R).
  { rewrite <- bpow_plus. replace (k + - k) with 0 by lia. reflexivity. }
  assert (Sm : (IZR m * bpow radix2 (- k) = IZR q + IZR r * bpow radix2 (- k))%R).
  { rewrite Hm at 1. rewrite plus_IZR, mult_IZR, <- Bk. rewrite Rmult_plus_distr_r.
    rewrite Rmult_assoc, Inv. ring. }
  assert (Hhalf : (IZR h * bpow radix2 (- k) = / 2)%R).
  { apply Rmult_eq_reg_l with 2%R; [| lra]. rewrite <- Rmult_assoc, <- mult_IZR, Hh, <- Bk, Inv. lra. }
  destruct (Z.eq_dec r 0) as [R0 | R0].
  - rewrite (inbetween_int_NE _ q SpecFloat.loc_Exact).
    + cbn [round_N cond_incr]. rewrite R0.
      assert (0 < h) by (unfold h; apply Z.pow_pos_nonneg; lia).
      destruct (Z.ltb_spec h 0); [lia |]. destruct (Z.eqb_spec 0 h); [lia | reflexivity].
    + constructor. rewrite Sm, R0. ring.
  - assert (Rpos : (0 < IZR r * bpow radix2 (- k) < 1)%R).
    { split.
      - apply Rmult_lt_0_compat; [apply IZR_lt; lia | exact Bp].
      - rewrite <- Inv. apply Rmult_lt_compat_r; [exact Bp |]. rewrite Bk. apply IZR_lt. lia. }
    rewrite (inbetween_int_NE _ q (SpecFloat.loc_Inexact (Z.compare r h))).
    + unfold round_N, cond_incr.
      destruct (Z.compare_spec r h) as [E | L | G].
      * subst r. rewrite E. destruct (Z.ltb_spec h h); [lia |]. rewrite Z.eqb_refl. cbn [orb andb].
        rewrite <- Z.negb_even. destruct (Z.even q); reflexivity.
      * destruct (Z.ltb_spec h r); [lia |]. destruct (Z.eqb_spec r h); [lia | reflexivity].
      * destruct (Z.ltb_spec h r); [reflexivity | lia].
    + constructor.
      * rewrite Sm, plus_IZR. lra.
      * rewrite Sm, plus_IZR.
        replace ((IZR q + (IZR q + 1)) / 2)%R with (IZR q + / 2)%R by lra.
        destruct (Z.compare_spec r h) as [E | L | G].
        -- apply Rcompare_Eq. rewrite E, Hhalf. reflexivity.
        -- apply Rcompare_Lt. rewrite <- Hhalf.
           apply Rplus_lt_compat_l, Rmult_lt_compat_r; [exact Bp | apply IZR_lt; exact L].
        -- apply Rcompare_Gt. rewrite <- Hhalf.
           apply Rplus_lt_compat_l, Rmult_lt_compat_r; [exact Bp | apply IZR_lt; exact G].
Qed.

Section Rnd.
  Variables (p emin : Z).
  Hypothesis Hp : 0 < p.
  Instance prec_gt_0 : Prec_gt_0 p := Hp.
  Notation fexp := (FLT_exp emin p).
  Notation rndR := (round radix2 fexp ZnearestE).

  Theorem rnd_is_round : forall x, dy2R (rnd p emin x) = rndR (dy2R x).
  Proof.
    intros [m e]. destruct (Z.eq_dec m 0) as [-> | Hm].
    - unfold dy2R at 2. cbn [fst snd]. rewrite F2R_0, round_0 by apply valid_rnd_N.
      unfold dy2R. rewrite rnd_zero. apply F2R_0.
    - assert (Cx : cexp radix2 fexp (F2R (Float radix2 m e)) = Z.max (e + bitlen (Z.abs m) - p) emin).
      { unfold cexp. rewrite mag_F2R_Zdigits by exact Hm.
        unfold FLT_exp. rewrite bitlen_Zdigits by lia. rewrite Zdigits_abs. f_equal. lia. }
      unfold rnd. set (e' := Z.max (e + bitlen (Z.abs m) - p) emin) in *.
      destruct (Z.leb_spec e' e) as [Le | Gt].
      + symmetry. apply round_generic; [apply valid_rnd_N |].
        unfold dy2R. cbn [fst snd]. apply generic_format_F2R. intros _. rewrite Cx. exact Le.
      + unfold dy2R. cbn [fst snd]. unfold round. rewrite Cx. f_equal. f_equal.
        unfold scaled_mantissa. rewrite Cx. unfold F2R. cbn [Fnum Fexp].
        rewrite Rmult_assoc, <- bpow_plus. replace (e + - e') with (- (e' - e)) by lia.
        rewrite ZnearestE_div by lia. reflexivity.
  Qed.

  Lemma rnd_mono_R : forall x y, (dy2R x <= dy2R y)%R -> (dy2R (rnd p emin x) <= dy2R (rnd p emin y))%R.
  Proof.
    intros x y H. rewrite !rnd_is_round. apply round_le; [apply FLT_exp_valid; exact Hp | apply valid_rnd_N | exact H].
  Qed.

  Lemma rnd_mono_Q : forall x y, (dy2Q x <= dy2Q y)%Q -> (dy2Q (rnd p emin x) <= dy2Q (rnd p emin y))%Q.
  Proof.
    intros x y H. apply Rle_Qle. rewrite <- !dy2R_Q. apply rnd_mono_R. rewrite !dy2R_Q. apply Qle_Rle. exact H.
  Qed.

  (* a float of this format: |m| < 2^p, e >= emin *)
  Definition in_format (x : dy) : Prop := Z.abs (fst x) < 2 ^ p /\ emin <= snd x.

  Lemma in_format_generic : forall x, in_format x -> generic_format radix2 fexp (dy2R x).
  Proof.
    intros [m e] [Hm He]. apply generic_format_FLT. exists (Float radix2 m e); [reflexivity | exact Hm | exact He].
  Qed.

  Lemma rnd_fix_R : forall z, generic_format radix2 fexp (dy2R z) -> dy2R (rnd p emin z) = dy2R z.
  Proof. intros z G. rewrite rnd_is_round. apply round_generic; [apply valid_rnd_N | exact G]. Qed.

  Lemma rnd_fix_Q : forall z b, in_format b -> (dy2Q z == dy2Q b)%Q -> (dy2Q (rnd p emin z) == dy2Q b)%Q.
  Proof.
    intros z b Fb E. apply Qle_antisym; apply Rle_Qle; rewrite <- !dy2R_Q.
    - rewrite rnd_fix_R; [rewrite !dy2R_Q; apply Qle_Rle; rewrite E; apply Qle_refl |].
      replace (dy2R z) with (dy2R b) by (rewrite !dy2R_Q; apply Qeq_eqR; symmetry; exact E).
      apply in_format_generic; exact Fb.
    - rewrite rnd_fix_R; [rewrite !dy2R_Q; apply Qle_Rle; rewrite E; apply Qle_refl |].
      replace (dy2R z) with (dy2R b) by (rewrite !dy2R_Q; apply Qeq_eqR; symmetry; exact E).
      apply in_format_generic; exact Fb.
  Qed.

  Lemma rnd_zero_Q : forall z, (dy2Q z == 0)%Q -> (dy2Q (rnd p emin z) == 0)%Q.
  Proof.
    intros z E.
    assert (Z0 : (dy2Q (0%Z, emin) == 0)%Q) by (unfold dy2Q; cbn [fst snd]; apply Qmult_0_l).
    rewrite <- Z0. apply rnd_fix_Q; [| rewrite E, Z0; reflexivity].
    split; cbn [fst snd]; [apply Z.pow_pos_nonneg; lia | lia].
  Qed.

  (* relative error, stated for non-negative operands: rnd x <= x (1 + 2^-p)
     when x = 0 or x >= 2^(emin+p-1) *)
  Lemma rnd_err_R : forall x, (dy2R x = 0 \/ bpow radix2 (emin + p - 1) <= dy2R x)%R ->
    (dy2R (rnd p emin x) <= dy2R x * (1 + / 2 * bpow radix2 (- p + 1)))%R.
  Proof.
    intros x [Z0 | Big]; rewrite rnd_is_round.
    - rewrite Z0, round_0 by apply valid_rnd_N. lra.
    - assert (Pos : (0 < dy2R x)%R) by (eapply Rlt_le_trans; [apply bpow_gt_0 | exact Big]).
      pose proof (relative_error_N_FLT radix2 emin p Hp (fun t => negb (Z.even t)) (dy2R x)) as E.
      rewrite (Rabs_pos_eq (dy2R x)) in E by lra. specialize (E Big).
      apply Rabs_le_inv in E. fold ZnearestE in E. lra.
  Qed.
End Rnd.

(* ---- rounding_ok for the executable roundings --------------------------------------- *)
Definition float24 (x : dy) : Prop := in_format 24 (-149) x.

Lemma dysub_R : forall x y, dy2R (dysub x y) = (dy2R x - dy2R y)%R.
Proof. intros. rewrite !dy2R_Q, <- Q2R_minus. apply Qeq_eqR, dysub_Q. Qed.

Lemma dymul_R : forall x y, dy2R (dymul x y) = (dy2R x * dy2R y)%R.
Proof. intros. rewrite !dy2R_Q, <- Q2R_mult. apply Qeq_eqR, dymul_Q. Qed.

Lemma le_Q_of_R : forall a b eps, (Q2R a <= Q2R b * (1 + / IZR (Zpos eps)))%R ->
  (a <= b * (1 + (1 # eps)))%Q.
Proof.
  intros a b eps H. apply Rle_Qle. rewrite Q2R_mult, Q2R_plus.
  replace (Q2R 1) with 1%R by (unfold Q2R; cbn; lra).
  replace (Q2R (1 # eps)) with (/ IZR (Zpos eps))%R by (unfold Q2R; cbn [Qnum Qden]; lra).
  exact H.
Qed.

Lemma float24_is_53 : forall x, float24 x -> in_format 53 (-1074) x.
Proof.
  intros [m e] [Hm He]. cbn [fst snd] in *. split; cbn [fst snd]; [| lia].
  eapply Z.lt_trans; [exact Hm |]. reflexivity.
Qed.

Theorem rounding_ok_rnd : forall b, float24 (bmin b) -> float24 (bmax b) ->
  (dy2Q (bmin b) <= dy2Q (bmax b))%Q -> rounding_ok r24 r53 b.
Proof.
  intros b Fmin Fmax Hle.
  assert (P24 : 0 < 24) by lia. assert (P53 : 0 < 53) by lia.
  set (D := dysub (bmax b) (bmin b)).
  assert (HD : dy2R D = (dy2R (bmax b) - dy2R (bmin b))%R) by apply dysub_R.
  assert (D0 : (0 <= dy2R D)%R).
  { rewrite HD, !dy2R_Q. apply Qle_Rle in Hle. lra. }
  assert (Err24 : (dy2R (r24 D) <= dy2R D * (1 + / 16777216))%R).
  { unfold r24. destruct (Rle_or_lt (bpow radix2 (-149 + 24 - 1)) (dy2R D)) as [Big | Small].
    - pose proof (rnd_err_R 24 (-149) P24 D (or_intror Big)) as E.
      replace (/ 2 * bpow radix2 (- (24) + 1))%R with (/ 16777216)%R in E; [exact E |].
      change (bpow radix2 (- (24) + 1)) with (/ 8388608)%R. lra.
    - rewrite (rnd_fix_R 24 (-149)).
      + assert (0 <= dy2R D * / 16777216)%R by (apply Rmult_le_pos; lra). lra.
      + rewrite HD. unfold Rminus. apply FLT_format_plus_small.
        * exact P24.
        * apply in_format_generic; exact Fmax.
        * apply generic_format_opp, in_format_generic; exact Fmin.
        * fold (Rminus (dy2R (bmax b)) (dy2R (bmin b))). rewrite <- HD.
          rewrite Rabs_pos_eq by exact D0.
          apply Rlt_le, Rlt_le_trans with (1 := Small). apply bpow_le. lia. }
  constructor.
  - intros x y. apply (rnd_mono_Q 24 (-149) P24).
  - intros x y. apply (rnd_mono_Q 53 (-1074) P53).
  - intros z. apply (rnd_zero_Q 24 (-149) P24).
  - intros z. apply (rnd_zero_Q 53 (-1074) P53).
  - intros z. apply (rnd_fix_Q 24 (-149)); exact Fmin.
  - intros z. apply (rnd_fix_Q 24 (-149)); exact Fmax.
  - intros z. apply (rnd_fix_Q 53 (-1074)). apply float24_is_53; exact Fmin.
  - intros z. apply (rnd_fix_Q 53 (-1074)). apply float24_is_53; exact Fmax.
  - fold D. apply (le_Q_of_R _ _ 16777216). rewrite <- !dy2R_Q. exact Err24.
  - intros x Hx. fold D. apply (le_Q_of_R _ _ 9007199254740992). rewrite <- !dy2R_Q.
    set (d := r24 D). set (P := dymul (x, (-14)%Z) d).
    assert (HP : dy2R P = (IZR x * bpow radix2 (-14) * dy2R d)%R).
    { unfold P. rewrite dymul_R. reflexivity. }
    assert (Hd0 : (0 <= dy2R d)%R).
    { unfold d, r24. replace 0%R with (dy2R (rnd 24 (-149) (0%Z, 0%Z))).
      - apply (rnd_mono_R 24 (-149) P24). unfold dy2R at 1. cbn [fst snd]. rewrite F2R_0. exact D0.
      - rewrite (rnd_is_round 24 (-149)). unfold dy2R. cbn [fst snd]. rewrite F2R_0.
        apply round_0, valid_rnd_N. }
    unfold r53.
    assert (Cases : (dy2R P = 0 \/ bpow radix2 (-1074 + 53 - 1) <= dy2R P)%R).
    { destruct (Z.eq_dec x 0) as [-> | Hx0]; [left; rewrite HP; lra |].
      destruct (Req_dec (dy2R d) 0) as [Ed | Nd]; [left; rewrite HP, Ed; lra |].
      right. assert (Hdpos : (0 < dy2R d)%R) by lra.
      assert (Hdmin : (bpow radix2 (-149) <= dy2R d)%R).
      { apply generic_format_ge_bpow with (fexp := FLT_exp (-149) 24).
        - intro e. unfold FLT_exp. lia.
        - exact Hdpos.
        - unfold d, r24. rewrite (rnd_is_round 24 (-149)).
          apply generic_format_round; [apply FLT_exp_valid; exact P24 | apply valid_rnd_N]. }
      rewrite HP. apply Rle_trans with (bpow radix2 (-14) * bpow radix2 (-149))%R.
      - rewrite <- bpow_plus. apply bpow_le. lia.
      - assert (1 <= IZR x)%R by (apply IZR_le; lia).
        assert (0 < bpow radix2 (-14))%R by apply bpow_gt_0.
        apply Rle_trans with (IZR x * bpow radix2 (-14) * bpow radix2 (-149))%R.
        + rewrite Rmult_assoc. rewrite <- (Rmult_1_l (bpow radix2 (-14) * bpow radix2 (-149))) at 1.
          apply Rmult_le_compat_r; [| assumption].
          apply Rmult_le_pos; apply bpow_ge_0.
        + apply Rmult_le_compat_l; [| exact Hdmin]. apply Rmult_le_pos; lra. }
    pose proof (rnd_err_R 53 (-1074) P53 P Cases) as E.
    replace (/ 2 * bpow radix2 (- (53) + 1))%R with (/ 9007199254740992)%R in E; [exact E |].
    change (bpow radix2 (- (53) + 1)) with (/ 4503599627370496)%R. lra.
Qed.

(* every finite binary32 pattern decodes to a float of the format *)
Lemma float24_of_bits : forall b, float24 (dy_of_bits32 b).
Proof.
  intro b. unfold float24, in_format, dy_of_bits32. cbn [fst snd].
  pose proof (Z.mod_pos_bound b (2 ^ 23) ltac:(lia)) as Hf.
  pose proof (Z.mod_pos_bound (b / 2 ^ 23) 256 ltac:(lia)) as He.
  split.
  - destruct (b / 2 ^ 31 =? 1); destruct ((b / 2 ^ 23) mod 256 =? 0); lia.
  - destruct (Z.eqb_spec ((b / 2 ^ 23) mod 256) 0); lia.
Qed.

(* the executable callbacks: range and monotonicity without rounding hypotheses *)
Theorem cb_range_exec : forall p a x,
  float24 (pmin p) -> float24 (pmax p) -> (dy2Q (pmin p) <= dy2Q (pmax p))%Q -> 0 <= x < 16384 ->
  maddr (run_cb (mk_cb p a) x) = a /\ mval_in_range p (mvalue (run_cb (mk_cb p a) x)).
Proof.
  intros p a x F1 F2 Hle Hx. unfold run_cb. apply cb_range; try assumption.
  apply rounding_ok_rnd; assumption.
Qed.

Theorem cb_monotone_exec : forall p a x1 x2,
  float24 (pmin p) -> float24 (pmax p) -> (dy2Q (pmin p) <= dy2Q (pmax p))%Q ->
  0 <= x1 -> x1 <= x2 -> x2 < 16384 ->
  mval_le (mvalue (run_cb (mk_cb p a) x1)) (mvalue (run_cb (mk_cb p a) x2)).
Proof.
  intros p a x1 x2 F1 F2 Hle H1 H12 H2. unfold run_cb. apply cb_monotone; try assumption.
  apply rounding_ok_rnd; assumption.
Qed.

(* in the controller's 7-bit value, coarse or fine, the other half fixed *)
Theorem cb_monotone_7bit : forall p a c v1 v2 old,
  float24 (pmin p) -> float24 (pmax p) -> (dy2Q (pmin p) <= dy2Q (pmax p))%Q ->
  0 <= v1 -> v1 <= v2 -> v2 < 128 -> 0 <= old < 16384 ->
  mval_le (mvalue (run_cb (mk_cb p a) (compose14 c v1 old)))
          (mvalue (run_cb (mk_cb p a) (compose14 c v2 old))).
Proof.
  intros p a c v1 v2 old F1 F2 Hle H1 H12 H2 Ho.
  assert (0 <= old mod 128 < 128) by (apply Z.mod_pos_bound; lia).
  assert (0 <= old / 128 < 128) by (split; [apply Z.div_pos; lia | apply Z.div_lt_upper_bound; lia]).
  apply cb_monotone_exec; try assumption; unfold compose14; destruct c; lia.
Qed.
