(* C20 - what one learn and one unMap do to the snapshot the realtime side
   receives: the new controller gets the slot of the oldest queued address,
   the unmapped controller disappears, every other controller keeps its entry *)
From Coq Require Import List ZArith Bool Lia.
From RtoscV Require Import Midi.MidiModel Midi.MidiSpec Midi.MidiProto.
Import ListNotations.
Local Open Scope Z_scope.

Lemma find_map_filter_other : forall id id' m, id' <> id ->
  find_map id' (filter (keep id) m) = find_map id' m.
Proof.
  intros id id' m Hne. induction m as [| t r IH]; [reflexivity |].
  cbn [filter]. unfold keep at 1. destruct (Z.eqb_spec (me_id t) id) as [E | E]; cbn [negb find_map].
  - destruct (Z.eqb_spec (me_id t) id'); [congruence | exact IH].
  - destruct (me_id t =? id'); [reflexivity | exact IH].
Qed.

Lemma find_map_filter_self : forall id m, find_map id (filter (keep id) m) = None.
Proof.
  intros id m. apply find_map_none. intro H. unfold mids in H. apply in_map_iff in H.
  destruct H as [t [E I]]. apply filter_In in I. destruct I as [_ K]. unfold keep in K.
  rewrite E, Z.eqb_refl in K. discriminate.
Qed.

Lemma killMap_exact : forall id s s', killMap id s = Some s' -> NoDup (mids (mapping s)) ->
  mapping s' = filter (keep id) (mapping s) /\ callbacks s' = callbacks s /\ values s' = values s.
Proof.
  intros id s s' H N. unfold killMap in H.
  pose proof (filter_keeps_most id (mapping s) N) as K.
  destruct (mapping s) as [| t rest] eqn:E; [discriminate |].
  change (fun t0 : mapent => negb (me_id t0 =? id)) with (keep id) in H.
  set (kept := filter (keep id) (t :: rest)) in *.
  destruct (Nat.leb_spec (length kept) (length rest)) as [L | L]; [| discriminate].
  inversion H; subst s'; clear H. cbn [mapping callbacks values]. cbn [length] in K.
  replace (length rest - length kept)%nat with 0%nat by lia. cbn [repeat]. rewrite app_nil_r. auto.
Qed.

(* unMap(addr, coarse|fine) of an address whose inv_map entry names controller
   `kill` for that kind: a snapshot is sent in which `kill` has no entry (the
   realtime side, once it holds that snapshot, emits nothing for it) and every
   other controller has the entry it had, with the same callbacks *)
Theorem unmap_stops : forall n a (c : bool) im s,
  inv_find a (inv_map n) = Some im -> nstorage n = Some s ->
  NoDup (mids (mapping s)) ->
  let kill := if c then im_co im else im_fi im in
  kill <> -1 ->
  forall n' out, nrt_unmap n a c = Some (n', out) ->
  exists s', out = [RBind s' (-1)] /\ nstorage n' = Some s' /\
    find_map kill (mapping s') = None /\
    (forall v, store_handleCC s' kill v = Some (s', None)) /\
    (forall id', id' <> kill -> find_map id' (mapping s') = find_map id' (mapping s)) /\
    callbacks s' = callbacks s /\ learnQ n' = learnQ n.
Proof.
  intros n a c im s Hf Hs N kill Hk n' out H. unfold nrt_unmap in H. rewrite Hf, Hs in H.
  fold kill in H. destruct (Z.eqb_spec kill (-1)); [contradiction |].
  destruct (killMap kill (clone_store s)) as [s' |] eqn:K; [| discriminate].
  inversion H; subst n' out; clear H.
  destruct (killMap_exact _ _ _ K N) as [Em [Ec Ev]]. cbn [clone_store mapping callbacks] in Em, Ec.
  exists s'. cbn [nstorage learnQ]. repeat split; try reflexivity.
  - rewrite Em. apply find_map_filter_self.
  - intro v. unfold store_handleCC. rewrite Em, find_map_filter_self. reflexivity.
  - intros id' Hne. rewrite Em. apply find_map_filter_other. exact Hne.
  - exact Ec.
Qed.

Lemma find_map_app_fresh : forall id m t, ~ In id (mids m) -> me_id t = id ->
  find_map id (m ++ [t]) = Some t.
Proof.
  induction m as [| u r IH]; intros t F E; cbn [app find_map].
  - rewrite E, Z.eqb_refl. reflexivity.
  - destruct (Z.eqb_spec (me_id u) id) as [E2 | E2].
    + exfalso. apply F. left. exact E2.
    + apply IH; [intro; apply F; right; assumption | exact E].
Qed.

Lemma find_map_app_other : forall id' m t, me_id t <> id' ->
  find_map id' (m ++ [t]) = find_map id' m.
Proof.
  induction m as [| u r IH]; intros t E; cbn [app find_map].
  - destruct (Z.eqb_spec (me_id t) id'); [contradiction | reflexivity].
  - destruct (me_id u =? id'); [reflexivity | apply IH; exact E].
Qed.

Lemma nthZ_app_last : forall {A} (l : list A) x, nthZ (l ++ [x]) (zlen (l ++ [x]) - 1) = Some x.
Proof.
  intros A l x. unfold nthZ, zlen. rewrite app_length. cbn [length].
  destruct (Z.ltb_spec (Z.of_nat (length l + 1) - 1) 0); [lia |].
  replace (Z.to_nat (Z.of_nat (length l + 1) - 1)) with (length l) by lia.
  rewrite nth_error_app2 by lia. rewrite Nat.sub_diag. reflexivity.
Qed.

Lemma nthZ_app_old : forall {A} (l : list A) x i y, nthZ l i = Some y -> nthZ (l ++ [x]) i = Some y.
Proof.
  intros A l x i y H. unfold nthZ in *. destruct (i <? 0); [discriminate |].
  rewrite nth_error_app1; [exact H |]. apply nth_error_Some. congruence.
Qed.

Lemma inv_find_set : forall a v m, inv_find a (inv_set a v m) = Some v.
Proof.
  intros a v m. unfold inv_set, inv_erase.
  induction m as [| [k w] r IH]; cbn [filter app inv_find fst].
  - rewrite Z.eqb_refl. reflexivity.
  - destruct (Z.eqb_spec k a); cbn [negb]; [exact IH |].
    cbn [app inv_find]. destruct (Z.eqb_spec k a); [contradiction | exact IH].
Qed.

(* useFreeID(id) for a controller that is in no entry, when the oldest queued
   address has no inv_map entry yet (first controller for that address):
   the snapshot sent gives id exactly one entry, of the queued kind, whose slot
   holds the callback built from that address's port (so it sends to that
   address, C20_bijection_range_partial); every other
   controller keeps its entry and every older callback its slot *)
Theorem learn_new_address : forall ports n id a c q p,
  learnQ n = (a, c) :: q -> nthZ ports a = Some p ->
  inv_find a (inv_map n) = None ->
  ~ In id (mids (omap (nstorage n))) ->
  exists s' loc,
    nrt_useFreeID ports n id =
      Some ({| nstorage := Some s';
               inv_map := inv_set a (if c then (loc, id, -1, {| bmin := pmin p; bmax := pmax p |})
                                     else (loc, -1, id, {| bmin := pmin p; bmax := pmax p |}))
                            (inv_set a (loc, -1, -1, {| bmin := pmin p; bmax := pmax p |}) (inv_map n));
               learnQ := q |}, [RBind s' id]) /\
    find_map id (mapping s') = Some (id, c, loc) /\
    nthZ (callbacks s') loc = Some (mk_cb p a) /\
    (forall id', id' <> id -> find_map id' (mapping s') = find_map id' (omap (nstorage n))) /\
    (forall s i y, nstorage n = Some s -> nthZ (callbacks s) i = Some y -> nthZ (callbacks s') i = Some y).
Proof.
  intros ports n id a c q p Q Hp Hi F.
  unfold nrt_useFreeID. rewrite Q, Hp, Hi.
  set (ns := gen_new (nstorage n) p a).
  set (loc := zlen (callbacks ns) - 1).
  rewrite inv_find_set.
  cbn [im_loc im_co im_fi im_bi fst snd].
  assert (Hm : mapping ns = omap (nstorage n)) by (unfold ns, gen_new; destruct (nstorage n); reflexivity).
  change (-1 =? -1) with true. cbn iota.
  destruct c.
  all: eexists; exists loc; split; [reflexivity |]; cbn [mapping callbacks values].
  all: repeat split.
  all: try (rewrite Hm; apply find_map_app_fresh; [exact F | reflexivity]).
  all: try (unfold loc, ns, gen_new; destruct (nstorage n) as [s0 |]; cbn [callbacks]; 
            [apply nthZ_app_last | reflexivity]).
  all: try (intros id' Hne; rewrite Hm; apply find_map_app_other; cbn; congruence).
  all: try (intros s0 i y Hs Hy; unfold ns, gen_new; rewrite Hs; cbn [callbacks]; apply nthZ_app_old; exact Hy).
Qed.

(* a controller without an entry in the snapshot the realtime side holds
   produces no parameter message (it may be offered for learning) *)
Theorem unassigned_silent : forall r id v r' m used,
  ~ In id (mids (omap (rstorage r))) ->
  rt_handleCC r id v = Some (r', m, used) -> m = None.
Proof.
  intros r id v r' m used F H. unfold rt_handleCC in H.
  destruct (rstorage r) as [s |] eqn:Es; cbn [omap] in F.
  - apply find_map_none in F. unfold store_handleCC in H. rewrite F in H.
    destruct (negb (pq_has (pending r) id) && negb (watch r =? 0)).
    + destruct (pq_insert (pending r) id); inversion H; reflexivity.
    + inversion H; reflexivity.
  - destruct (negb (pq_has (pending r) id) && negb (watch r =? 0)).
    + destruct (pq_insert (pending r) id); inversion H; reflexivity.
    + inversion H; reflexivity.
Qed.

(* the realtime side's mapping after a midi-bind is the snapshot's: with the
   two theorems above, what a learn / unMap did to the snapshot is what the
   realtime side does from the delivery on *)
Theorem bind_installs : forall r ns ans r', rt_deliver r (RBind ns ans) = Some r' ->
  exists s', rstorage r' = Some s' /\ mapping s' = mapping ns /\ callbacks s' = callbacks ns.
Proof.
  intros r ns ans r' H. cbn [rt_deliver] in H.
  destruct (if ans =? -1 then Some (pending r) else pq_pop (pending r)); [| discriminate].
  destruct (rstorage r) as [old |].
  - destruct (cloneValues ns old) as [ns' |] eqn:C; [| discriminate].
    inversion H; subst. exists ns'. cbn [rstorage]. unfold cloneValues in C.
    destruct (clone_outer _ _ _); [| discriminate]. inversion C; subst. auto.
  - inversion H; subst. exists ns. auto.
Qed.
