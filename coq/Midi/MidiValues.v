(* C20 - the value part of the refinement: the value slots of the snapshot the
   realtime side holds are the 14-bit compositions of the abstract per-controller
   7-bit values, through handleCC and through cloneValues (carry-over by
   controller id into a rebuilt snapshot) *)
From Coq Require Import List ZArith Bool Lia.
From RtoscV Require Import Midi.MidiModel Midi.MidiSpec Midi.MidiProofs Midi.MidiProto Midi.MidiNrt
  Midi.MidiInv Midi.MidiRefine.
Import ListNotations.
Local Open Scope Z_scope.

(* ---- list update, read back ---------------------------------------------------------- *)
Lemma nth_error_upd_nat : forall {A} (l : list A) i x l' j, upd_nat l i x = Some l' ->
  nth_error l' j = if Nat.eqb j i then Some x else nth_error l j.
Proof.
  induction l as [| h t IH]; intros i x l' j H; [destruct i; discriminate |].
  destruct i as [| i]; cbn [upd_nat] in H.
  - inversion H; subst. destruct j; reflexivity.
  - destruct (upd_nat t i x) as [t' |] eqn:E; [| discriminate]. inversion H; subst.
    destruct j as [| j]; [reflexivity |]. cbn [nth_error Nat.eqb]. apply IH. exact E.
Qed.

Lemma nthZ_updZ : forall {A} (l : list A) i x l' j, updZ l i x = Some l' -> 0 <= j ->
  nthZ l' j = if j =? i then Some x else nthZ l j.
Proof.
  intros A l i x l' j H Hj. unfold updZ in H. destruct (Z.ltb_spec i 0); [discriminate |].
  unfold nthZ. destruct (Z.ltb_spec j 0); [lia |].
  rewrite (nth_error_upd_nat _ _ _ _ _ H).
  destruct (Z.eqb_spec j i) as [-> | Ne]; [rewrite Nat.eqb_refl; reflexivity |].
  destruct (Nat.eqb_spec (Z.to_nat j) (Z.to_nat i)); [lia | reflexivity].
Qed.

Lemma updZ_len : forall {A} (l : list A) i x l', updZ l i x = Some l' -> zlen l' = zlen l.
Proof.
  intros A l i x l' H. destruct (updZ_Forall (fun _ => True) l i x l' H) as [_ L].
  - apply Forall_forall. auto.
  - exact Logic.I.
  - unfold zlen. rewrite L. reflexivity.
Qed.

(* ---- cloneValues: what ends up in each slot ------------------------------------------- *)
(* the 7-bit value controller j has in the old snapshot *)
Definition W7 (so : store) (j : Z) : Z :=
  match find_map j (mapping so) with
  | Some tj => match nthZ (values so) (me_ind tj) with
               | Some sv => extract7 (me_coarse tj) sv
               | None => 0
               end
  | None => 0
  end.

Definition slotp (loc : Z) (c : bool) (t : mapent) : bool :=
  (me_ind t =? loc) && Bool.eqb (me_coarse t) c.

Definition hp (so : store) (done : list mapent) (loc : Z) (c : bool) : Z :=
  match find (slotp loc c) done with Some t => W7 so (me_id t) | None => 0 end.

Definition tgt (so : store) (done : list mapent) (loc : Z) : Z :=
  hp so done loc true * 128 + hp so done loc false.

Lemma clone_inner_nomatch : forall ti r sv vals,
  (forall tj, In tj r -> me_id tj <> me_id ti) -> clone_inner ti r sv vals = Some vals.
Proof.
  induction r as [| tj r IH]; intros sv vals H; [reflexivity |]. cbn [clone_inner].
  destruct (Z.eqb_spec (me_id ti) (me_id tj)) as [E | E].
  - exfalso. apply (H tj (or_introl eq_refl)). congruence.
  - apply IH. intros t Ht. apply H. right. exact Ht.
Qed.

Lemma clone_inner_eq : forall ti somap sv vals, NoDup (mids somap) ->
  clone_inner ti somap sv vals =
  match find_map (me_id ti) somap with
  | Some tj => match nthZ sv (me_ind tj), nthZ vals (me_ind ti) with
               | Some s, Some d => updZ vals (me_ind ti) (blit (me_coarse ti) (extract7 (me_coarse tj) s) d)
               | _, _ => None
               end
  | None => Some vals
  end.
Proof.
  induction somap as [| tj r IH]; intros sv vals N; [reflexivity |].
  inversion N as [| ? ? Hn Nr]; subst. cbn [clone_inner find_map].
  rewrite (Z.eqb_sym (me_id tj) (me_id ti)).
  destruct (Z.eqb_spec (me_id ti) (me_id tj)) as [E | E]; [| apply IH; exact Nr].
  destruct (nthZ sv (me_ind tj)) as [s |]; [| reflexivity].
  destruct (nthZ vals (me_ind ti)) as [d |]; [| reflexivity].
  destruct (updZ vals (me_ind ti) _) as [v' |]; [| reflexivity].
  apply clone_inner_nomatch. intros t Ht Eq. apply Hn. rewrite <- E, <- Eq. apply in_mids. exact Ht.
Qed.

Lemma find_app : forall {A} (f : A -> bool) l1 l2,
  find f (l1 ++ l2) = match find f l1 with Some x => Some x | None => find f l2 end.
Proof. induction l1 as [| x l1 IH]; intros; cbn; [reflexivity |]. destruct (f x); [reflexivity | apply IH]. Qed.

Lemma W7_range : forall so j, Forall in14 (values so) -> 0 <= W7 so j < 128.
Proof.
  intros so j F. unfold W7. destruct (find_map j (mapping so)) as [tj |]; [| lia].
  destruct (nthZ (values so) (me_ind tj)) as [sv |] eqn:E; [| lia].
  apply extract7_range. eapply nthZ_Forall; eassumption.
Qed.

Lemma hp_range : forall so done loc c, Forall in14 (values so) -> 0 <= hp so done loc c < 128.
Proof. intros. unfold hp. destruct (find _ done); [apply W7_range; assumption | lia]. Qed.

Lemma compose14_parts : forall c v pc pf, 0 <= pc < 128 -> 0 <= pf < 128 ->
  compose14 c v (pc * 128 + pf) = (if c then v else pc) * 128 + (if c then pf else v).
Proof.
  intros c v pc pf Hc Hf. unfold compose14. destruct c.
  - f_equal. rewrite Z.add_comm, Z_mod_plus_full. apply Z.mod_small. lia.
  - f_equal. f_equal. rewrite Z.add_comm, Z_div_plus_full by lia. rewrite Z.div_small by lia. lia.
Qed.

Lemma hp_snoc : forall so done ti loc c,
  hp so (done ++ [ti]) loc c =
  match find (slotp loc c) done with
  | Some t => W7 so (me_id t)
  | None => if slotp loc c ti then W7 so (me_id ti) else 0
  end.
Proof.
  intros. unfold hp. rewrite find_app. cbn [find].
  destruct (find (slotp loc c) done); [reflexivity |]. destruct (slotp loc c ti); reflexivity.
Qed.

Lemma slotp_self : forall ti c, slotp (me_ind ti) c ti = Bool.eqb (me_coarse ti) c.
Proof. intros. unfold slotp. rewrite Z.eqb_refl. reflexivity. Qed.

Lemma slotp_other : forall ti loc c, loc <> me_ind ti -> slotp loc c ti = false.
Proof. intros. unfold slotp. destruct (Z.eqb_spec (me_ind ti) loc); [congruence | reflexivity]. Qed.

Lemma clone_outer_tgt : forall so rest done vals vals',
  NoDup (mids (mapping so)) -> Forall in14 (values so) ->
  NoDup (mids (done ++ rest)) ->
  (forall t1 t2, In t1 (done ++ rest) -> In t2 (done ++ rest) ->
     me_ind t1 = me_ind t2 -> me_coarse t1 = me_coarse t2 -> t1 = t2) ->
  (forall t, In t rest -> 0 <= me_ind t < zlen vals) ->
  (forall loc, 0 <= loc < zlen vals -> nthZ vals loc = Some (tgt so done loc)) ->
  clone_outer rest so vals = Some vals' ->
  zlen vals' = zlen vals /\
  forall loc, 0 <= loc < zlen vals -> nthZ vals' loc = Some (tgt so (done ++ rest) loc).
Proof.
  intros so. induction rest as [| ti r IH]; intros done vals vals' Nso Fso Nd Uq Rg Hv H.
  - cbn in H. inversion H; subst. rewrite app_nil_r. auto.
  - cbn [clone_outer] in H.
    destruct (clone_inner ti (mapping so) (values so) vals) as [v1 |] eqn:E1; [| discriminate].
    rewrite (clone_inner_eq _ _ _ _ Nso) in E1.
    set (l := me_ind ti) in *. set (c := me_coarse ti) in *.
    assert (Hl : 0 <= l < zlen vals) by (apply Rg; left; reflexivity).
    (* no earlier entry for this slot and kind *)
    assert (Fnone : find (slotp l c) done = None).
    { destruct (find (slotp l c) done) as [t |] eqn:Ff; [| reflexivity]. exfalso.
      apply find_some in Ff. destruct Ff as [Ht Hs]. unfold slotp in Hs.
      apply andb_true_iff in Hs. destruct Hs as [Hi Hc]. apply Z.eqb_eq in Hi. apply Bool.eqb_prop in Hc.
      assert (t = ti).
      { apply Uq; [apply in_app_iff; left; exact Ht | apply in_app_iff; right; left; reflexivity | exact Hi | exact Hc]. }
      subst t. rewrite mids_app in Nd. cbn [mids map] in Nd.
      apply NoDup_remove_2 in Nd. apply Nd. apply in_app_iff. left. apply in_mids. exact Ht. }
    assert (Hold : nthZ vals l = Some (tgt so done l)) by (apply Hv; exact Hl).
    assert (Step : zlen v1 = zlen vals /\
                   forall loc, 0 <= loc < zlen vals -> nthZ v1 loc = Some (tgt so (done ++ [ti]) loc)).
    { assert (Tg : forall loc, tgt so (done ++ [ti]) loc =
                     if loc =? l then compose14 c (W7 so (me_id ti)) (tgt so done l) else tgt so done loc).
      { intro loc. unfold tgt. rewrite !hp_snoc.
        destruct (Z.eqb_spec loc l) as [-> | Ne].
        - pose proof (hp_range so done l true Fso) as R1. pose proof (hp_range so done l false Fso) as R2.
          rewrite compose14_parts by assumption.
          unfold l. rewrite !slotp_self. fold l. fold c.
          unfold hp. destruct c; cbn [Bool.eqb]; rewrite Fnone; reflexivity.
        - rewrite !slotp_other by exact Ne. unfold hp.
          destruct (find (slotp loc true) done), (find (slotp loc false) done); reflexivity. }
      unfold W7 in Tg.
      destruct (find_map (me_id ti) (mapping so)) as [tj |] eqn:Fm.
      - destruct (nthZ (values so) (me_ind tj)) as [s |] eqn:Es; [| discriminate].
        rewrite Hold in E1.
        split; [eapply updZ_len; exact E1 |]. intros loc Hloc.
        rewrite (nthZ_updZ _ _ _ _ loc E1) by lia. rewrite Tg.
        destruct (Z.eqb_spec loc l) as [-> | Ne]; [| apply Hv; exact Hloc].
        f_equal. apply blit_compose.
        + apply extract7_range. eapply nthZ_Forall; eassumption.
        + pose proof (hp_range so done l true Fso). pose proof (hp_range so done l false Fso).
          unfold tgt. unfold in14. lia.
      - inversion E1; subst v1. split; [reflexivity |]. intros loc Hloc. rewrite Tg.
        destruct (Z.eqb_spec loc l) as [-> | Ne]; [| apply Hv; exact Hloc].
        rewrite Hold. f_equal.
        pose proof (hp_range so done l true Fso) as R1. pose proof (hp_range so done l false Fso) as R2.
        unfold tgt. rewrite compose14_parts by assumption.
        unfold hp. destruct c; rewrite Fnone; reflexivity. }
    destruct Step as [L1 S1].
    destruct (IH (done ++ [ti]) v1 vals' Nso Fso) as [L2 S2].
    + rewrite <- app_assoc. exact Nd.
    + rewrite <- app_assoc. exact Uq.
    + intros t Ht. rewrite L1. apply Rg. right. exact Ht.
    + intros loc Hloc. rewrite L1 in Hloc. apply S1. exact Hloc.
    + exact H.
    + split; [congruence |]. intros loc Hloc. rewrite <- app_assoc in S2. apply S2. rewrite L1. exact Hloc.
Qed.

Lemma nthZ_zeros : forall n loc, 0 <= loc < Z.of_nat n -> nthZ (zeros n) loc = Some 0.
Proof.
  intros n loc H. unfold nthZ, zeros. destruct (Z.ltb_spec loc 0); [lia |].
  rewrite nth_error_repeat by lia. reflexivity.
Qed.

Lemma cloneValues_tgt : forall ports ns so c, SW ports ns -> SW ports so ->
  cloneValues ns so = Some c ->
  mapping c = mapping ns /\ callbacks c = callbacks ns /\
  forall loc, 0 <= loc < zlen (values ns) -> nthZ (values c) loc = Some (tgt so (mapping ns) loc).
Proof.
  intros ports ns so c Wn Wo H. unfold cloneValues in H.
  destruct (clone_outer (mapping ns) so (zeros (length (values ns)))) as [vs |] eqn:E; [| discriminate].
  inversion H; subst c; clear H. cbn [mapping callbacks values]. split; [reflexivity |]. split; [reflexivity |].
  destruct (clone_outer_tgt so (mapping ns) [] (zeros (length (values ns))) vs) as [L S]; try assumption.
  - exact (sw_nodup _ _ Wo).
  - exact (sw_val _ _ Wo).
  - exact (sw_nodup _ _ Wn).
  - exact (sw_slot _ _ Wn).
  - intros t Ht. unfold zlen, zeros. rewrite repeat_length. apply (SW_ind_range _ _ _ Wn Ht).
  - intros loc Hloc. unfold zlen, zeros in Hloc. rewrite repeat_length in Hloc.
    rewrite nthZ_zeros by exact Hloc. reflexivity.
  - intros loc Hloc. apply S. unfold zlen, zeros. rewrite repeat_length. exact Hloc.
Qed.

(* ---- value slots vs abstract 7-bit values ---------------------------------------------- *)
Definition RVs (s : store) (T : atab) (v7 : list (Z * Z)) : Prop :=
  forall t cbk, In t (mapping s) -> nthZ (callbacks s) (me_ind t) = Some cbk ->
    nthZ (values s) (me_ind t) = Some (comp T v7 (cb_addr cbk)).

Definition V7ok (v7 : list (Z * Z)) : Prop := forall id, 0 <= v7_get v7 id < 128.

Lemma part_range : forall T v7 a c, V7ok v7 -> 0 <= part T v7 a c < 128.
Proof. intros T v7 a c H. unfold part. destruct (at_ctl (a, c) T); [apply H | lia]. Qed.

Lemma extract7_parts : forall c pc pf, 0 <= pc < 128 -> 0 <= pf < 128 ->
  extract7 c (pc * 128 + pf) = if c then pc else pf.
Proof.
  intros c pc pf Hc Hf. unfold extract7. destruct c.
  - rewrite Z.shiftr_div_pow2 by lia. change (2 ^ 7) with 128.
    rewrite Z.add_comm, Z_div_plus_full by lia. rewrite Z.div_small by lia. lia.
  - change 127 with (Z.ones 7). rewrite Z.land_ones by lia. change (2 ^ 7) with 128.
    rewrite Z.add_comm, Z_mod_plus_full. apply Z.mod_small. lia.
Qed.

Lemma find_map_lookup : forall ports s t, SW ports s -> In t (mapping s) ->
  exists a p, nthZ ports a = Some p /\ nthZ (callbacks s) (me_ind t) = Some (mk_cb p a) /\
              tbl_lookup s (me_id t) = Some (a, me_coarse t).
Proof.
  intros ports s t W Ht. destruct (sw_cb _ _ W t Ht) as [a [p [Hp Hc]]]. exists a, p.
  split; [exact Hp |]. split; [exact Hc |]. unfold tbl_lookup.
  rewrite (find_map_in _ _ (sw_nodup _ _ W) Ht), Hc, cb_addr_mk. reflexivity.
Qed.

Lemma at_find_ctl : forall T j k, Twf T -> at_find j T = Some k -> at_ctl k T = Some j.
Proof.
  intros T j k W H. apply (at_ctl_in _ _ _ (t_keys _ W)). apply (at_find_in _ _ _ (t_ids _ W)). exact H.
Qed.

Lemma at_ctl_find : forall T j k, Twf T -> at_ctl k T = Some j -> at_find j T = Some k.
Proof.
  intros T j k W H. apply (at_find_in _ _ _ (t_ids _ W)). apply (at_ctl_in _ _ _ (t_keys _ W)). exact H.
Qed.

Lemma W7_v7 : forall ports so T v7 j, SW ports so -> stab so T -> Twf T -> RVs so T v7 -> V7ok v7 ->
  W7 so j = match at_find j T with Some _ => v7_get v7 j | None => 0 end.
Proof.
  intros ports so T v7 j W St Tw Rv Ok. unfold W7. rewrite (St j).
  destruct (find_map j (mapping so)) as [tj |] eqn:Fm; [| rewrite tbl_lookup_none by exact Fm; reflexivity].
  destruct (find_map_some_in _ _ _ Fm) as [Ht Hid]. subst j.
  destruct (find_map_lookup _ _ _ W Ht) as [a [p [Hp [Hc Hl]]]]. rewrite Hl.
  rewrite (Rv tj _ Ht Hc), cb_addr_mk. unfold comp.
  rewrite extract7_parts by (apply part_range; exact Ok).
  assert (Hctl : at_ctl (a, me_coarse tj) T = Some (me_id tj)).
  { apply at_find_ctl; [exact Tw |]. rewrite (St (me_id tj)). exact Hl. }
  destruct (me_coarse tj); unfold part; rewrite Hctl; reflexivity.
Qed.

Definition carry (T : atab) (v7 : list (Z * Z)) (T' : atab) : list (Z * Z) :=
  map (fun e => (fst e, match at_find (fst e) T with Some _ => v7_get v7 (fst e) | None => 0 end)) T'.

Lemma v7_get_map : forall (g : Z -> Z) (T' : atab) j,
  v7_get (map (fun e => (fst e, g (fst e))) T') j =
  match at_find j T' with Some _ => g j | None => 0 end.
Proof.
  intros g T' j. unfold v7_get. induction T' as [| [i k] r IH]; [reflexivity |].
  cbn [map find fst at_find]. destruct (Z.eqb_spec i j) as [-> | Ne]; [reflexivity | exact IH].
Qed.

Lemma slot_ctl : forall ports ns T' t cbk k, SW ports ns -> stab ns T' -> Twf T' ->
  In t (mapping ns) -> nthZ (callbacks ns) (me_ind t) = Some cbk ->
  match find (slotp (me_ind t) k) (mapping ns) with
  | Some t1 => at_ctl (cb_addr cbk, k) T' = Some (me_id t1)
  | None => at_ctl (cb_addr cbk, k) T' = None
  end.
Proof.
  intros ports ns T' t cbk k W St Tw Ht Hc.
  destruct (find (slotp (me_ind t) k) (mapping ns)) as [t1 |] eqn:Ff.
  - apply find_some in Ff. destruct Ff as [H1 Hs]. unfold slotp in Hs.
    apply andb_true_iff in Hs. destruct Hs as [Hi Hk]. apply Z.eqb_eq in Hi. apply Bool.eqb_prop in Hk.
    destruct (find_map_lookup _ _ _ W H1) as [a [p [Hp [Hc1 Hl]]]].
    rewrite Hi, Hc in Hc1. inversion Hc1; subst cbk. rewrite cb_addr_mk.
    apply at_find_ctl; [exact Tw |]. rewrite (St (me_id t1)), Hl, Hk. reflexivity.
  - destruct (at_ctl (cb_addr cbk, k) T') as [j |] eqn:Fc; [| reflexivity]. exfalso.
    apply (at_ctl_find _ _ _ Tw) in Fc. rewrite (St j) in Fc. unfold tbl_lookup in Fc.
    destruct (find_map j (mapping ns)) as [tj |] eqn:Fm; [| discriminate].
    destruct (find_map_some_in _ _ _ Fm) as [Hj _].
    destruct (nthZ (callbacks ns) (me_ind tj)) as [cbj |] eqn:Hcj; [| discriminate].
    inversion Fc as [[Ea Ek]].
    assert (Ei : me_ind tj = me_ind t) by (eapply (sw_addr _ _ W tj t); eassumption).
    pose proof (find_none _ _ Ff tj Hj) as Hn. unfold slotp in Hn.
    rewrite Ei, Z.eqb_refl, Ek, Bool.eqb_reflx in Hn. discriminate.
Qed.

(* cloneValues re-establishes the relation for the new table and the carried values *)
Lemma clone_RVs : forall ports ns so c T T' v7,
  SW ports ns -> SW ports so -> stab ns T' -> Twf T' -> stab so T -> Twf T -> RVs so T v7 -> V7ok v7 ->
  cloneValues ns so = Some c -> RVs c T' (carry T v7 T').
Proof.
  intros ports ns so c T T' v7 Wn Wo Sn Tn So To Rv Ok H.
  destruct (cloneValues_tgt ports ns so c Wn Wo H) as [Em [Ec Hv]].
  intros t cbk Ht Hc. rewrite Em in Ht. rewrite Ec in Hc.
  destruct (SW_ind_range _ _ _ Wn Ht) as [_ Rg].
  rewrite (Hv _ Rg). f_equal. unfold tgt, comp.
  assert (P : forall k, hp so (mapping ns) (me_ind t) k = part T' (carry T v7 T') (cb_addr cbk) k).
  { intro k. unfold hp, part. pose proof (slot_ctl ports ns T' t cbk k Wn Sn Tn Ht Hc) as L.
    destruct (find (slotp (me_ind t) k) (mapping ns)) as [t1 |]; rewrite L; [| reflexivity].
    unfold carry. rewrite (v7_get_map (fun j => match at_find j T with Some _ => v7_get v7 j | None => 0 end)).
    rewrite (at_ctl_find _ _ _ Tn L).
    apply (W7_v7 ports so T v7 (me_id t1) Wo So To Rv Ok). }
  rewrite !P. reflexivity.
Qed.

Lemma carry_ok : forall T v7 T', V7ok v7 -> V7ok (carry T v7 T').
Proof.
  intros T v7 T' Ok id. unfold carry.
  rewrite (v7_get_map (fun j => match at_find j T with Some _ => v7_get v7 j | None => 0 end)).
  destruct (at_find id T'); [| lia]. destruct (at_find id T); [apply Ok | lia].
Qed.

(* ---- handleCC --------------------------------------------------------------------------- *)
Lemma v7_get_cons : forall id v v7 j, v7_get ((id, v) :: v7) j = if id =? j then v else v7_get v7 j.
Proof. intros. unfold v7_get. cbn [find fst snd]. destruct (id =? j); reflexivity. Qed.

Lemma part_set_other : forall T id v v7 a2 k a c, Twf T -> at_find id T = Some (a, c) -> (a2, k) <> (a, c) ->
  part T ((id, v) :: v7) a2 k = part T v7 a2 k.
Proof.
  intros T id v v7 a2 k a c W F Ne. unfold part.
  destruct (at_ctl (a2, k) T) as [j |] eqn:Fc; [| reflexivity].
  rewrite v7_get_cons. destruct (Z.eqb_spec id j) as [-> | N]; [| reflexivity].
  apply (at_ctl_find _ _ _ W) in Fc. congruence.
Qed.

Lemma part_set_self : forall T id v v7 a c, Twf T -> at_find id T = Some (a, c) ->
  part T ((id, v) :: v7) a c = v.
Proof.
  intros T id v v7 a c W F. unfold part. rewrite (at_find_ctl _ _ _ W F), v7_get_cons, Z.eqb_refl. reflexivity.
Qed.

Lemma comp_set : forall T id v v7 a c, Twf T -> at_find id T = Some (a, c) -> V7ok v7 ->
  comp T ((id, v) :: v7) a = compose14 c v (comp T v7 a) /\
  forall a2, a2 <> a -> comp T ((id, v) :: v7) a2 = comp T v7 a2.
Proof.
  intros T id v v7 a c W F Ok. split.
  - unfold comp at 2. rewrite compose14_parts by (apply part_range; exact Ok). unfold comp.
    destruct c.
    + rewrite (part_set_self T id v v7 a true W F).
      rewrite (part_set_other T id v v7 a false a true W F) by congruence. reflexivity.
    + rewrite (part_set_self T id v v7 a false W F).
      rewrite (part_set_other T id v v7 a true a false W F) by congruence. reflexivity.
  - intros a2 Ne. unfold comp.
    rewrite !(part_set_other T id v v7 a2 _ a c W F) by congruence. reflexivity.
Qed.

Lemma handle_RVs : forall ports s T v7 id v t,
  SW ports s -> stab s T -> Twf T -> RVs s T v7 -> V7ok v7 -> 0 <= v < 128 ->
  find_map id (mapping s) = Some t ->
  exists a p vs, nthZ ports a = Some p /\ at_find id T = Some (a, me_coarse t) /\
    store_handleCC s id v =
      Some ({| mapping := mapping s; callbacks := callbacks s; values := vs |},
            Some (run_cb (mk_cb p a) (comp T ((id, v) :: v7) a))) /\
    RVs {| mapping := mapping s; callbacks := callbacks s; values := vs |} T ((id, v) :: v7) /\
    V7ok ((id, v) :: v7).
Proof.
  intros ports s T v7 id v t W St Tw Rv Ok Hv Fm.
  destruct (find_map_some_in _ _ _ Fm) as [Ht Hid].
  destruct (find_map_lookup _ _ _ W Ht) as [a [p [Hp [Hc Hl]]]]. rewrite Hid in Hl.
  assert (Fa : at_find id T = Some (a, me_coarse t)) by (rewrite (St id); exact Hl).
  pose proof (Rv t _ Ht Hc) as Hold. rewrite cb_addr_mk in Hold.
  assert (Ro : 0 <= comp T v7 a < 16384).
  { pose proof (part_range T v7 a true Ok). pose proof (part_range T v7 a false Ok). unfold comp. lia. }
  destruct (compose_14bit s id v t _ _ Fm Hold Hc Hv Ro) as [vs [Hu [Hh _]]].
  destruct (comp_set T id v v7 a (me_coarse t) Tw Fa Ok) as [Cs Co].
  exists a, p, vs. split; [exact Hp |]. split; [exact Fa |]. split; [rewrite Cs; exact Hh |]. split.
  - intros t2 cbk2 H2 Hc2. cbn [mapping callbacks values] in *.
    destruct (SW_ind_range _ _ _ W H2) as [_ R2].
    rewrite (nthZ_updZ _ _ _ _ (me_ind t2) Hu) by lia.
    destruct (Z.eqb_spec (me_ind t2) (me_ind t)) as [E | Ne].
    + rewrite E, Hc in Hc2. inversion Hc2; subst cbk2. rewrite cb_addr_mk, Cs. reflexivity.
    + rewrite (Rv t2 _ H2 Hc2). f_equal. symmetry. apply Co.
      intro Ea. apply Ne. eapply (sw_addr _ _ W t2 t); try eassumption. rewrite cb_addr_mk. exact Ea.
  - intro j. rewrite v7_get_cons. destruct (id =? j); [exact Hv | apply Ok].
Qed.

(* ---- the relation with values, one step --------------------------------------------------- *)
Record Rel2 (w : world) (al : astate) : Prop := {
  r2_rel : Rel w al;
  r2_v : match rstorage (wr w) with Some s => RVs s (a_rtab al) (a_v7 al) | None => True end;
  r2_ok : V7ok (a_v7 al);
  r2_twf : Twf (a_rtab al)
}.

Lemma Rel2_0 : Rel2 world0 astate0.
Proof.
  constructor; cbn.
  - apply Rel0.
  - exact I.
  - intro id. cbn. lia.
  - constructor; [constructor | constructor | intros i k []].
Qed.

Definition noOM (o : obs) : Prop := match o with OM _ => False | _ => True end.

Lemma erase_eq : forall o o', map erase o = map erase o' -> Forall noOM o' -> o = o'.
Proof.
  induction o as [| x o IH]; intros [| y o'] H F; try discriminate; [reflexivity |].
  cbn [map] in H. inversion H as [[Hx Ho]]. inversion F; subst. f_equal; [| apply IH; assumption].
  destruct x, y; cbn in *; try congruence; try contradiction.
Qed.

Lemma noOM_out : forall out, Forall noOM (map obs_of_amsg out).
Proof. induction out as [| m r IH]; cbn; constructor; [destruct m; exact I | exact IH]. Qed.

(* events of the non-realtime side leave the realtime side and its abstract copy alone *)
Definition nrt_event (e : event) : bool :=
  match e with EMap _ _ | EUnmap _ _ | EClear | EDelN => true | _ => false end.

Lemma step_nrt_wr : forall ports w e w' o, nrt_event e = true -> step ports w e = Some (w', o) -> wr w' = wr w.
Proof.
  intros ports w e w' o He H. destruct e; try discriminate; cbn [step] in H; unfold nrt_result in H.
  - destruct (nrt_map (wn w) a c) as [[? ?] |]; inversion H; reflexivity.
  - destruct (nrt_unmap (wn w) a c) as [[? ?] |]; inversion H; reflexivity.
  - cbn in H. inversion H; reflexivity.
  - destruct (chN w); [inversion H; reflexivity |].
    destruct (nrt_useFreeID ports (wn w) z) as [[? ?] |]; inversion H; reflexivity.
Qed.

Lemma astep_nrt : forall ports al e, nrt_event e = true ->
  a_rtab (fst (astep ports al e)) = a_rtab al /\ a_v7 (fst (astep ports al e)) = a_v7 al /\
  Forall noOM (snd (astep ports al e)).
Proof.
  intros ports al e He. destruct e; try discriminate; cbn [astep].
  - destruct (qmem a c (a_queue al)); [cbn; auto |].
    destruct (a_unmap_out al (a, c)) as [t out]. cbn [fst snd a_send a_rtab a_v7].
    split; [reflexivity |]. split; [reflexivity | apply noOM_out].
  - destruct (a_unmap_out al (a, c)) as [t out]. cbn [fst snd a_send a_rtab a_v7].
    split; [reflexivity |]. split; [reflexivity | apply noOM_out].
  - cbn [fst snd a_send a_rtab a_v7]. split; [reflexivity |]. split; [reflexivity | apply noOM_out].
  - destruct (a_chN al); [cbn; repeat constructor |].
    destruct (a_queue al); cbn [fst snd a_send a_rtab a_v7]; repeat constructor.
Qed.

Section Sim2.
  Variable U : list Z.
  Hypothesis U_small : (length U <= 32)%nat.
  Variable ports : list port.

  Lemma Rel2_step : forall w al e w' o,
    Rel2 w al -> Inv U ports w -> ev_ok U e -> evok ports e ->
    step ports w e = Some (w', o) ->
    o = snd (astep ports al e) /\ Rel2 w' (fst (astep ports al e)).
  Proof.
    intros w al e w' o [R Rv Ok Tw] HI E1 E2 St.
    destruct (Rel_step U U_small ports w al e w' o R HI E1 E2 St) as [Eo R'].
    destruct (nrt_event e) eqn:Ne.
    - (* non-realtime events *)
      destruct (astep_nrt ports al e Ne) as [A1 [A2 A3]].
      split; [apply erase_eq; assumption |].
      pose proof (step_nrt_wr ports w e w' o Ne St) as Ew.
      constructor; [exact R' | rewrite Ew, A1, A2; exact Rv | rewrite A2; exact Ok | rewrite A1; exact Tw].
    - destruct HI as [HG HJ]. destruct HJ as [Jn Jcn Jcr [Wq Ws]].
      pose proof (r_rt _ _ R) as Rrt.
      destruct e; try discriminate.
      + (* CC *)
        destruct E2 as [Hid Hv]. cbn [step] in St. cbn [astep] in *.
        set (id := cc_id par chan nrpn) in *.
        destruct (rt_handleCC (wr w) id val) as [[[r' m] used] |] eqn:H; [| discriminate].
        inversion St; subst w' o; clear St. unfold rt_handleCC in H.
        destruct (rstorage (wr w)) as [s |] eqn:Es.
        * destruct (find_map id (mapping s)) as [t |] eqn:Fm.
          -- destruct (handle_RVs ports s _ _ id val t Ws Rrt Tw Rv Ok Hv Fm)
               as [a [p [vs [Hp [Fa [Hh [Rv' Ok']]]]]]].
             rewrite Hh in H. inversion H; subst r' m used; clear H.
             rewrite Fa, Hp in *. cbn [fst snd app] in *.
             split; [reflexivity |].
             constructor; cbn [wn wr rstorage a_rtab a_v7]; assumption.
          -- assert (Ln : at_find id (a_rtab al) = None).
             { rewrite (Rrt id). apply tbl_lookup_none. exact Fm. }
             rewrite Ln in *.
             unfold store_handleCC in H. rewrite Fm in H.
             assert (A3 : Forall noOM (snd (if negb (mem_z id (a_pend al)) && negb (a_watch al =? 0)
                          then ({| a_queue := a_queue al; a_tab := a_tab al; a_chN := a_chN al ++ [id];
                                   a_chR := a_chR al; a_rtab := a_rtab al; a_v7 := a_v7 al;
                                   a_pend := a_pend al ++ [id]; a_watch := a_watch al - 1 |}, [OU id])
                          else (al, [])))).
             { destruct (negb (mem_z id (a_pend al)) && negb (a_watch al =? 0)); cbn; repeat constructor. }
             split; [apply erase_eq; assumption |].
             assert (Hs' : rstorage r' = Some s).
             { destruct (negb (pq_has (pending (wr w)) id) && negb (watch (wr w) =? 0)).
               - destruct (pq_insert (pending (wr w)) id); inversion H; reflexivity.
               - inversion H; reflexivity. }
             destruct (negb (mem_z id (a_pend al)) && negb (a_watch al =? 0));
               (constructor; cbn [fst wn wr a_rtab a_v7]; [exact R' | rewrite Hs'; exact Rv | exact Ok | exact Tw]).
        * assert (Ln : at_find id (a_rtab al) = None) by (rewrite Rrt; reflexivity).
          rewrite Ln in *.
          assert (A3 : Forall noOM (snd (if negb (mem_z id (a_pend al)) && negb (a_watch al =? 0)
                       then ({| a_queue := a_queue al; a_tab := a_tab al; a_chN := a_chN al ++ [id];
                                a_chR := a_chR al; a_rtab := a_rtab al; a_v7 := a_v7 al;
                                a_pend := a_pend al ++ [id]; a_watch := a_watch al - 1 |}, [OU id])
                       else (al, [])))).
          { destruct (negb (mem_z id (a_pend al)) && negb (a_watch al =? 0)); cbn; repeat constructor. }
          split; [apply erase_eq; assumption |].
          assert (Hs' : rstorage r' = None).
          { destruct (negb (pq_has (pending (wr w)) id) && negb (watch (wr w) =? 0)).
            - destruct (pq_insert (pending (wr w)) id); inversion H; reflexivity.
            - inversion H; reflexivity. }
          destruct (negb (mem_z id (a_pend al)) && negb (a_watch al =? 0));
            (constructor; cbn [fst wn wr a_rtab a_v7]; [exact R' | rewrite Hs'; exact I | exact Ok | exact Tw]).
      + (* deliver to RT *)
        cbn [step] in St. cbn [astep] in *.
        pose proof (r_cr _ _ R) as Rcr.
        destruct (chR w) as [| m rest] eqn:ER; destruct (a_chR al) as [| am arest] eqn:EA;
          try (inversion Rcr; fail).
        * inversion St; subst w' o. cbn [fst snd] in *. split; [reflexivity |].
          constructor; [exact R' | exact Rv | exact Ok | exact Tw].
        * inversion Rcr as [| ? ? ? ? Hm Hrest]; subst.
          inversion Jcr as [| ? ? Hmok _]; subst.
          destruct (rt_deliver (wr w) m) as [r' |] eqn:D; [| discriminate].
          inversion St; subst w' o; clear St.
          destruct Hm as [| | ns T' ans Hst HTw]; cbn [rt_deliver] in D; cbn [fst snd] in *.
          -- inversion D; subst r'. split; [reflexivity |].
             constructor; cbn [wn wr rstorage a_rtab a_v7]; assumption.
          -- inversion D; subst r'. split; [reflexivity |].
             constructor; cbn [wn wr rstorage a_rtab a_v7]; assumption.
          -- split; [reflexivity |]. destruct Hmok as [Wns Zns].
             destruct (if ans =? -1 then Some (pending (wr w)) else pq_pop (pending (wr w))) as [p' |]; [| discriminate].
             constructor; cbn [wn wr a_rtab a_v7]; try assumption.
             ++ destruct (rstorage (wr w)) as [old |] eqn:Es.
                ** destruct (cloneValues ns old) as [c |] eqn:C; [| discriminate].
                   inversion D; subst r'. cbn [rstorage].
                   apply (clone_RVs ports ns old c (a_rtab al) T' (a_v7 al)); assumption.
                ** inversion D; subst r'. cbn [rstorage].
                   intros t cbk Ht Hc. destruct (SW_ind_range _ _ _ Wns Ht) as [_ Rg].
                   destruct (nthZ_some _ _ Rg) as [v0 Hv0]. rewrite Hv0.
                   pose proof (nthZ_Forall _ _ _ _ Hv0 Zns) as Z0. cbn beta in Z0. subst v0.
                   f_equal. unfold comp, part.
                   assert (G : forall j, v7_get (map (fun e => (fst e, match at_find (fst e) (a_rtab al) with
                                            | Some _ => v7_get (a_v7 al) (fst e) | None => 0 end)) T') j = 0).
                   { intro j. rewrite (v7_get_map (fun j => match at_find j (a_rtab al) with
                                          | Some _ => v7_get (a_v7 al) j | None => 0 end)).
                     rewrite Rrt. cbn [at_find]. destruct (at_find j T'); reflexivity. }
                   destruct (at_ctl (cb_addr cbk, true) T'), (at_ctl (cb_addr cbk, false) T');
                     rewrite ?G; reflexivity.
             ++ apply (carry_ok (a_rtab al) (a_v7 al) T'). exact Ok.
  Qed.
End Sim2.

Lemma refine_run_values : forall U ports, (length U <= 32)%nat ->
  forall evs w al tr fin,
  Inv U ports w -> Rel2 w al -> Forall (ev_ok U) evs -> Forall (evok ports) evs ->
  run ports w evs = (tr, fin) ->
  tr = arun ports al evs.
Proof.
  intros U ports US. induction evs as [| e es IH]; intros w al tr fin HI HR E1 E2 Hr.
  - cbn in Hr. inversion Hr; subst. reflexivity.
  - inversion E1; subst. inversion E2; subst.
    destruct (Inv_step U ports w e US HI H1 H3) as [w' [o [S Nx]]].
    cbn [run] in Hr. rewrite S in Hr. destruct (run ports w' es) as [tr' fin'] eqn:R.
    inversion Hr; subst tr fin; clear Hr.
    destruct (Rel2_step U US ports w al e w' o HR HI H1 H3 S) as [Eo HR'].
    cbn [arun]. destruct (astep ports al e) as [al' o'] eqn:A. cbn [fst snd] in Eo, HR'.
    rewrite Eo. f_equal.
    apply (IH w' al' tr' fin' Nx HR' H2 H4 R).
Qed.

(* Every history, whatever the order in which the two halves' messages are
   delivered: the model's records - parameter messages with their values
   included - are exactly the abstract specification's. *)
Theorem refine_values : forall ports evs tr fin U,
  (length U <= 32)%nat -> incl (ccids evs) U -> Forall (evok ports) evs ->
  run ports world0 evs = (tr, fin) ->
  tr = arun ports astate0 evs.
Proof.
  intros ports evs tr fin U US Hi He Hr.
  eapply (refine_run_values U ports US); try eassumption.
  - apply Inv_init.
  - apply Rel2_0.
  - apply ev_ok_all; [assumption | eapply evok_ccids; eassumption].
Qed.
