(* C20 - refinement: on every nocross history the model (index vectors,
   inv_map, snapshots, value slots, pending ring) produces exactly the records
   of the abstract specification MidiSpec.astep (finite map controller ->
   (address, kind), FIFO of waiting addresses, 7-bit values) *)
From Coq Require Import List ZArith Bool Lia.
From RtoscV Require Import Midi.MidiModel Midi.MidiSpec Midi.MidiProofs Midi.MidiProto Midi.MidiNrt Midi.MidiHandshake Midi.MidiInv.
Import ListNotations.
Local Open Scope Z_scope.

(* ---- the abstract table ------------------------------------------------------------- *)
Lemma ak_eqb_spec : forall x y, reflect (x = y) (ak_eqb x y).
Proof.
  intros [a c] [a' c']. unfold ak_eqb. cbn [fst snd].
  destruct (Z.eqb_spec a a'); destruct (Bool.eqb_spec c c'); cbn; constructor; congruence.
Qed.

Record Twf (T : atab) : Prop := {
  t_ids : NoDup (map fst T);
  t_keys : NoDup (map snd T);
  t_pos : forall i k, In (i, k) T -> 0 <= i
}.

Lemma at_find_in : forall T i k, NoDup (map fst T) -> (In (i, k) T <-> at_find i T = Some k).
Proof.
  induction T as [| [j k'] r IH]; intros i k N; cbn [at_find In]; [split; [tauto | discriminate] |].
  inversion N as [| ? ? Hn Nr]; subst. destruct (Z.eqb_spec j i) as [-> | Ne].
  - split; [intros [E | H]; [congruence | exfalso; apply Hn; change i with (fst (i, k)); apply in_map; exact H]
           | intro E; left; congruence].
  - rewrite <- (IH i k Nr). split; [intros [E | H]; [congruence | exact H] | tauto].
Qed.

Lemma at_ctl_in : forall T i k, NoDup (map snd T) -> (In (i, k) T <-> at_ctl k T = Some i).
Proof.
  induction T as [| [j k'] r IH]; intros i k N; cbn [at_ctl In]; [split; [tauto | discriminate] |].
  inversion N as [| ? ? Hn Nr]; subst. destruct (ak_eqb_spec k' k) as [-> | Ne].
  - split; [intros [E | H]; [congruence | exfalso; apply Hn; change k with (snd (i, k)); apply in_map; exact H]
           | intro E; left; congruence].
  - rewrite <- (IH i k Nr). split; [intros [E | H]; [congruence | exact H] | tauto].
Qed.

Lemma at_ctl_remove : forall k T k2,
  at_ctl k2 (at_remove k T) = if ak_eqb k2 k then None else at_ctl k2 T.
Proof.
  intros k T k2. unfold at_remove. induction T as [| [j k'] r IH]; cbn [filter at_ctl snd].
  - destruct (ak_eqb k2 k); reflexivity.
  - destruct (ak_eqb_spec k' k) as [E1 | Ne]; cbn [negb].
    + rewrite IH. destruct (ak_eqb_spec k2 k) as [E2 | N2]; [reflexivity |].
      destruct (ak_eqb_spec k' k2); [congruence | reflexivity].
    + cbn [at_ctl]. destruct (ak_eqb_spec k' k2) as [E3 | N3].
      * destruct (ak_eqb_spec k2 k); [congruence | reflexivity].
      * exact IH.
Qed.

Lemma map_filter_incl : forall {A B} (f : A -> B) g l x, In x (map f (filter g l)) -> In x (map f l).
Proof.
  intros A B f g l x H. apply in_map_iff in H. destruct H as [y [E I]]. apply filter_In in I.
  apply in_map_iff. exists y. tauto.
Qed.

Lemma NoDup_map_filter : forall {A B} (f : A -> B) g l, NoDup (map f l) -> NoDup (map f (filter g l)).
Proof.
  induction l as [| x l IH]; intro N; [constructor |]. inversion N as [| ? ? Hn Nl]; subst.
  cbn [filter]. destruct (g x); [| auto]. cbn [map]. constructor; [| auto].
  intro H. apply Hn. eapply map_filter_incl; eassumption.
Qed.

Lemma Twf_remove : forall k T, Twf T -> Twf (at_remove k T).
Proof.
  intros k T [A B C]. unfold at_remove. constructor.
  - apply NoDup_map_filter; assumption.
  - apply NoDup_map_filter; assumption.
  - intros i k2 H. apply filter_In in H. eapply C. apply H.
Qed.

Lemma at_find_none : forall T i, at_find i T = None <-> ~ In i (map fst T).
Proof.
  induction T as [| [j k] r IH]; intro i; cbn [at_find map In fst]; [tauto |].
  destruct (Z.eqb_spec j i); [split; [discriminate | tauto] |]. rewrite IH. tauto.
Qed.

Lemma at_ctl_none : forall T k, at_ctl k T = None <-> ~ In k (map snd T).
Proof.
  induction T as [| [j k'] r IH]; intro k; cbn [at_ctl map In snd]; [tauto |].
  destruct (ak_eqb_spec k' k); [split; [discriminate | tauto] |]. rewrite IH. tauto.
Qed.

Lemma NoDup_snoc_any : forall {A} (l : list A) x, NoDup l -> ~ In x l -> NoDup (l ++ [x]).
Proof. intros. apply NoDup_snoc_gen; assumption. Qed.

Lemma Twf_add : forall T id k, Twf T -> at_find id T = None -> at_ctl k T = None -> 0 <= id ->
  Twf (T ++ [(id, k)]).
Proof.
  intros T id k [A B C] F K P. constructor.
  - rewrite map_app. apply NoDup_snoc_any; [assumption | apply at_find_none; assumption].
  - rewrite map_app. apply NoDup_snoc_any; [assumption | apply at_ctl_none; assumption].
  - intros i k2 H. apply in_app_iff in H. destruct H as [H | [E | []]]; [eauto | congruence].
Qed.

Lemma at_ctl_app : forall T id k k2,
  at_ctl k2 (T ++ [(id, k)]) =
  match at_ctl k2 T with Some i => Some i | None => if ak_eqb k k2 then Some id else None end.
Proof.
  induction T as [| [j k'] r IH]; intros; cbn [app at_ctl]; [reflexivity |].
  destruct (ak_eqb k' k2); [reflexivity | apply IH].
Qed.

Lemma at_find_app : forall T id k i,
  at_find i (T ++ [(id, k)]) =
  match at_find i T with Some x => Some x | None => if id =? i then Some k else None end.
Proof.
  induction T as [| [j k'] r IH]; intros; cbn [app at_find]; [reflexivity |].
  destruct (j =? i); [reflexivity | apply IH].
Qed.

(* ---- non-realtime side: akind is the abstract table --------------------------------- *)
Definition ctl_or (T : atab) (a : Z) (c : bool) : Z :=
  match at_ctl (a, c) T with Some i => i | None => -1 end.

Definition NT (n : nrt) (T : atab) : Prop :=
  Twf T /\ forall a c, akind n a c = ctl_or T a c.

(* what a snapshot says about a controller *)
Definition tbl_lookup (s : store) (id : Z) : option (Z * bool) :=
  match find_map id (mapping s) with
  | Some t => match nthZ (callbacks s) (me_ind t) with
              | Some cbk => Some (cb_addr cbk, me_coarse t)
              | None => None
              end
  | None => None
  end.

Definition stab (s : store) (T : atab) : Prop := forall id, at_find id T = tbl_lookup s id.

Lemma find_map_some_in : forall id m t, find_map id m = Some t -> In t m /\ me_id t = id.
Proof.
  induction m as [| u r IH]; intros t H; [discriminate |]. cbn [find_map] in H.
  destruct (Z.eqb_spec (me_id u) id); [inversion H; subst; split; [left; reflexivity | first [assumption | reflexivity]] |].
  destruct (IH t H). split; [right; assumption | assumption].
Qed.

Lemma NT_stab : forall ports n s T, NI ports n -> nstorage n = Some s -> NT n T -> stab s T.
Proof.
  intros ports n s T I Es [W AK] id. unfold tbl_lookup.
  pose proof (ni_nodup _ _ I) as Nd. rewrite Es in Nd. cbn [omap] in Nd.
  destruct (at_find id T) as [[a c] |] eqn:F.
  - apply (at_find_in _ _ _ (t_ids _ W)) in F.
    pose proof (t_pos _ W _ _ F) as Hpos.
    apply (at_ctl_in _ _ _ (t_keys _ W)) in F.
    pose proof (AK a c) as K. unfold ctl_or in K. rewrite F in K. unfold akind in K.
    destruct (inv_find a (inv_map n)) as [im |] eqn:Fi; [| lia].
    destruct (ni_c1 _ _ I _ _ Fi) as [[p [Hp Hcb]] [Hin _]]. rewrite Es in Hcb, Hin. cbn [ocb omap] in *.
    assert (Hi : In (id, c, im_loc im) (mapping s)) by (rewrite <- K; apply Hin; lia).
    pose proof (find_map_in _ _ Nd Hi) as Fm. cbn [me_id fst] in Fm. rewrite Fm.
    cbn [me_ind me_coarse snd fst]. rewrite Hcb, cb_addr_mk. reflexivity.
  - destruct (find_map id (mapping s)) as [t |] eqn:Fm; [| reflexivity].
    exfalso. destruct (find_map_some_in _ _ _ Fm) as [Ht Hid].
    pose proof (ni_c2 _ _ I) as C2. rewrite Es in C2. cbn [omap] in C2.
    destruct (C2 t Ht) as [a [im [Fi [Hl Hk]]]].
    pose proof (AK a (me_coarse t)) as K. unfold akind in K. rewrite Fi, Hk, Hid in K.
    unfold ctl_or in K.
    pose proof (ni_pos _ _ I) as P0. rewrite Es in P0. cbn [omap] in P0. rewrite Forall_forall in P0.
    specialize (P0 _ (in_mids _ _ Ht)). rewrite Hid in P0.
    destruct (at_ctl (a, me_coarse t) T) as [i |] eqn:Fc; [| lia]. subst i.
    apply (at_ctl_in _ _ _ (t_keys _ W)) in Fc. apply (at_find_in _ _ _ (t_ids _ W)) in Fc. congruence.
Qed.

Lemma stab_same : forall s s' T, mapping s' = mapping s -> callbacks s' = callbacks s ->
  stab s T -> stab s' T.
Proof. intros s s' T M C H id. rewrite (H id). unfold tbl_lookup. rewrite M, C. reflexivity. Qed.

Lemma NT_in_mapping : forall ports n T id k, NI ports n -> NT n T -> at_find id T = Some k ->
  In id (mids (omap (nstorage n))).
Proof.
  intros ports n T id [a c] I [W AK] F.
  apply (at_find_in _ _ _ (t_ids _ W)) in F. pose proof (t_pos _ W _ _ F) as Hpos.
  apply (at_ctl_in _ _ _ (t_keys _ W)) in F.
  pose proof (AK a c) as K. unfold ctl_or in K. rewrite F in K. unfold akind in K.
  destruct (inv_find a (inv_map n)) as [im |] eqn:Fi; [| lia].
  destruct (ni_c1 _ _ I _ _ Fi) as [_ [Hin _]].
  assert (Hi : In (id, c, im_loc im) (omap (nstorage n))) by (rewrite <- K; apply Hin; lia).
  apply in_mids in Hi. exact Hi.
Qed.

Lemma ctl_or_some : forall T a c, Twf T -> (ctl_or T a c <> -1 <-> exists i, at_ctl (a, c) T = Some i).
Proof.
  intros T a c W. unfold ctl_or. destruct (at_ctl (a, c) T) as [i |] eqn:E.
  - apply (at_ctl_in _ _ _ (t_keys _ W)) in E. pose proof (t_pos _ W _ _ E). split; [eauto | lia].
  - split; [lia | intros [i H]; discriminate].
Qed.

Lemma ak_eqb_pair : forall a2 c2 a c, ak_eqb (a2, c2) (a, c) = (a2 =? a) && Bool.eqb c2 c.
Proof. reflexivity. Qed.

Lemma ak_eqb_sym : forall x y, ak_eqb x y = ak_eqb y x.
Proof. intros x y. destruct (ak_eqb_spec x y), (ak_eqb_spec y x); congruence. Qed.

(* unMap's effect on both sides *)
Lemma NT_unmap : forall n n' T a c, NT n T ->
  (forall a2 c2, akind n' a2 c2 = if (a2 =? a) && Bool.eqb c2 c then -1 else akind n a2 c2) ->
  NT n' (match at_ctl (a, c) T with Some _ => at_remove (a, c) T | None => T end).
Proof.
  intros n n' T a c [W AK] E.
  destruct (at_ctl (a, c) T) as [i |] eqn:F.
  - split; [apply Twf_remove; exact W |]. intros a2 c2. rewrite E, AK. unfold ctl_or.
    rewrite at_ctl_remove, ak_eqb_pair. destruct ((a2 =? a) && Bool.eqb c2 c); reflexivity.
  - split; [exact W |]. intros a2 c2. rewrite E, AK. rewrite <- ak_eqb_pair.
    destruct (ak_eqb_spec (a2, c2) (a, c)) as [Eq | Ne]; [| reflexivity].
    inversion Eq; subst. unfold ctl_or. rewrite F. reflexivity.
Qed.

(* ---- the simulation relation --------------------------------------------------------- *)
Inductive crel : rmsg -> amsg -> Prop :=
| cr_w : crel RWatch AWatch
| cr_r : crel RUnwatch AUnwatch
| cr_b s T ans : stab s T -> Twf T -> crel (RBind s ans) (ABind T (negb (ans =? -1))).

Lemma cr_b_ans : forall s T id, 0 <= id -> stab s T -> Twf T -> crel (RBind s id) (ABind T true).
Proof.
  intros s T id H A B. replace true with (negb (id =? -1)); [constructor; assumption |].
  destruct (Z.eqb_spec id (-1)); [lia | reflexivity].
Qed.

Lemma cr_b_f : forall s T, stab s T -> Twf T -> crel (RBind s (-1)) (ABind T false).
Proof. intros s T A B. exact (cr_b s T (-1) A B). Qed.

Record Rel (w : world) (al : astate) : Prop := {
  r_q : learnQ (wn w) = a_queue al;
  r_nt : NT (wn w) (a_tab al);
  r_cn : chN w = a_chN al;
  r_cr : Forall2 crel (chR w) (a_chR al);
  r_rt : match rstorage (wr w) with Some s => stab s (a_rtab al) | None => a_rtab al = [] end;
  r_pend : pq_rep (pending (wr w)) (a_pend al);
  r_watch : watch (wr w) = a_watch al
}.

Lemma Rel0 : Rel world0 astate0.
Proof.
  constructor; cbn [world0 astate0 wn wr chN chR nrt0 rt0 learnQ a_queue a_tab a_chN a_chR a_rtab
                    a_pend a_watch rstorage pending watch].
  - reflexivity.
  - split; [constructor; [constructor | constructor | intros i k []] | intros a c; reflexivity].
  - reflexivity.
  - constructor.
  - reflexivity.
  - apply pq_rep0.
  - reflexivity.
Qed.

(* records compared up to the value a parameter message carries *)
Definition erase (o : obs) : obs :=
  match o with OM m => OM {| maddr := maddr m; mvalue := VInt 0 |} | x => x end.

Lemma pq_rep_unique : forall q P P', pq_rep q P -> pq_rep q P' -> P = P'.
Proof.
  intros q P P' R R'.
  assert (L : length P = length P').
  { pose proof (pr_size _ _ R). pose proof (pr_size _ _ R'). unfold zlen in *. lia. }
  apply (nth_ext _ _ (-1) (-1) L). intros i Hi.
  pose proof (pr_cap _ _ R) as C. unfold zlen in C.
  assert (Hz : 0 <= Z.of_nat i < 32) by lia.
  pose proof (pr_slot _ _ R _ Hz) as S1. pose proof (pr_slot _ _ R' _ Hz) as S2.
  rewrite Nat2Z.id in S1, S2. congruence.
Qed.

Lemma mem_z_in : forall x l, mem_z x l = true <-> In x l.
Proof.
  intros x l. unfold mem_z. rewrite existsb_exists. split.
  - intros [y [H E]]. apply Z.eqb_eq in E. subst. exact H.
  - intro H. exists x. split; [exact H | apply Z.eqb_refl].
Qed.

Lemma tbl_lookup_none : forall s id, find_map id (mapping s) = None -> tbl_lookup s id = None.
Proof. intros s id H. unfold tbl_lookup. rewrite H. reflexivity. Qed.

Lemma obs_out_eq : forall out aout, Forall2 crel out aout ->
  map obs_of_rmsg out = map obs_of_amsg aout.
Proof. induction 1 as [| m a l l' H _ IH]; [reflexivity |]. cbn. rewrite IH. destruct H; reflexivity. Qed.

Lemma erase_out : forall out, map erase (map obs_of_rmsg out) = map obs_of_rmsg out.
Proof. induction out as [| m r IH]; [reflexivity |]. cbn. rewrite IH. destruct m; reflexivity. Qed.

(* unMap seen from both sides (used by map as well) *)
Lemma unmap_sim : forall ports n T a c n' out,
  NI ports n -> NT n T -> nrt_unmap n a c = Some (n', out) ->
  let T' := match at_ctl (a, c) T with Some _ => at_remove (a, c) T | None => T end in
  NI ports n' /\ NT n' T' /\ learnQ n' = learnQ n /\
  Forall2 crel out (match at_ctl (a, c) T with Some _ => [ABind T' false] | None => [] end).
Proof.
  intros ports n T a c n' out I N E T'.
  destruct (NI_unmap ports n a c I) as [n1 [out1 [E1 [I1 [LQ [AK OS]]]]]].
  rewrite E in E1. inversion E1; subst n1 out1; clear E1.
  pose proof (NT_unmap n n' T a c N AK) as N'. fold T' in N'.
  split; [exact I1 |]. split; [exact N' |]. split; [exact LQ |].
  destruct N as [W AKn].
  pose proof (ctl_or_some T a c W) as CS. rewrite <- AKn in CS.
  destruct (Z.eqb_spec (akind n a c) (-1)) as [K | K].
  - destruct OS as [-> _].
    destruct (at_ctl (a, c) T) as [i |] eqn:F; [| constructor].
    exfalso. apply CS; eauto.
  - destruct OS as [s' [-> Es]].
    destruct (at_ctl (a, c) T) as [i |] eqn:F.
    + constructor; [| constructor]. constructor; [eapply NT_stab; eassumption | apply N'].
    + exfalso. apply CS in K. destruct K; discriminate.
Qed.

Section Sim.
  Variable U : list Z.
  Hypothesis U_small : (length U <= 32)%nat.
  Variable ports : list port.

  Lemma Rel_step : forall w al e w' o,
    Rel w al -> Inv U ports w -> ev_ok U e -> evok ports e ->
    step ports w e = Some (w', o) ->
    map erase o = map erase (snd (astep ports al e)) /\ Rel w' (fst (astep ports al e)).
  Proof.
    intros w al e w' o R [[tg [P0 HG]] HJ] E1 E2 St.
    pose proof (HP_pre U w tg P0 e HG) as [Nn [Nr Pre]].
    destruct R as [Rq Rnt Rcn Rcr Rrt Rp Rw]. destruct HJ as [Jn Jcn Jcr Jr].
    destruct e; cbn [step] in St; cbn [astep].
    - (* map *)
      unfold nrt_result in St. destruct (nrt_map (wn w) a c) as [[n' out] |] eqn:M; [| discriminate].
      inversion St; subst w' o; clear St. cbn [app].
      unfold nrt_map in M. rewrite Rq in M. rewrite <- Rq.
      rewrite Rq. destruct (qmem a c (a_queue al)) eqn:Qm.
      + inversion M; subst n' out. cbn [fst snd map]. split; [reflexivity |].
        rewrite app_nil_r. constructor; assumption.
      + destruct (nrt_unmap (wn w) a c) as [[n1 out0] |] eqn:Um; [| discriminate].
        inversion M; subst n' out; clear M.
        destruct (unmap_sim ports _ _ a c _ _ Jn Rnt Um) as [I1 [N1 [LQ CR]]].
        unfold a_unmap_out.
        destruct (at_ctl (a, c) (a_tab al)) as [i |] eqn:F; cbn [fst snd].
        * split.
          -- rewrite erase_out. f_equal. rewrite (obs_out_eq (out0 ++ [RWatch]) ([ABind (at_remove (a, c) (a_tab al)) false] ++ [AWatch])).
             ++ clear. induction (_ ++ _) as [| m l IH]; [reflexivity |]. cbn. rewrite <- IH. destruct m; reflexivity.
             ++ apply Forall2_app; [exact CR | repeat constructor].
          -- constructor; cbn [wn wr chN chR nstorage inv_map learnQ a_send a_queue a_tab a_chN a_chR a_rtab a_pend a_watch];
               try assumption.
             ++ rewrite LQ, Rq. reflexivity.
             ++ apply Forall2_app; [assumption |]. apply Forall2_app; [exact CR | repeat constructor].
        * split.
          -- rewrite erase_out. inversion CR; subst. reflexivity.
          -- constructor; cbn [wn wr chN chR nstorage inv_map learnQ a_send a_queue a_tab a_chN a_chR a_rtab a_pend a_watch];
               try assumption.
             ++ rewrite LQ, Rq. reflexivity.
             ++ apply Forall2_app; [assumption |]. apply Forall2_app; [exact CR | repeat constructor].
    - (* unMap *)
      unfold nrt_result in St. destruct (nrt_unmap (wn w) a c) as [[n' out] |] eqn:Um; [| discriminate].
      inversion St; subst w' o; clear St. cbn [app].
      destruct (unmap_sim ports _ _ a c _ _ Jn Rnt Um) as [I1 [N1 [LQ CR]]].
      unfold a_unmap_out.
      destruct (at_ctl (a, c) (a_tab al)) as [i |] eqn:F; cbn [fst snd].
      + split.
        * rewrite erase_out. rewrite (obs_out_eq _ _ CR).
          cbn. reflexivity.
        * constructor; cbn [wn wr chN chR a_send a_queue a_tab a_chN a_chR a_rtab a_pend a_watch]; try assumption.
          -- congruence.
          -- apply Forall2_app; assumption.
      + split.
        * inversion CR; subst. reflexivity.
        * constructor; cbn [wn wr chN chR a_send a_queue a_tab a_chN a_chR a_rtab a_pend a_watch]; try assumption.
          -- congruence.
          -- apply Forall2_app; assumption.
    - (* clear *)
      cbn [nrt_clear nrt_result] in St. inversion St; subst w' o; clear St. cbn [app fst snd].
      assert (CR : Forall2 crel (map (fun _ => RUnwatch) (learnQ (wn w)) ++ [RBind empty_store (-1)])
                               (map (fun _ => AUnwatch) (a_queue al) ++ [ABind [] false])).
      { rewrite Rq. apply Forall2_app.
        - clear. induction (a_queue al); cbn; constructor; [constructor | assumption].
        - constructor; [| constructor]. constructor; [intro id; reflexivity |].
          constructor; [constructor | constructor | intros i k []]. }
      split.
      + rewrite erase_out. rewrite (obs_out_eq _ _ CR).
        clear. induction (_ ++ _) as [| m l IH]; [reflexivity |]. cbn. rewrite <- IH. destruct m; reflexivity.
      + constructor; cbn [wn wr chN chR nstorage inv_map learnQ a_send a_queue a_tab a_chN a_chR a_rtab a_pend a_watch];
          try assumption; try reflexivity.
        * split; [constructor; [constructor | constructor | intros i k []] | intros a c; reflexivity].
        * apply Forall2_app; assumption.
    - (* CC *)
      destruct E1 as [HU _]. destruct E2 as [Hid Hv].
      set (id := cc_id par chan nrpn) in *.
      destruct (rt_handleCC (wr w) id val) as [[[r' m] used] |] eqn:H; [| discriminate].
      inversion St; subst w' o; clear St.
      unfold rt_handleCC in H.
      assert (Look : at_find id (a_rtab al) =
                     match rstorage (wr w) with Some s => tbl_lookup s id | None => None end).
      { destruct (rstorage (wr w)); [apply Rrt | rewrite Rrt; reflexivity]. }
      destruct Jr as [Wq Ws].
      (* handled by the snapshot? *)
      destruct (rstorage (wr w)) as [s |] eqn:Es.
      + unfold store_handleCC in H. unfold tbl_lookup in Look.
        destruct (find_map id (mapping s)) as [t |] eqn:Fm.
        * destruct (find_map_some_in _ _ _ Fm) as [Ht _].
          destruct (sw_cb _ _ Ws t Ht) as [a [p [Hp Hcb]]].
          destruct (SW_ind_range _ _ _ Ws Ht) as [_ Rv].
          destruct (nthZ_some _ _ Rv) as [old Ho]. rewrite Ho, Hcb in H.
          destruct (updZ (values s) (me_ind t) (blit (me_coarse t) val old)) as [vs |]; [| discriminate].
          inversion H; subst r' m used; clear H.
          rewrite Hcb, cb_addr_mk in Look. rewrite Look, Hp. cbn [fst snd app map erase maddr].
          split.
          -- unfold run_cb, cb_gen, mk_cb.
             destruct (dyeqb (pmin p) (dy_of_Z 0) && dyeqb (pmax p) (dy_of_Z 127) && pint p);
               [| destruct (pint p)]; reflexivity.
          -- constructor; cbn [wn wr chN chR rstorage pending watch a_queue a_tab a_chN a_chR a_rtab a_pend a_watch];
               try assumption.
        * rewrite Look.
          assert (Hin : pq_has (pending (wr w)) id = mem_z id (a_pend al)).
          { destruct (mem_z id (a_pend al)) eqn:Mz.
            - apply (pq_has_spec _ _ id Rp); [lia | apply mem_z_in; exact Mz].
            - destruct (pq_has (pending (wr w)) id) eqn:Ph; [| reflexivity].
              apply (pq_has_spec _ _ id Rp) in Ph; [| lia]. apply mem_z_in in Ph. congruence. }
          rewrite Hin, Rw in H.
          destruct (negb (mem_z id (a_pend al)) && negb (a_watch al =? 0)) eqn:Off.
          -- destruct (pq_insert (pending (wr w)) id) as [p' |] eqn:Ins; [| discriminate].
             inversion H; subst r' m used; clear H. cbn [fst snd app map erase].
             split; [reflexivity |].
             apply andb_true_iff in Off. destruct Off as [O1 O2].
             assert (Nin : ~ In id (a_pend al)).
             { intro Hi. apply mem_z_in in Hi. rewrite Hi in O1. discriminate. }
             destruct HG as [A GIi]. rename P0 into P.
             pose proof (pq_rep_unique _ _ _ (h_rep _ _ _ _ _ _ _ _ GIi) Rp) as EP. subst P.
             assert (Hcap : zlen (a_pend al) < 32).
             { assert (N2 : NoDup (id :: a_pend al)) by (constructor; [exact Nin | exact (h_nodup _ _ _ _ _ _ _ _ GIi)]).
               assert (I2 : incl (id :: a_pend al) U).
               { intros x [<- | Hx]; [exact HU | apply (h_inU _ _ _ _ _ _ _ _ GIi); exact Hx]. }
               pose proof (NoDup_incl_length N2 I2) as L. cbn [length] in L. unfold zlen. lia. }
             destruct (pq_insert_spec _ _ id Rp) as [q' [Eq Rq']]; try assumption; try lia.
             rewrite Ins in Eq. inversion Eq; subst q'.
             constructor; cbn [wn wr chN chR rstorage pending watch a_queue a_tab a_chN a_chR a_rtab a_pend a_watch];
               try assumption.
             ++ rewrite Rcn. reflexivity.
             ++ try rewrite Rw; reflexivity.
          -- inversion H; subst r' m used; clear H. cbn [fst snd app map erase].
             split; [reflexivity |].
             constructor; cbn [wn wr chN chR rstorage pending watch]; first [assumption | reflexivity].
      + rewrite Look.
        assert (Hin : pq_has (pending (wr w)) id = mem_z id (a_pend al)).
        { destruct (mem_z id (a_pend al)) eqn:Mz.
          - apply (pq_has_spec _ _ id Rp); [lia | apply mem_z_in; exact Mz].
          - destruct (pq_has (pending (wr w)) id) eqn:Ph; [| reflexivity].
            apply (pq_has_spec _ _ id Rp) in Ph; [| lia]. apply mem_z_in in Ph. congruence. }
        rewrite Hin, Rw in H.
        destruct (negb (mem_z id (a_pend al)) && negb (a_watch al =? 0)) eqn:Off.
        * destruct (pq_insert (pending (wr w)) id) as [p' |] eqn:Ins; [| discriminate].
          inversion H; subst r' m used; clear H. cbn [fst snd app map erase].
          split; [reflexivity |].
          apply andb_true_iff in Off. destruct Off as [O1 O2].
          assert (Nin : ~ In id (a_pend al)).
          { intro Hi. apply mem_z_in in Hi. rewrite Hi in O1. discriminate. }
          destruct HG as [A GIi]. rename P0 into P.
          pose proof (pq_rep_unique _ _ _ (h_rep _ _ _ _ _ _ _ _ GIi) Rp) as EP. subst P.
          assert (Hcap : zlen (a_pend al) < 32).
          { assert (N2 : NoDup (id :: a_pend al)) by (constructor; [exact Nin | exact (h_nodup _ _ _ _ _ _ _ _ GIi)]).
            assert (I2 : incl (id :: a_pend al) U).
            { intros x [<- | Hx]; [exact HU | apply (h_inU _ _ _ _ _ _ _ _ GIi); exact Hx]. }
            pose proof (NoDup_incl_length N2 I2) as L. cbn [length] in L. unfold zlen. lia. }
          destruct (pq_insert_spec _ _ id Rp) as [q' [Eq Rq']]; try assumption; try lia.
          rewrite Ins in Eq. inversion Eq; subst q'.
          constructor; cbn [wn wr chN chR rstorage pending watch a_queue a_tab a_chN a_chR a_rtab a_pend a_watch];
            try assumption.
          -- rewrite Rcn. reflexivity.
          -- try rewrite Rw; reflexivity.
        * inversion H; subst r' m used; clear H. cbn [fst snd app map erase].
          split; [reflexivity |].
          constructor; cbn [wn wr chN chR rstorage pending watch]; try assumption; try reflexivity.
    - (* deliver to nRT *)
      rewrite <- Rcn. destruct (chN w) as [| id rest] eqn:EN.
      + inversion St; subst w' o; clear St. cbn [fst snd]. split; [reflexivity |].
        constructor; try assumption. rewrite EN. exact Rcn.
      + rename Pre into Fresh. inversion Jcn as [| ? ? Hid Hrest]; subst.
        rewrite <- Rq. destruct (learnQ (wn w)) as [| [a c] q] eqn:LQ.
        { (* no address waits: the unchanged table is the answer *)
          rewrite (useFreeID_null ports (wn w) id LQ) in St. cbn [nrt_result] in St.
          inversion St; subst w' o; clear St.
          cbn [fst snd map obs_of_rmsg app hd_error erase].
          split; [reflexivity |].
          pose proof (NI_null ports (wn w) Jn) as I'.
          assert (N' : NT {| nstorage := Some (same_store (nstorage (wn w))); inv_map := inv_map (wn w); learnQ := [] |}
                          (a_tab al)).
          { destruct Rnt as [W AKn]. split; [exact W | exact AKn]. }
          constructor; cbn [wn wr chN chR a_send a_queue a_tab a_chN a_chR a_rtab a_pend a_watch nstorage learnQ];
            try assumption; try reflexivity.
          apply Forall2_app; [assumption |]. constructor; [| constructor].
          apply cr_b_ans; [exact Hid | eapply NT_stab; [exact I' | reflexivity | exact N'] | apply N']. }
        destruct (NI_use ports (wn w) id a c q Jn LQ Hid Fresh) as [n' [s' [E [I' [Es [Lq AK]]]]]].
        rewrite E in St. cbn [nrt_result] in St. inversion St; subst w' o; clear St.
        cbn [fst snd map obs_of_rmsg app hd_error erase].
        split; [reflexivity |].
        destruct Rnt as [W AKn].
        assert (Fc : at_ctl (a, c) (a_tab al) = None).
        { destruct (at_ctl (a, c) (a_tab al)) as [i |] eqn:F; [| reflexivity]. exfalso.
          assert (Hq : In (a, c) (learnQ (wn w))) by (rewrite LQ; left; reflexivity).
          destruct (ni_q _ _ Jn a c Hq) as [_ Qk].
          pose proof (AKn a c) as K. unfold ctl_or in K. rewrite F in K.
          apply (at_ctl_in _ _ _ (t_keys _ W)) in F. pose proof (t_pos _ W _ _ F).
          unfold akind in K. destruct (inv_find a (inv_map (wn w))) as [im |] eqn:Fi; [| lia].
          rewrite (Qk im eq_refl) in K. lia. }
        assert (Ff : at_find id (a_tab al) = None).
        { destruct (at_find id (a_tab al)) as [k |] eqn:F; [| reflexivity]. exfalso. apply Fresh.
          eapply NT_in_mapping; [exact Jn | split; [exact W | exact AKn] | exact F]. }
        assert (N' : NT n' (a_tab al ++ [(id, (a, c))])).
        { split; [apply Twf_add; assumption |].
          intros a2 c2. rewrite AK, AKn. unfold ctl_or. rewrite at_ctl_app.
          rewrite <- ak_eqb_pair, (ak_eqb_sym (a2, c2) (a, c)).
          destruct (ak_eqb_spec (a, c) (a2, c2)) as [Eq | Ne].
          - inversion Eq; subst. rewrite Fc. reflexivity.
          - destruct (at_ctl (a2, c2) (a_tab al)); reflexivity. }
        constructor; cbn [wn wr chN chR a_send a_queue a_tab a_chN a_chR a_rtab a_pend a_watch]; try assumption;
          try reflexivity.
        apply Forall2_app; [assumption |]. constructor; [| constructor].
        apply cr_b_ans; [exact Hid | eapply NT_stab; eassumption | apply N'].
    - (* deliver to RT *)
      destruct (chR w) as [| m rest] eqn:ER; destruct (a_chR al) as [| am arest] eqn:EA;
        try (inversion Rcr; fail).
      + inversion St; subst w' o; clear St. cbn [fst snd]. split; [reflexivity |].
        constructor; try assumption. rewrite ER, EA. constructor.
      + inversion Rcr as [| ? ? ? ? Hm Hrest]; subst.
        destruct (rt_deliver (wr w) m) as [r' |] eqn:D; [| discriminate].
        inversion St; subst w' o; clear St.
        destruct Hm as [| | s T ans Hst HTw]; cbn [rt_deliver] in D; cbn [fst snd map].
        * inversion D; subst r'. split; [reflexivity |].
          constructor; cbn [wn wr chN chR rstorage pending watch a_queue a_tab a_chN a_chR a_rtab a_pend a_watch];
            try assumption. try rewrite Rw; reflexivity.
        * inversion D; subst r'. split; [reflexivity |].
          constructor; cbn [wn wr chN chR rstorage pending watch a_queue a_tab a_chN a_chR a_rtab a_pend a_watch];
            try assumption. try rewrite Rw; reflexivity.
        * split; [reflexivity |].
          destruct (bind_installs _ _ _ _ D) as [s2 [Es2 [M2 C2]]].
          destruct (deliver_bind_fact _ _ _ _ D) as [_ [Hpop Hw]].
          constructor; cbn [wn wr chN chR a_queue a_tab a_chN a_chR a_rtab a_pend a_watch]; try assumption.
          -- rewrite Es2. eapply stab_same; eassumption.
          -- destruct (Z.eqb_spec ans (-1)) as [Ea | Ea]; cbn [negb].
             ++ replace (pending r') with (pending (wr w)) by congruence. exact Rp.
             ++ destruct (a_pend al) as [| x P] eqn:EP.
                ** rewrite (pq_pop_nil _ Rp) in Hpop. replace (pending r') with (pending (wr w)) by congruence. exact Rp.
                ** destruct (pq_pop_spec _ _ _ Rp) as [q' [Eq Rq']]. rewrite Hpop in Eq. inversion Eq; subst q'. exact Rq'.
          -- rewrite Hw. exact Rw.
  Qed.
End Sim.

Lemma refine_run : forall U ports, (length U <= 32)%nat ->
  forall evs w al tr fin,
  Inv U ports w -> Rel w al -> Forall (ev_ok U) evs -> Forall (evok ports) evs ->
  run ports w evs = (tr, fin) ->
  map (map erase) tr = map (map erase) (arun ports al evs).
Proof.
  intros U ports US. induction evs as [| e es IH]; intros w al tr fin HI HR E1 E2 Hr.
  - cbn in Hr. inversion Hr; subst. reflexivity.
  - inversion E1; subst. inversion E2; subst.
    destruct (Inv_step U ports w e US HI H1 H3) as [w' [o [S Nx]]].
    cbn [run] in Hr. rewrite S in Hr. destruct (run ports w' es) as [tr' fin'] eqn:R.
    inversion Hr; subst tr fin; clear Hr.
    destruct (Rel_step U US ports w al e w' o HR HI H1 H3 S) as [Eo HR'].
    cbn [arun]. destruct (astep ports al e) as [al' o'] eqn:A. cbn [fst snd] in Eo, HR'.
    cbn [map]. f_equal; [exact Eo |].
    apply (IH w' al' tr' fin' Nx HR' H2 H4 R).
Qed.

(* Every history (<= 32 controllers, 7-bit values, mapped addresses in the
   port table), whatever the delivery order: the model's records are those of
   the abstract specification, event by event - the same queue traffic, the
   same assignments (controller, address, kind), a parameter message exactly
   where the abstract table has the controller and to the address it says
   (erase drops only the value a message carries). *)
Theorem refine_all : forall ports evs tr fin U,
  (length U <= 32)%nat -> incl (ccids evs) U -> Forall (evok ports) evs ->
  run ports world0 evs = (tr, fin) ->
  map (map erase) tr = map (map erase) (arun ports astate0 evs).
Proof.
  intros ports evs tr fin U US Hi He Hr.
  eapply (refine_run U ports US); try eassumption.
  - apply Inv_init.
  - apply Rel0.
  - apply ev_ok_all; [assumption | eapply evok_ccids; eassumption].
Qed.

(* on a sample history the abstract specification also reproduces the values *)
Lemma refine_example_with_values :
  let ports := [ {| pint := true;  pmin := (0, 0);  pmax := (127, 0) |};
                 {| pint := false; pmin := (0, 0);  pmax := (1, 0) |} ] in
  let evs := [ EMap 1 true; EDelR; ECC 5 64 1 false; EDelN; EDelR; ECC 5 127 1 false;
               EMap 1 false; EDelR; ECC 6 3 1 false; EDelN; EDelR; ECC 6 5 1 false;
               EMap 0 true; EDelR; ECC 7 9 1 false; EDelN; EDelR; ECC 7 100 1 false; ECC 5 2 1 false;
               EUnmap 1 true; EDelR; ECC 5 1 1 false; ECC 6 77 1 false; EClear; EDelR; ECC 6 1 1 false ] in
  fst (run ports world0 evs) = arun ports astate0 evs /\ nocross evs (fst (run ports world0 evs)) = true.
Proof. vm_compute. split; reflexivity. Qed.
