(* C20 - consistency of inv_map with the mapping / callback / value vectors,
   well-formedness of every snapshot (in flight and held by the realtime
   side), preserved by every event of a nocross history; crash-freedom *)
From Coq Require Import List ZArith Bool Lia.
From RtoscV Require Import Midi.MidiModel Midi.MidiSpec Midi.MidiProofs Midi.MidiProto Midi.MidiHandshake.
Import ListNotations.
Local Open Scope Z_scope.

(* ---- association list ------------------------------------------------------ *)
Lemma inv_find_erase : forall a a' m,
  inv_find a' (inv_erase a m) = if a' =? a then None else inv_find a' m.
Proof.
  intros a a' m. unfold inv_erase. induction m as [| [k v] r IH]; cbn [filter inv_find fst].
  - destruct (a' =? a); reflexivity.
  - destruct (Z.eqb_spec k a) as [E | E]; cbn [negb].
    + rewrite IH. destruct (Z.eqb_spec a' a) as [E2 | E2]; [reflexivity |].
      cbn [inv_find]. destruct (Z.eqb_spec k a'); [lia | reflexivity].
    + cbn [inv_find]. destruct (Z.eqb_spec k a') as [E2 | E2].
      * destruct (Z.eqb_spec a' a); [lia | reflexivity].
      * exact IH.
Qed.

Lemma inv_find_app : forall a m1 m2,
  inv_find a (m1 ++ m2) = match inv_find a m1 with Some v => Some v | None => inv_find a m2 end.
Proof.
  intros a m1 m2. induction m1 as [| [k v] r IH]; [reflexivity |].
  cbn [app inv_find]. destruct (k =? a); [reflexivity | exact IH].
Qed.

Lemma inv_find_set' : forall a a' v m,
  inv_find a' (inv_set a v m) = if a' =? a then Some v else inv_find a' m.
Proof.
  intros a a' v m. unfold inv_set. rewrite inv_find_app, inv_find_erase.
  destruct (Z.eqb_spec a' a) as [E | E].
  - cbn [inv_find]. subst. rewrite Z.eqb_refl. reflexivity.
  - destruct (inv_find a' m); [reflexivity |]. cbn [inv_find].
    destruct (Z.eqb_spec a a'); [lia | reflexivity].
Qed.

(* ---- mapping entries -------------------------------------------------------- *)
Lemma ids_inj : forall (m : list mapent) t1 t2, NoDup (mids m) -> In t1 m -> In t2 m ->
  me_id t1 = me_id t2 -> t1 = t2.
Proof.
  induction m as [| t r IH]; intros t1 t2 N I1 I2 E; [destruct I1 |].
  inversion N as [| ? ? Hn Nr]; subst.
  destruct I1 as [<- | I1]; destruct I2 as [<- | I2]; auto.
  - exfalso. apply Hn. rewrite E. apply in_map. exact I2.
  - exfalso. apply Hn. rewrite <- E. apply in_map. exact I1.
Qed.

Lemma in_mids : forall (t : mapent) m, In t m -> In (me_id t) (mids m).
Proof. intros. apply in_map. assumption. Qed.

Lemma filter_keep_in : forall id t m, In t (filter (keep id) m) <-> In t m /\ me_id t <> id.
Proof.
  intros. rewrite filter_In. unfold keep. destruct (Z.eqb_spec (me_id t) id); cbn; intuition congruence.
Qed.

Lemma filter_len_le : forall {A} (f : A -> bool) l, (length (filter f l) <= length l)%nat.
Proof. induction l as [| x l IH]; cbn; [lia |]. destruct (f x); cbn; lia. Qed.

Lemma filter_drops_one : forall id (m : list mapent), In id (mids m) ->
  (length (filter (keep id) m) < length m)%nat.
Proof.
  induction m as [| t r IH]; intro H; [destruct H |]. cbn [filter]. unfold keep at 1.
  destruct (Z.eqb_spec (me_id t) id) as [E | E]; cbn [negb length].
  - pose proof (filter_len_le (keep id) r). lia.
  - destruct H as [H | H]; [contradiction |]. specialize (IH H). lia.
Qed.

Lemma killMap_some : forall id s, In id (mids (mapping s)) -> NoDup (mids (mapping s)) ->
  killMap id s = Some {| mapping := filter (keep id) (mapping s); callbacks := callbacks s; values := values s |}.
Proof.
  intros id s I N. unfold killMap.
  pose proof (filter_keeps_most id (mapping s) N) as K.
  pose proof (filter_drops_one id (mapping s) I) as D.
  destruct (mapping s) as [| t rest] eqn:E; [destruct I |].
  change (fun t0 : mapent => negb (me_id t0 =? id)) with (keep id).
  set (kept := filter (keep id) (t :: rest)) in *. cbn [length] in K, D.
  destruct (Nat.leb_spec (length kept) (length rest)); [| lia].
  replace (length rest - length kept)%nat with 0%nat by lia. cbn [repeat]. rewrite app_nil_r. reflexivity.
Qed.

Lemma cb_addr_mk : forall p a, cb_addr (mk_cb p a) = a.
Proof. intros. unfold mk_cb. destruct (_ && _ && _); reflexivity. Qed.

Lemma nthZ_range : forall {A} (l : list A) i x, nthZ l i = Some x -> 0 <= i < zlen l.
Proof.
  intros A l i x H. unfold nthZ in H. destruct (Z.ltb_spec i 0); [discriminate |].
  assert (Z.to_nat i < length l)%nat by (apply nth_error_Some; congruence). unfold zlen. lia.
Qed.

Lemma nthZ_some : forall {A} (l : list A) i, 0 <= i < zlen l -> exists x, nthZ l i = Some x.
Proof.
  intros A l i H. unfold nthZ, zlen in *. destruct (Z.ltb_spec i 0); [lia |].
  destruct (nth_error l (Z.to_nat i)) eqn:E; [eauto |]. apply nth_error_None in E. lia.
Qed.

Lemma nthZ_nil : forall {A} i, @nthZ A [] i = None.
Proof. intros A i. unfold nthZ. destruct (i <? 0); [reflexivity |]. destruct (Z.to_nat i); reflexivity. Qed.

Lemma nthZ_app1 : forall {A} (l l' : list A) i x, nthZ l i = Some x -> nthZ (l ++ l') i = Some x.
Proof.
  intros A l l' i x H. unfold nthZ in *. destruct (i <? 0); [discriminate |].
  rewrite nth_error_app1; [exact H |]. apply nth_error_Some. congruence.
Qed.

Lemma nthZ_snoc : forall {A} (l : list A) x, nthZ (l ++ [x]) (zlen l) = Some x.
Proof.
  intros A l x. unfold nthZ, zlen. destruct (Z.ltb_spec (Z.of_nat (length l)) 0); [lia |].
  rewrite Nat2Z.id, nth_error_app2 by lia. rewrite Nat.sub_diag. reflexivity.
Qed.

(* ---- the invariant of the non-realtime half --------------------------------- *)
Definition ocb (o : option store) : list cb := match o with Some s => callbacks s | None => [] end.
Definition oval (o : option store) : list Z := match o with Some s => values s | None => [] end.
Definition kind_id (c : bool) (im : imap) : Z := if c then im_co im else im_fi im.

Record NI (ports : list port) (n : nrt) : Prop := {
  ni_len : length (oval (nstorage n)) = length (ocb (nstorage n));
  ni_zero : Forall (fun v => v = 0) (oval (nstorage n));
  ni_nodup : NoDup (mids (omap (nstorage n)));
  ni_pos : Forall (fun x => 0 <= x) (mids (omap (nstorage n)));
  ni_c1 : forall a im, inv_find a (inv_map n) = Some im ->
      (exists p, nthZ ports a = Some p /\ nthZ (ocb (nstorage n)) (im_loc im) = Some (mk_cb p a)) /\
      (forall c, kind_id c im <> -1 -> In (kind_id c im, c, im_loc im) (omap (nstorage n))) /\
      (im_co im <> -1 \/ im_fi im <> -1);
  ni_c2 : forall t, In t (omap (nstorage n)) ->
      exists a im, inv_find a (inv_map n) = Some im /\ im_loc im = me_ind t /\
                   kind_id (me_coarse t) im = me_id t;
  ni_q : forall a c, In (a, c) (learnQ n) ->
      (exists p, nthZ ports a = Some p) /\
      (forall im, inv_find a (inv_map n) = Some im -> kind_id c im = -1);
  ni_qnd : NoDup (learnQ n)
}.

Lemma NI0 : forall ports, NI ports nrt0.
Proof.
  intro ports. constructor; cbn; try (constructor; fail); try reflexivity.
  - intros x y H. discriminate.
  - intros x [].
  - intros x y [].
Qed.

(* two inv_map entries share no slot *)
Lemma NI_loc_addr : forall ports n a a' im im', NI ports n ->
  inv_find a (inv_map n) = Some im -> inv_find a' (inv_map n) = Some im' ->
  im_loc im = im_loc im' -> a = a'.
Proof.
  intros ports n a a' im im' I H H' E.
  destruct (ni_c1 _ _ I _ _ H) as [[p [_ C]] _]. destruct (ni_c1 _ _ I _ _ H') as [[p' [_ C']] _].
  rewrite E in C. rewrite C in C'. inversion C' as [M].
  rewrite <- (cb_addr_mk p a), <- (cb_addr_mk p' a'), M. reflexivity.
Qed.

(* the controller assigned to (address, kind) on the non-realtime side; -1 = none *)
Definition akind (n : nrt) (a : Z) (c : bool) : Z :=
  match inv_find a (inv_map n) with Some im => kind_id c im | None => -1 end.

Definition unmapped (c : bool) (im : imap) : imap :=
  if c then (im_loc im, -1, im_fi im, im_bi im) else (im_loc im, im_co im, -1, im_bi im).

Lemma unmapped_loc : forall c im, im_loc (unmapped c im) = im_loc im.
Proof. intros [] [[[? ?] ?] ?]; reflexivity. Qed.

Lemma unmapped_kind : forall c im c2,
  kind_id c2 (unmapped c im) = if Bool.eqb c2 c then -1 else kind_id c2 im.
Proof. intros [] [[[? ?] ?] ?] []; reflexivity. Qed.

Lemma unmapped_both : forall c im,
  (im_co (unmapped c im) =? -1) && (im_fi (unmapped c im) =? -1) = (kind_id (negb c) im =? -1).
Proof. intros [] [[[? ?] ?] ?]; cbn; rewrite ?andb_true_r; reflexivity. Qed.

Lemma unmapped_same : forall c im, kind_id c im = -1 -> unmapped c im = im.
Proof. intros [] [[[? ?] ?] ?]; cbn; intro; subst; reflexivity. Qed.

Lemma NI_same_lookup : forall ports n inv',
  NI ports n -> (forall a, inv_find a inv' = inv_find a (inv_map n)) ->
  NI ports {| nstorage := nstorage n; inv_map := inv'; learnQ := learnQ n |}.
Proof.
  intros ports n inv' I E. destruct I.
  constructor; cbn [nstorage inv_map learnQ]; try assumption.
  - intros a im H. rewrite E in H. auto.
  - intros t H. destruct (ni_c4 t H) as [a [im [F R]]]. exists a, im. rewrite E. auto.
  - intros a c H. destruct (ni_q0 a c H) as [P Q]. split; [exact P |]. intros im F. rewrite E in F. auto.
Qed.

Lemma Forall_filter : forall {A} (P : A -> Prop) f l, Forall P l -> Forall P (filter f l).
Proof. intros A P f l H. induction H; cbn; [constructor |]. destruct (f x); [constructor |]; assumption. Qed.

Lemma Forall_mids_filter : forall P f (m : list mapent), Forall P (mids m) -> Forall P (mids (filter f m)).
Proof.
  intros P f m H. rewrite Forall_forall in *. intros x Hx. apply H. eapply mids_filter_incl; eassumption.
Qed.

Lemma Forall_zeros : forall n, Forall (fun v => v = 0) (zeros n).
Proof. intro n. unfold zeros. induction n; cbn; constructor; auto. Qed.

Lemma neq_negb : forall x c : bool, x <> c -> negb c = x.
Proof. intros [] [] H; try reflexivity; exfalso; apply H; reflexivity. Qed.

Lemma eqb_negb_false : forall c, Bool.eqb (negb c) c = false.
Proof. intros []; reflexivity. Qed.

Lemma NI_unmap : forall ports n a c, NI ports n ->
  exists n' out, nrt_unmap n a c = Some (n', out) /\ NI ports n' /\ learnQ n' = learnQ n /\
    (forall a2 c2, akind n' a2 c2 = if (a2 =? a) && Bool.eqb c2 c then -1 else akind n a2 c2) /\
    (if akind n a c =? -1 then out = [] /\ nstorage n' = nstorage n
     else exists s', out = [RBind s' (-1)] /\ nstorage n' = Some s').
Proof.
  intros ports n a c I. unfold nrt_unmap.
  destruct (inv_find a (inv_map n)) as [im |] eqn:F.
  2:{ exists n, []. split; [reflexivity |]. split; [exact I |]. split; [reflexivity |].
      split.
      - intros a2 c2. destruct (Z.eqb_spec a2 a) as [-> | E]; cbn [andb]; [| reflexivity].
        destruct (Bool.eqb c2 c); [| reflexivity]. unfold akind. rewrite F. reflexivity.
      - unfold akind. rewrite F. cbn. auto. }
  cbv zeta.
  change (if c then im_co im else im_fi im) with (kind_id c im).
  fold (unmapped c im).
  rewrite unmapped_both.
  destruct (ni_c1 _ _ I _ _ F) as [[p [Hp Hcb]] [Hin Hor]].
  assert (AK : akind n a c = kind_id c im) by (unfold akind; rewrite F; reflexivity).
  rewrite AK.
  destruct (Z.eqb_spec (kind_id c im) (-1)) as [K | K].
  - (* nothing to kill: the entry stays as it is *)
    assert (Oth : kind_id (negb c) im <> -1).
    { destruct c; cbn [negb kind_id] in *; lia. }
    destruct (Z.eqb_spec (kind_id (negb c) im) (-1)); [contradiction |].
    rewrite (unmapped_same _ _ K).
    assert (E : forall a2, inv_find a2 (inv_set a im (inv_map n)) = inv_find a2 (inv_map n)).
    { intro a2. rewrite inv_find_set'. destruct (Z.eqb_spec a2 a); [subst; auto | reflexivity]. }
    eexists. exists []. split; [reflexivity |]. split; [apply NI_same_lookup; assumption |].
    split; [reflexivity |]. split; [| auto].
    intros a2 c2. unfold akind. cbn [inv_map]. rewrite E.
    destruct (Z.eqb_spec a2 a) as [-> | Ne]; cbn [andb]; [| reflexivity].
    destruct (Bool.eqb_spec c2 c) as [-> | Nc]; [| reflexivity]. rewrite F. exact K.
  - (* the controller's entry is removed from a fresh copy *)
    destruct (nstorage n) as [s |] eqn:Es; [| cbn [ocb] in Hcb; rewrite nthZ_nil in Hcb; discriminate].
    cbn [omap ocb oval] in *.
    pose proof (Hin c K) as Hk.
    pose proof (ni_nodup _ _ I) as Nd. rewrite Es in Nd. cbn [omap] in Nd.
    rewrite (killMap_some (kind_id c im) (clone_store s)) by (cbn [clone_store mapping]; first [exact Nd | apply in_mids in Hk; exact Hk]).
    cbn [clone_store mapping callbacks values].
    set (s' := {| mapping := filter (keep (kind_id c im)) (mapping s); callbacks := callbacks s;
                  values := zeros (length (values s)) |}).
    set (inv' := if kind_id (negb c) im =? -1 then inv_erase a (inv_map n)
                 else inv_set a (unmapped c im) (inv_map n)).
    assert (L : forall a2, inv_find a2 inv' =
                  if a2 =? a then (if kind_id (negb c) im =? -1 then None else Some (unmapped c im))
                  else inv_find a2 (inv_map n)).
    { intro a2. unfold inv'. destruct (kind_id (negb c) im =? -1).
      - rewrite inv_find_erase. reflexivity.
      - rewrite inv_find_set'. reflexivity. }
    exists {| nstorage := Some s'; inv_map := inv'; learnQ := learnQ n |}, [RBind s' (-1)].
    split; [reflexivity |].
    assert (Kin : forall t, In t (mapping s) -> me_id t = kind_id c im -> t = (kind_id c im, c, im_loc im)).
    { intros t Ht E. apply (ids_inj (mapping s)); auto. }
    split; [| split; [reflexivity | split]].
    + constructor; cbn [nstorage inv_map learnQ omap ocb oval s' mapping callbacks values].
      * unfold zeros. rewrite repeat_length. pose proof (ni_len _ _ I) as Hl. rewrite Es in Hl. exact Hl.
      * apply Forall_zeros.
      * apply mids_filter_nodup. exact Nd.
      * apply Forall_mids_filter. pose proof (ni_pos _ _ I) as Hp0. rewrite Es in Hp0. exact Hp0.
      * intros a2 im2 H2. rewrite L in H2.
        destruct (Z.eqb_spec a2 a) as [-> | Ne].
        -- destruct (Z.eqb_spec (kind_id (negb c) im) (-1)) as [E1 | E1]; [discriminate |].
           inversion H2; subst im2; clear H2. rewrite unmapped_loc.
           split; [exists p; auto |]. split.
           ++ intros c2. rewrite unmapped_kind. destruct (Bool.eqb_spec c2 c) as [-> | Nc]; [congruence |].
              intro H3. apply filter_keep_in. split; [apply Hin; exact H3 |].
              cbn [me_id fst]. intro E. 
              pose proof (Kin _ (Hin c2 H3) E) as E3. inversion E3. congruence.
           ++ assert (X : forall c2, kind_id c2 (unmapped c im) = if Bool.eqb c2 c then -1 else kind_id c2 im)
                by (intro; apply unmapped_kind).
              pose proof (X (negb c)) as Xn. rewrite eqb_negb_false in Xn.
              destruct c; cbn [negb kind_id] in *; lia.
        -- pose proof (ni_c1 _ _ I _ _ H2) as [[p2 [Hp2 Hcb2]] [Hin2 Hor2]]. rewrite Es in *. cbn [ocb omap] in *.
           split; [exists p2; auto |]. split; [| exact Hor2].
           intros c2 H3. apply filter_keep_in. split; [apply Hin2; exact H3 |].
           cbn [me_id fst]. intro E.
           pose proof (Kin _ (Hin2 c2 H3) E) as E3. inversion E3 as [[E4 E5 E6]].
           apply Ne. eapply (NI_loc_addr ports n a2 a im2 im I); assumption.
      * intros t Ht. apply filter_keep_in in Ht. destruct Ht as [Ht Hne].
        pose proof (ni_c2 _ _ I) as C2. rewrite Es in C2. cbn [omap] in C2.
        destruct (C2 t Ht) as [a2 [im2 [F2 [Hl Hkk]]]].
        destruct (Z.eqb_spec a2 a) as [-> | Ne].
        -- rewrite F in F2. inversion F2; subst im2; clear F2.
           destruct (Bool.eqb_spec (me_coarse t) c) as [Ec | Nc]; [rewrite Ec in Hkk; congruence |].
           assert (negb c = me_coarse t) by (apply neq_negb; exact Nc).
           assert (Hpos : 0 <= me_id t).
           { pose proof (ni_pos _ _ I) as Hp0. rewrite Es in Hp0. cbn [omap] in Hp0.
             rewrite Forall_forall in Hp0. apply Hp0. apply in_mids. exact Ht. }
           exists a, (unmapped c im). rewrite L, Z.eqb_refl, H, Hkk.
           destruct (Z.eqb_spec (me_id t) (-1)); [lia |].
           rewrite unmapped_loc, unmapped_kind.
           destruct (Bool.eqb_spec (me_coarse t) c); [contradiction | auto].
        -- exists a2, im2. rewrite L. destruct (Z.eqb_spec a2 a); [contradiction | auto].
      * intros a2 c2 Hq. destruct (ni_q _ _ I a2 c2 Hq) as [P Q]. split; [exact P |].
        intros im2 H2. rewrite L in H2. destruct (Z.eqb_spec a2 a) as [-> | Ne]; [| auto].
        destruct (kind_id (negb c) im =? -1); [discriminate |]. inversion H2; subst im2.
        rewrite unmapped_kind. destruct (Bool.eqb c2 c); [reflexivity | apply Q; exact F].
      * exact (ni_qnd _ _ I).
    + intros a2 c2. unfold akind. cbn [inv_map]. rewrite L.
      destruct (Z.eqb_spec a2 a) as [-> | Ne]; cbn [andb]; [| reflexivity].
      rewrite F.
      destruct (Z.eqb_spec (kind_id (negb c) im) (-1)) as [E1 | E1].
      * destruct (Bool.eqb_spec c2 c) as [-> | Nc]; [reflexivity |].
        assert (negb c = c2) by (apply neq_negb; exact Nc). subst c2. auto.
      * rewrite unmapped_kind. reflexivity.
    + destruct (Z.eqb_spec (kind_id c im) (-1)); [contradiction |]. exists s'. auto.
Qed.

(* ---- useFreeID ---------------------------------------------------------------- *)
Definition assigned (c : bool) (id : Z) (im : imap) : imap :=
  if c then (im_loc im, id, im_fi im, im_bi im) else (im_loc im, im_co im, id, im_bi im).

Lemma assigned_loc : forall c id im, im_loc (assigned c id im) = im_loc im.
Proof. intros [] ? [[[? ?] ?] ?]; reflexivity. Qed.

Lemma assigned_kind : forall c id im c2,
  kind_id c2 (assigned c id im) = if Bool.eqb c2 c then id else kind_id c2 im.
Proof. intros [] ? [[[? ?] ?] ?] []; reflexivity. Qed.

(* the common last step: one entry (id, c, loc) is appended, inv_map[a] := im' *)
Lemma NI_append : forall ports n a c q id p loc CB k im' invX,
  NI ports n -> learnQ n = (a, c) :: q -> 0 <= id ->
  ~ In id (mids (omap (nstorage n))) ->
  nthZ ports a = Some p ->
  (forall i x, nthZ (ocb (nstorage n)) i = Some x -> nthZ CB i = Some x) ->
  k = length CB -> nthZ CB loc = Some (mk_cb p a) ->
  im_loc im' = loc -> kind_id c im' = id ->
  (kind_id (negb c) im' <> -1 -> In (kind_id (negb c) im', negb c, loc) (omap (nstorage n))) ->
  (forall im0, inv_find a (inv_map n) = Some im0 ->
     im_loc im0 = loc /\ kind_id (negb c) im0 = kind_id (negb c) im' /\ kind_id c im0 = -1) ->
  (forall a2, a2 <> a -> inv_find a2 invX = inv_find a2 (inv_map n)) ->
  NI ports {| nstorage := Some {| mapping := omap (nstorage n) ++ [(id, c, loc)]; callbacks := CB;
                                   values := zeros k |};
              inv_map := inv_set a im' invX; learnQ := q |}.
Proof.
  intros ports n a c q id p loc CB k im' invX I Q Hid Fr Hp Hpre Hk Hcb Hloc Hkc Hko Hold Hinv.
  assert (L : forall a2, inv_find a2 (inv_set a im' invX) =
                         if a2 =? a then Some im' else inv_find a2 (inv_map n)).
  { intro a2. rewrite inv_find_set'. destruct (Z.eqb_spec a2 a); [reflexivity | auto]. }
  assert (Kall : forall c2, kind_id c2 im' = if Bool.eqb c2 c then id else kind_id (negb c) im').
  { intro c2. destruct (Bool.eqb_spec c2 c) as [-> | Nc]; [exact Hkc |].
    rewrite (neq_negb _ _ Nc). reflexivity. }
  constructor; cbn [nstorage inv_map learnQ omap ocb oval mapping callbacks values].
  - unfold zeros. rewrite repeat_length. exact Hk.
  - apply Forall_zeros.
  - rewrite mids_app. cbn [mids map me_id fst]. apply NoDup_snoc; [exact (ni_nodup _ _ I) | exact Fr].
  - rewrite mids_app. apply Forall_app. split; [exact (ni_pos _ _ I) |]. repeat constructor. exact Hid.
  - intros a2 im2 H2. rewrite L in H2. destruct (Z.eqb_spec a2 a) as [-> | Ne].
    + inversion H2; subst im2; clear H2. rewrite Hloc.
      split; [exists p; auto |]. split.
      * intros c2 H3. rewrite (Kall c2) in H3. rewrite (Kall c2). apply in_app_iff.
        destruct (Bool.eqb_spec c2 c) as [E | Nc]; [right; left; rewrite E; reflexivity |].
        left. rewrite <- (neq_negb _ _ Nc). apply Hko. exact H3.
      * destruct c; cbn [kind_id] in Hkc; lia.
    + destruct (ni_c1 _ _ I _ _ H2) as [[p2 [Hp2 Hcb2]] [Hin2 Hor2]].
      split; [exists p2; auto |]. split; [| exact Hor2].
      intros c2 H3. apply in_app_iff. left. apply Hin2. exact H3.
  - intros t Ht. apply in_app_iff in Ht. destruct Ht as [Ht | [<- | []]].
    + destruct (ni_c2 _ _ I t Ht) as [a2 [im2 [F2 [Hl Hkk]]]].
      destruct (Z.eqb_spec a2 a) as [-> | Ne].
      * destruct (Hold _ F2) as [O1 [O2 O3]].
        exists a, im'. rewrite L, Z.eqb_refl. split; [reflexivity |]. split; [congruence |].
        rewrite Kall. destruct (Bool.eqb_spec (me_coarse t) c) as [Ec | Nc].
        -- exfalso. rewrite Ec, O3 in Hkk.
           pose proof (ni_pos _ _ I) as P0. rewrite Forall_forall in P0.
           specialize (P0 _ (in_mids _ _ Ht)). lia.
        -- rewrite <- O2. rewrite (neq_negb _ _ Nc). exact Hkk.
      * exists a2, im2. rewrite L. destruct (Z.eqb_spec a2 a); [contradiction | auto].
    + exists a, im'. rewrite L, Z.eqb_refl. cbn [me_ind me_coarse me_id fst snd]. auto.
  - intros a2 c2 Hq.
    assert (Hq' : In (a2, c2) (learnQ n)) by (rewrite Q; right; exact Hq).
    destruct (ni_q _ _ I a2 c2 Hq') as [P0 Q0]. split; [exact P0 |].
    intros im2 H2. rewrite L in H2. destruct (Z.eqb_spec a2 a) as [-> | Ne]; [| auto].
    inversion H2; subst im2; clear H2.
    pose proof (ni_qnd _ _ I) as Nd. rewrite Q in Nd. inversion Nd as [| ? ? Hn _]; subst.
    rewrite Kall. destruct (Bool.eqb_spec c2 c) as [-> | Nc]; [contradiction |].
    destruct (inv_find a (inv_map n)) as [im0 |] eqn:F0.
    + destruct (Hold _ eq_refl) as [_ [O2 _]]. rewrite <- O2. rewrite (neq_negb _ _ Nc). apply Q0. reflexivity.
    + (* no old entry: the other kind of the new entry is what im' says *)
      destruct (Z.eq_dec (kind_id (negb c) im') (-1)) as [E | E]; [exact E |].
      exfalso. pose proof (Hko E) as Hin.
      destruct (ni_c2 _ _ I _ Hin) as [a3 [im3 [F3 [Hl3 _]]]]. cbn [me_ind snd] in Hl3.
      destruct (ni_c1 _ _ I _ _ F3) as [[p3 [_ Hcb3]] _].
      rewrite Hl3 in Hcb3. apply Hpre in Hcb3. rewrite Hcb in Hcb3. inversion Hcb3 as [M].
      assert (a = a3) by (rewrite <- (cb_addr_mk p a), <- (cb_addr_mk p3 a3), M; reflexivity).
      subst a3. congruence.
  - pose proof (ni_qnd _ _ I) as Nd. rewrite Q in Nd. inversion Nd; assumption.
Qed.

Lemma gen_new_eq : forall st p a,
  gen_new st p a = {| mapping := omap st; callbacks := ocb st ++ [mk_cb p a];
                      values := zeros (S (length (oval st))) |}.
Proof. intros [s |] p a; reflexivity. Qed.

Lemma NI_use : forall ports n id a c q, NI ports n -> learnQ n = (a, c) :: q -> 0 <= id ->
  ~ In id (mids (omap (nstorage n))) ->
  exists n' s', nrt_useFreeID ports n id = Some (n', [RBind s' id]) /\ NI ports n' /\
    nstorage n' = Some s' /\ learnQ n' = q /\
    (forall a2 c2, akind n' a2 c2 = if (a2 =? a) && Bool.eqb c2 c then id else akind n a2 c2).
Proof.
  intros ports n id a c q I Q Hid Fr. unfold nrt_useFreeID. rewrite Q.
  assert (Hq : In (a, c) (learnQ n)) by (rewrite Q; left; reflexivity).
  destruct (ni_q _ _ I a c Hq) as [[p Hp] Hk]. rewrite Hp.
  destruct (inv_find a (inv_map n)) as [im |] eqn:F.
  - (* the address already has a slot: second controller *)
    specialize (Hk im eq_refl).
    destruct (ni_c1 _ _ I _ _ F) as [[p' [Hp' Hcb]] [Hin Hor]].
    rewrite Hp in Hp'. inversion Hp'; subst p'; clear Hp'.
    destruct (nstorage n) as [s |] eqn:Es; [| cbn [ocb] in Hcb; rewrite nthZ_nil in Hcb; discriminate].
    rewrite F. cbn [clone_store mapping callbacks values].
    assert (Kill : (if c then if im_co im =? -1 then Some {| mapping := mapping s ++ [(id, c, im_loc im)]; callbacks := callbacks s; values := zeros (length (values s)) |} else killMap (im_co im) {| mapping := mapping s ++ [(id, c, im_loc im)]; callbacks := callbacks s; values := zeros (length (values s)) |}
                     else if im_fi im =? -1 then Some {| mapping := mapping s ++ [(id, c, im_loc im)]; callbacks := callbacks s; values := zeros (length (values s)) |} else killMap (im_co im) {| mapping := mapping s ++ [(id, c, im_loc im)]; callbacks := callbacks s; values := zeros (length (values s)) |})
                   = Some {| mapping := mapping s ++ [(id, c, im_loc im)]; callbacks := callbacks s; values := zeros (length (values s)) |}).
    { destruct c; cbn [kind_id] in Hk; rewrite Hk; reflexivity. }
    rewrite Kill. fold (assigned c id im).
    eexists. eexists. split; [reflexivity |].
    assert (NI' : NI ports {| nstorage := Some {| mapping := omap (nstorage n) ++ [(id, c, im_loc im)];
                                                   callbacks := callbacks s; values := zeros (length (values s)) |};
                              inv_map := inv_set a (assigned c id im) (inv_map n); learnQ := q |}).
    { apply NI_append with (p := p).
      - exact I.
      - exact Q.
      - exact Hid.
      - rewrite Es. exact Fr.
      - exact Hp.
      - rewrite Es. cbn [ocb]. auto.
      - pose proof (ni_len _ _ I) as Hl. rewrite Es in Hl. exact Hl.
      - exact Hcb.
      - apply assigned_loc.
      - rewrite assigned_kind, Bool.eqb_reflx. reflexivity.
      - rewrite assigned_kind, eqb_negb_false. intro H. rewrite Es. apply Hin. exact H.
      - intros im0 H0. rewrite F in H0. inversion H0; subst im0.
        rewrite assigned_kind, eqb_negb_false. auto.
      - reflexivity. }
    rewrite Es in NI'. cbn [omap] in NI'.
    split; [exact NI' |]. split; [reflexivity |]. split; [reflexivity |].
    intros a2 c2. unfold akind. cbn [inv_map]. rewrite inv_find_set'.
    destruct (Z.eqb_spec a2 a) as [-> | Ne]; cbn [andb]; [| reflexivity].
    rewrite assigned_kind, F. reflexivity.
  - (* first controller of the address: a new slot *)
    rewrite gen_new_eq. cbn [callbacks mapping values].
    set (loc := zlen (ocb (nstorage n) ++ [mk_cb p a]) - 1).
    set (bi := {| bmin := pmin p; bmax := pmax p |}).
    rewrite inv_find_set'. rewrite Z.eqb_refl.
    cbn [im_loc im_co im_fi im_bi fst snd].
    change (-1 =? -1) with true. cbn iota.
    assert (Same : (if c then Some {| mapping := omap (nstorage n) ++ [(id, c, loc)]; callbacks := ocb (nstorage n) ++ [mk_cb p a]; values := zeros (S (length (oval (nstorage n)))) |}
                    else Some {| mapping := omap (nstorage n) ++ [(id, c, loc)]; callbacks := ocb (nstorage n) ++ [mk_cb p a]; values := zeros (S (length (oval (nstorage n)))) |})
                   = Some {| mapping := omap (nstorage n) ++ [(id, c, loc)]; callbacks := ocb (nstorage n) ++ [mk_cb p a]; values := zeros (S (length (oval (nstorage n)))) |})
      by (destruct c; reflexivity).
    rewrite Same. fold (assigned c id (loc, -1, -1, bi)).
    assert (Eloc : loc = zlen (ocb (nstorage n))).
    { unfold loc, zlen. rewrite app_length. cbn [length]. lia. }
    eexists. eexists. split; [reflexivity |].
    split; [| split; [reflexivity | split; [reflexivity |]]].
    + apply NI_append with (p := p); try assumption; try reflexivity.
      * intros i x Hx. apply nthZ_app1. exact Hx.
      * rewrite app_length. cbn [length]. rewrite (ni_len _ _ I). lia.
      * rewrite Eloc. apply nthZ_snoc.
      * destruct c; reflexivity.
      * destruct c; reflexivity.
      * destruct c; cbn; intro H; exfalso; apply H; reflexivity.
      * intros im0 H0. congruence.
      * intros a2 Ne. rewrite inv_find_set'. destruct (Z.eqb_spec a2 a); [contradiction | reflexivity].
    + intros a2 c2. unfold akind. cbn [inv_map]. rewrite !inv_find_set'.
      destruct (Z.eqb_spec a2 a) as [-> | Ne]; cbn [andb]; [| reflexivity].
      rewrite F. destruct c, c2; reflexivity.
Qed.

(* ---- map, clear ---------------------------------------------------------------- *)
Lemma qmem_false : forall a c q, qmem a c q = false -> ~ In (a, c) q.
Proof.
  intros a c q H Hin. unfold qmem in H.
  assert (E : existsb (fun x => (fst x =? a) && Bool.eqb (snd x) c) q = true).
  { apply existsb_exists. exists (a, c). split; [exact Hin |]. cbn. rewrite Z.eqb_refl, Bool.eqb_reflx. reflexivity. }
  congruence.
Qed.

Lemma NoDup_snoc_gen : forall {A} (l : list A) x, NoDup l -> ~ In x l -> NoDup (l ++ [x]).
Proof.
  induction l as [| y l IH]; intros x N F; cbn.
  - constructor; [tauto | constructor].
  - inversion N; subst. constructor.
    + rewrite in_app_iff. cbn. intros [H | [H | []]]; [tauto | subst; apply F; left; reflexivity].
    + apply IH; [assumption | intro; apply F; right; assumption].
Qed.

Definition binds_are (o : option store) (out : list rmsg) : Prop :=
  Forall (fun m => match m with RBind s' _ => o = Some s' | _ => True end) out.

Lemma NI_map : forall ports n a c, NI ports n -> (exists p, nthZ ports a = Some p) ->
  exists n' out, nrt_map n a c = Some (n', out) /\ NI ports n' /\ binds_are (nstorage n') out /\
    (if qmem a c (learnQ n) then n' = n /\ out = []
     else learnQ n' = learnQ n ++ [(a, c)] /\
          (forall a2 c2, akind n' a2 c2 = if (a2 =? a) && Bool.eqb c2 c then -1 else akind n a2 c2) /\
          exists out0, out = out0 ++ [RWatch] /\
            (if akind n a c =? -1 then out0 = [] /\ nstorage n' = nstorage n
             else exists s', out0 = [RBind s' (-1)] /\ nstorage n' = Some s')).
Proof.
  intros ports n a c I Hp. unfold nrt_map.
  destruct (qmem a c (learnQ n)) eqn:Qm.
  { exists n, []. split; [reflexivity | split; [exact I | split; [constructor | split; reflexivity]]]. }
  destruct (NI_unmap ports n a c I) as [n1 [out0 [U [I1 [LQ [AK OS]]]]]]. rewrite U.
  eexists. eexists. split; [reflexivity |].
  assert (NI2 : NI ports {| nstorage := nstorage n1; inv_map := inv_map n1; learnQ := learnQ n1 ++ [(a, c)] |}).
  { destruct I1. constructor; cbn [nstorage inv_map learnQ]; try assumption.
    - intros a2 c2 Hq. apply in_app_iff in Hq. destruct Hq as [Hq | [E | []]]; [auto |].
      inversion E; subst a2 c2. split; [exact Hp |].
      intros im F. pose proof (AK a c) as K. rewrite Z.eqb_refl, Bool.eqb_reflx in K. cbn in K.
      unfold akind in K. rewrite F in K. exact K.
    - apply NoDup_snoc_gen; [assumption |]. rewrite LQ. apply qmem_false. exact Qm. }
  split; [exact NI2 |]. cbn [nstorage learnQ].
  split.
  - unfold binds_are. apply Forall_app. split; [| repeat constructor].
    destruct (akind n a c =? -1).
    + destruct OS as [-> _]. constructor.
    + destruct OS as [s' [-> E]]. repeat constructor. exact E.
  - split; [rewrite LQ; reflexivity |]. split; [exact AK |]. exists out0. split; [reflexivity | exact OS].
Qed.

Lemma NI_clear : forall ports, NI ports {| nstorage := Some empty_store; inv_map := []; learnQ := [] |}.
Proof.
  intros ports. constructor; cbn; try (constructor; fail); try reflexivity.
  - intros x y H. discriminate.
  - intros x [].
  - intros x y [].
Qed.

(* a midi-use-CC that finds no queued address: the unchanged mapping is sent as its answer *)
Definition same_store (o : option store) : store :=
  match o with Some s => clone_store s | None => empty_store end.

Lemma useFreeID_null : forall ports n id, learnQ n = [] ->
  nrt_useFreeID ports n id =
  Some ({| nstorage := Some (same_store (nstorage n)); inv_map := inv_map n; learnQ := [] |},
        [RBind (same_store (nstorage n)) id]).
Proof. intros ports n id Q. unfold nrt_useFreeID. rewrite Q. reflexivity. Qed.

Lemma NI_null : forall ports n, NI ports n ->
  NI ports {| nstorage := Some (same_store (nstorage n)); inv_map := inv_map n; learnQ := [] |}.
Proof.
  intros ports n I. destruct I as [L Z N Ps C1 C2 Q Qn].
  destruct (nstorage n) as [s |] eqn:Es; cbn [same_store oval ocb omap] in *;
    constructor; cbn [nstorage inv_map learnQ oval ocb omap clone_store empty_store mapping callbacks values];
    try assumption; try (intros a c []; fail); try (constructor; fail).
  - unfold zeros. rewrite repeat_length. exact L.
  - apply Forall_zeros.
Qed.

(* ---- well-formed snapshots ------------------------------------------------------ *)
Definition in14 (v : Z) : Prop := 0 <= v < 16384.

Record SW (ports : list port) (s : store) : Prop := {
  sw_len : length (values s) = length (callbacks s);
  sw_nodup : NoDup (mids (mapping s));
  sw_cb : forall t, In t (mapping s) ->
      exists a p, nthZ ports a = Some p /\ nthZ (callbacks s) (me_ind t) = Some (mk_cb p a);
  sw_slot : forall t1 t2, In t1 (mapping s) -> In t2 (mapping s) ->
      me_ind t1 = me_ind t2 -> me_coarse t1 = me_coarse t2 -> t1 = t2;
  sw_addr : forall t1 t2 c1 c2, In t1 (mapping s) -> In t2 (mapping s) ->
      nthZ (callbacks s) (me_ind t1) = Some c1 -> nthZ (callbacks s) (me_ind t2) = Some c2 ->
      cb_addr c1 = cb_addr c2 -> me_ind t1 = me_ind t2;
  sw_val : Forall in14 (values s)
}.

Lemma NI_SW : forall ports n s, NI ports n -> nstorage n = Some s -> SW ports s.
Proof.
  intros ports n s I Es.
  pose proof (ni_c2 _ _ I) as C2. rewrite Es in C2. cbn [omap] in C2.
  assert (C1 : forall a im, inv_find a (inv_map n) = Some im ->
             exists p, nthZ ports a = Some p /\ nthZ (callbacks s) (im_loc im) = Some (mk_cb p a)).
  { intros a im F. destruct (ni_c1 _ _ I _ _ F) as [H _]. rewrite Es in H. exact H. }
  constructor.
  - pose proof (ni_len _ _ I) as H. rewrite Es in H. exact H.
  - pose proof (ni_nodup _ _ I) as H. rewrite Es in H. exact H.
  - intros t Ht. destruct (C2 t Ht) as [a [im [F [Hl _]]]]. destruct (C1 _ _ F) as [p [Hp Hc]].
    exists a, p. rewrite <- Hl. auto.
  - intros t1 t2 H1 H2 Ei Ec.
    destruct (C2 t1 H1) as [a1 [im1 [F1 [L1 K1]]]]. destruct (C2 t2 H2) as [a2 [im2 [F2 [L2 K2]]]].
    assert (a1 = a2) by (eapply (NI_loc_addr ports n); eauto; congruence). subst a2.
    rewrite F1 in F2. inversion F2; subst im2.
    pose proof (ni_nodup _ _ I) as Nd. rewrite Es in Nd. cbn [omap] in Nd.
    apply (ids_inj (mapping s)); auto. congruence.
  - intros t1 t2 c1 c2 H1 H2 E1 E2 Ea.
    destruct (C2 t1 H1) as [a1 [im1 [F1 [L1 K1]]]]. destruct (C2 t2 H2) as [a2 [im2 [F2 [L2 K2]]]].
    destruct (C1 _ _ F1) as [p1 [_ X1]]. destruct (C1 _ _ F2) as [p2 [_ X2]].
    rewrite L1, E1 in X1. rewrite L2, E2 in X2. inversion X1; inversion X2; subst c1 c2.
    rewrite !cb_addr_mk in Ea. subst a2. rewrite F1 in F2. inversion F2; subst im2. congruence.
  - pose proof (ni_zero _ _ I) as H. rewrite Es in H. cbn [oval] in H.
    eapply Forall_impl; [| exact H]. intros v ->. unfold in14. lia.
Qed.

(* ---- the realtime half ------------------------------------------------------------ *)
Lemma upd_nat_Forall : forall {A} (P : A -> Prop) l i x l', upd_nat l i x = Some l' ->
  Forall P l -> P x -> Forall P l' /\ length l' = length l.
Proof.
  intros A P. induction l as [| h t IH]; intros i x l' H F Px; [destruct i; discriminate |].
  inversion F; subst. destruct i as [| i]; cbn [upd_nat] in H.
  - inversion H; subst. split; [constructor; assumption | reflexivity].
  - destruct (upd_nat t i x) as [t' |] eqn:E; [| discriminate]. inversion H; subst.
    destruct (IH _ _ _ E H3 Px) as [F' L']. split; [constructor; assumption | cbn; lia].
Qed.

Lemma updZ_Forall : forall {A} (P : A -> Prop) l i x l', updZ l i x = Some l' ->
  Forall P l -> P x -> Forall P l' /\ length l' = length l.
Proof.
  intros A P l i x l' H. unfold updZ in H. destruct (i <? 0); [discriminate |].
  eapply upd_nat_Forall; eassumption.
Qed.

Lemma updZ_some : forall {A} (l : list A) i x, 0 <= i < zlen l -> exists l', updZ l i x = Some l'.
Proof. intros A l i x H. destruct (updZ_spec l i x H) as [l' [E _]]. eauto. Qed.

Lemma nthZ_Forall : forall {A} (P : A -> Prop) l i x, nthZ l i = Some x -> Forall P l -> P x.
Proof.
  intros A P l i x H F. unfold nthZ in H. destruct (i <? 0); [discriminate |].
  rewrite Forall_forall in F. apply F. eapply nth_error_In; eassumption.
Qed.

Lemma blit_in14 : forall c v old, 0 <= v < 128 -> in14 old -> in14 (blit c v old).
Proof. intros c v old Hv Ho. destruct (blit_compose c v old Hv Ho) as [_ B]. exact B. Qed.

Lemma extract7_range : forall c v, in14 v -> 0 <= extract7 c v < 128.
Proof.
  intros c v [H0 H1]. unfold extract7. destruct c.
  - rewrite Z.shiftr_div_pow2 by lia. change (2 ^ 7) with 128.
    split; [apply Z.div_pos; lia | apply Z.div_lt_upper_bound; lia].
  - change 127 with (Z.ones 7). rewrite Z.land_ones by lia. apply Z.mod_pos_bound. lia.
Qed.

Lemma SW_ind_range : forall ports s t, SW ports s -> In t (mapping s) ->
  0 <= me_ind t < zlen (callbacks s) /\ 0 <= me_ind t < zlen (values s).
Proof.
  intros ports s t W Ht. destruct (sw_cb _ _ W t Ht) as [a [p [_ H]]].
  apply nthZ_range in H. split; [exact H |]. unfold zlen in *. rewrite (sw_len _ _ W). exact H.
Qed.

Lemma store_handleCC_ok : forall ports s id v, SW ports s -> 0 <= v < 128 ->
  exists s' m, store_handleCC s id v = Some (s', m) /\ SW ports s'.
Proof.
  intros ports s id v W Hv. unfold store_handleCC.
  destruct (find_map id (mapping s)) as [t |] eqn:F; [| eauto].
  assert (Ht : In t (mapping s)).
  { clear - F. induction (mapping s) as [| u r IH]; [discriminate |]. cbn [find_map] in F.
    destruct (me_id u =? id); [inversion F; left; reflexivity | right; auto]. }
  destruct (SW_ind_range _ _ _ W Ht) as [Rc Rv].
  destruct (nthZ_some _ _ Rv) as [old Ho]. destruct (nthZ_some _ _ Rc) as [c Hc]. rewrite Ho, Hc.
  destruct (updZ_some (values s) (me_ind t) (blit (me_coarse t) v old) Rv) as [vs Hu]. rewrite Hu.
  eexists. eexists. split; [reflexivity |].
  pose proof (nthZ_Forall _ _ _ _ Ho (sw_val _ _ W)) as Hold.
  destruct (updZ_Forall in14 _ _ _ _ Hu (sw_val _ _ W) (blit_in14 _ _ _ Hv Hold)) as [Fv Lv].
  destruct W. constructor; cbn [mapping callbacks values]; try assumption. congruence.
Qed.

Lemma clone_inner_ok : forall ti srcmap srcvals vals,
  (forall tj, In tj srcmap -> 0 <= me_ind tj < zlen srcvals) -> Forall in14 srcvals ->
  0 <= me_ind ti < zlen vals -> Forall in14 vals ->
  exists vals', clone_inner ti srcmap srcvals vals = Some vals' /\
    length vals' = length vals /\ Forall in14 vals'.
Proof.
  intros ti srcmap srcvals. induction srcmap as [| tj r IH]; intros vals Hs Fs Hi Fv; cbn [clone_inner].
  - eauto.
  - assert (Hr : forall t, In t r -> 0 <= me_ind t < zlen srcvals) by (intros; apply Hs; right; assumption).
    destruct (me_id ti =? me_id tj); [| apply IH; assumption].
    destruct (nthZ_some _ _ (Hs tj (or_introl eq_refl))) as [sv Hsv]. rewrite Hsv.
    destruct (nthZ_some _ _ Hi) as [dv Hdv]. rewrite Hdv.
    destruct (updZ_some vals (me_ind ti) (blit (me_coarse ti) (extract7 (me_coarse tj) sv) dv) Hi) as [v' Hu].
    rewrite Hu.
    assert (in14 (blit (me_coarse ti) (extract7 (me_coarse tj) sv) dv)).
    { apply blit_in14; [apply extract7_range; eapply nthZ_Forall; eassumption | eapply nthZ_Forall; eassumption]. }
    destruct (updZ_Forall in14 _ _ _ _ Hu Fv H) as [F' L'].
    destruct (IH v' Hr Fs) as [v'' [E [L'' F'']]]; [unfold zlen in *; rewrite L'; exact Hi | exact F' |].
    exists v''. split; [exact E |]. split; [congruence | exact F''].
Qed.

Lemma clone_outer_ok : forall src dstmap vals,
  (forall tj, In tj (mapping src) -> 0 <= me_ind tj < zlen (values src)) -> Forall in14 (values src) ->
  (forall ti, In ti dstmap -> 0 <= me_ind ti < zlen vals) -> Forall in14 vals ->
  exists vals', clone_outer dstmap src vals = Some vals' /\ length vals' = length vals /\ Forall in14 vals'.
Proof.
  intros src. induction dstmap as [| ti r IH]; intros vals Hs Fs Hd Fv; cbn [clone_outer].
  - eauto.
  - destruct (clone_inner_ok ti (mapping src) (values src) vals Hs Fs (Hd ti (or_introl eq_refl)) Fv)
      as [v' [E [L F]]]. rewrite E.
    destruct (IH v' Hs Fs) as [v'' [E2 [L2 F2]]]; [| exact F |].
    + intros t Ht. unfold zlen. rewrite L. apply Hd. right. exact Ht.
    + exists v''. split; [exact E2 |]. split; [congruence | exact F2].
Qed.

Lemma cloneValues_ok : forall ports ns old, SW ports ns -> SW ports old ->
  exists c, cloneValues ns old = Some c /\ SW ports c /\
            mapping c = mapping ns /\ callbacks c = callbacks ns.
Proof.
  intros ports ns old Wn Wo. unfold cloneValues.
  destruct (clone_outer_ok old (mapping ns) (zeros (length (values ns)))) as [v' [E [L F]]].
  - intros tj Hj. apply (SW_ind_range _ _ _ Wo Hj).
  - exact (sw_val _ _ Wo).
  - intros ti Hi. unfold zlen, zeros. rewrite repeat_length. apply (SW_ind_range _ _ _ Wn Hi).
  - eapply Forall_impl; [| apply Forall_zeros]. intros v ->. unfold in14. lia.
  - rewrite E. eexists. split; [reflexivity |]. split; [| auto].
    unfold zeros in L. rewrite repeat_length in L.
    destruct Wn. constructor; cbn [mapping callbacks values]; try assumption. congruence.
Qed.

Definition pq_wf (q : pq) : Prop :=
  length (vals q) = 32%nat /\ 0 <= pos_r q < 32 /\ 0 <= pos_w q < 32.

Lemma pq_wf0 : pq_wf pq0.
Proof. unfold pq_wf. cbn. lia. Qed.

Lemma pq_insert_ok : forall q x, pq_wf q -> exists q', pq_insert q x = Some q' /\ pq_wf q'.
Proof.
  intros q x [L [R W]]. unfold pq_insert.
  destruct (pq_has q x || (31 <? psize q)); [exists q; unfold pq_wf; auto |].
  destruct (updZ_spec (vals q) (pos_w q) x) as [vs [E [Lv _]]]; [unfold zlen; lia |].
  rewrite E. eexists. split; [reflexivity |]. unfold pq_wf. cbn [vals pos_r pos_w].
  pose proof (Z.mod_pos_bound (pos_w q + 1) 32). lia.
Qed.

Lemma pq_pop_ok : forall q, pq_wf q -> exists q', pq_pop q = Some q' /\ pq_wf q'.
Proof.
  intros q [L [R W]]. unfold pq_pop.
  destruct (psize q =? 0); [exists q; unfold pq_wf; auto |].
  destruct (updZ_spec (vals q) (pos_r q) (-1)) as [vs [E [Lv _]]]; [unfold zlen; lia |].
  rewrite E. eexists. split; [reflexivity |]. unfold pq_wf. cbn [vals pos_r pos_w].
  pose proof (Z.mod_pos_bound (1 + pos_r q) 32). lia.
Qed.

Definition RI (ports : list port) (r : rt) : Prop :=
  pq_wf (pending r) /\ match rstorage r with Some s => SW ports s | None => True end.

Lemma rt_handleCC_ok : forall ports r id v, RI ports r -> 0 <= v < 128 ->
  exists r' m used, rt_handleCC r id v = Some (r', m, used) /\ RI ports r'.
Proof.
  intros ports r id v [Wq Ws] Hv. unfold rt_handleCC.
  assert (H : exists st' m, match rstorage r with
                            | Some s => match store_handleCC s id v with
                                        | Some (s', m) => Some (Some s', m) | None => None end
                            | None => Some (None, None) end = Some (st', m) /\
                            match st' with Some s => SW ports s | None => True end).
  { destruct (rstorage r) as [s |]; [| exists None, None; auto].
    destruct (store_handleCC_ok ports s id v Ws Hv) as [s' [m [E W']]]. rewrite E. eauto. }
  destruct H as [st' [m [E W']]]. rewrite E.
  destruct m as [x |].
  - eexists. eexists. eexists. split; [reflexivity |]. split; assumption.
  - destruct (negb (pq_has (pending r) id) && negb (watch r =? 0)).
    + destruct (pq_insert_ok _ id Wq) as [q' [Ei Wq']]. rewrite Ei.
      eexists. eexists. eexists. split; [reflexivity |]. split; assumption.
    + eexists. eexists. eexists. split; [reflexivity |]. split; assumption.
Qed.

Definition msg_ok (ports : list port) (m : rmsg) : Prop :=
  match m with RBind s _ => SW ports s /\ Forall (fun v => v = 0) (values s) | _ => True end.

Lemma rt_deliver_ok : forall ports r m, RI ports r -> msg_ok ports m ->
  exists r', rt_deliver r m = Some r' /\ RI ports r'.
Proof.
  intros ports r m [Wq Ws] Hm. destruct m; cbn [rt_deliver].
  - eexists. split; [reflexivity |]. split; assumption.
  - eexists. split; [reflexivity |]. split; assumption.
  - assert (Hq : exists q', (if ans =? -1 then Some (pending r) else pq_pop (pending r)) = Some q' /\ pq_wf q').
    { destruct (ans =? -1); [exists (pending r); split; [reflexivity | assumption] | apply pq_pop_ok; assumption]. }
    destruct Hq as [q' [Ep Wq']]. rewrite Ep.
    destruct (rstorage r) as [old |].
    + destruct Hm as [Hm Hz]. destruct (cloneValues_ok ports s old Hm Ws) as [c [Ec [Wc _]]]. rewrite Ec.
      eexists. split; [reflexivity |]. split; assumption.
    + eexists. split; [reflexivity |]. split; [assumption | apply Hm].
Qed.

(* ---- both halves and the channels -------------------------------------------------- *)
Definition evok (ports : list port) (e : event) : Prop :=
  match e with
  | EMap a _ => exists p, nthZ ports a = Some p
  | ECC p v ch n => 0 <= cc_id p ch n /\ 0 <= v < 128
  | _ => True
  end.

Record J (ports : list port) (w : world) : Prop := {
  j_n : NI ports (wn w);
  j_cn : Forall (fun x => 0 <= x) (chN w);
  j_cr : Forall (msg_ok ports) (chR w);
  j_r : RI ports (wr w)
}.

Lemma J0 : forall ports, J ports world0.
Proof.
  intro ports. constructor; cbn.
  - apply NI0.
  - constructor.
  - constructor.
  - split; [apply pq_wf0 | exact I].
Qed.

Lemma binds_ok : forall ports n out, NI ports n -> binds_are (nstorage n) out -> Forall (msg_ok ports) out.
Proof.
  intros ports n out I B. unfold binds_are in B. eapply Forall_impl; [| exact B].
  intros m H. destruct m; cbn; auto. split; [eapply NI_SW; eassumption |].
  pose proof (ni_zero _ _ I) as Z. rewrite H in Z. exact Z.
Qed.

Lemma J_step : forall ports w e, J ports w -> pre_ok0 w e -> evok ports e ->
  exists w' o, step ports w e = Some (w', o) /\ J ports w'.
Proof.
  intros ports w e [Jn Jcn Jcr Jr] [Nn [Nr Pre]] Ev. destruct e; cbn [step].
  - destruct (NI_map ports (wn w) a c Jn Ev) as [n' [out [E [I' [B _]]]]]. rewrite E. cbn [nrt_result].
    eexists. eexists. split; [reflexivity |]. constructor; cbn [wn wr chN chR]; try assumption.
    apply Forall_app. split; [assumption | eapply binds_ok; eassumption].
  - destruct (NI_unmap ports (wn w) a c Jn) as [n' [out [E [I' [_ [_ OS]]]]]]. rewrite E. cbn [nrt_result].
    eexists. eexists. split; [reflexivity |]. constructor; cbn [wn wr chN chR]; try assumption.
    apply Forall_app. split; [assumption |].
    destruct (akind (wn w) a c =? -1).
    + destruct OS as [-> _]. constructor.
    + destruct OS as [s' [-> Es]]. constructor; [cbn; split; [eapply NI_SW; eassumption | pose proof (ni_zero _ _ I') as Z; rewrite Es in Z; exact Z] | constructor].
  - cbn [nrt_clear nrt_result]. eexists. eexists. split; [reflexivity |].
    constructor; cbn [wn wr chN chR]; try assumption; [apply NI_clear |].
    apply Forall_app. split; [assumption |]. apply Forall_app. split.
    + clear. induction (learnQ (wn w)); constructor; [exact I | assumption].
    + constructor; [cbn; split; [eapply NI_SW; [apply (NI_clear ports) | reflexivity] | constructor] | constructor].
  - destruct Ev as [Hid Hv].
    destruct (rt_handleCC_ok ports (wr w) (cc_id par chan nrpn) val Jr Hv) as [r' [m [used [E R']]]].
    rewrite E. eexists. eexists. split; [reflexivity |].
    constructor; cbn [wn wr chN chR]; try assumption.
    destruct used; [| assumption]. apply Forall_app. split; [assumption | repeat constructor; exact Hid].
  - destruct (chN w) as [| id rest] eqn:EN.
    + eexists. eexists. split; [reflexivity |]. constructor; try assumption. rewrite EN. constructor.
    + rename Pre into Fresh. inversion Jcn as [| ? ? Hid Hrest]; subst.
      destruct (learnQ (wn w)) as [| [a c] q] eqn:LQ.
      { rewrite (useFreeID_null ports (wn w) id LQ). cbn [nrt_result].
        pose proof (NI_null ports (wn w) Jn) as I'.
        eexists. eexists. split; [reflexivity |]. constructor; cbn [wn wr chN chR]; try assumption.
        apply Forall_app. split; [assumption |].
        constructor; [cbn; split; [eapply NI_SW; [exact I' | reflexivity] | exact (ni_zero _ _ I')] | constructor]. }
      destruct (NI_use ports (wn w) id a c q Jn LQ Hid Fresh) as [n' [s' [E [I' [Es _]]]]].
      rewrite E. cbn [nrt_result].
      eexists. eexists. split; [reflexivity |]. constructor; cbn [wn wr chN chR]; try assumption.
      apply Forall_app. split; [assumption |]. constructor; [cbn; split; [eapply NI_SW; eassumption | pose proof (ni_zero _ _ I') as Z; rewrite Es in Z; exact Z] | constructor].
  - destruct (chR w) as [| m rest] eqn:ER.
    + eexists. eexists. split; [reflexivity |]. constructor; try assumption. rewrite ER. constructor.
    + inversion Jcr as [| ? ? Hm Hrest]; subst.
      destruct (rt_deliver_ok ports (wr w) m Jr Hm) as [r' [E R']]. rewrite E.
      eexists. eexists. split; [reflexivity |]. constructor; cbn [wn wr chN chR]; assumption.
Qed.

(* the combined invariant: the handshake (MidiHandshake, all histories) and J *)
Definition Inv (U : list Z) (ports : list port) (w : world) : Prop :=
  (exists tg P, HP U w tg P) /\ J ports w.

Theorem Inv_init : forall U ports, Inv U ports world0.
Proof. intros. split; [exists [], []; apply HP0 | apply J0]. Qed.

Lemma HP_pre : forall U w tg P e, HP U w tg P -> pre_ok0 w e.
Proof.
  intros U w tg P e [A I].
  pose proof (HSI_nst_nodup _ _ _ _ _ _ _ _ I) as Nn.
  pose proof (h_rnodup _ _ _ _ _ _ _ _ I) as Nr.
  unfold pre_ok0. split; [assumption |]. split; [assumption |].
  destruct e; try exact Logic.I.
  destruct (chN w) as [| id rest] eqn:EN; [exact Logic.I |].
  eapply HSI_fresh. exact I.
Qed.

(* every admissible event of every history: the step is defined (no vector
   access out of range, no new T[-1], no null dereference) and Inv holds again *)
Theorem Inv_step : forall U ports w e,
  (length U <= 32)%nat -> Inv U ports w -> ev_ok U e -> evok ports e ->
  exists w' o, step ports w e = Some (w', o) /\ Inv U ports w'.
Proof.
  intros U ports w e US [[tg [P HH]] HJ] E1 E2.
  destruct (J_step ports w e HJ (HP_pre U w tg P e HH) E2) as [w' [o [S J']]].
  exists w', o. split; [exact S |].
  split; [| exact J']. destruct (H_step U US ports _ _ _ _ _ _ HH E1 S) as [_ HH'].
  eexists. eexists. exact HH'.
Qed.

(* lifted over histories: no history crashes, every one ends in Inv *)
Lemma Inv_run : forall U ports, (length U <= 32)%nat ->
  forall evs w tr fin,
  Inv U ports w -> Forall (ev_ok U) evs -> Forall (evok ports) evs ->
  run ports w evs = (tr, fin) ->
  length tr = length evs /\ exists w', fin = Some w' /\ J ports w'.
Proof.
  intros U ports US. induction evs as [| e es IH]; intros w tr fin HI E1 E2 Hr.
  - cbn in Hr. inversion Hr; subst. split; [reflexivity |]. exists w. split; [reflexivity | apply HI].
  - inversion E1; subst. inversion E2; subst.
    destruct (Inv_step U ports w e US HI H1 H3) as [w' [o [S Nx]]].
    cbn [run] in Hr. rewrite S in Hr. destruct (run ports w' es) as [tr' fin'] eqn:R.
    inversion Hr; subst tr fin; clear Hr.
    destruct (IH w' tr' fin' Nx H2 H4 R) as [L Fin].
    split; [cbn; lia | exact Fin].
Qed.

Lemma evok_ccids : forall ports evs, Forall (evok ports) evs -> Forall (fun x => 0 <= x) (ccids evs).
Proof.
  induction evs as [| e es IH]; intro H; [constructor |]. inversion H; subst.
  destruct e; cbn [ccids flat_map app]; try (apply IH; assumption).
  constructor; [apply H2 | apply IH; assumption].
Qed.

Theorem crash_free : forall ports evs tr fin U,
  (length U <= 32)%nat -> incl (ccids evs) U -> Forall (evok ports) evs ->
  run ports world0 evs = (tr, fin) ->
  length tr = length evs /\ exists w, fin = Some w /\ J ports w.
Proof.
  intros ports evs tr fin U US Hi He Hr.
  eapply (Inv_run U ports US); try eassumption.
  - apply Inv_init.
  - apply ev_ok_all; [assumption | eapply evok_ccids; eassumption].
Qed.

(* ---- learning, first or second controller of an address ---------------------------- *)
Lemma find_map_in : forall (m : list mapent) t, NoDup (mids m) -> In t m -> find_map (me_id t) m = Some t.
Proof.
  induction m as [| u r IH]; intros t N Ht; [destruct Ht |].
  inversion N as [| ? ? Hn Nr]; subst. cbn [find_map].
  destruct Ht as [-> | Ht]; [rewrite Z.eqb_refl; reflexivity |].
  destruct (Z.eqb_spec (me_id u) (me_id t)) as [E | E]; [| auto].
  exfalso. apply Hn. rewrite E. apply in_mids. exact Ht.
Qed.

Theorem learn_shares_slot : forall ports n id a c q, NI ports n -> learnQ n = (a, c) :: q ->
  0 <= id -> ~ In id (mids (omap (nstorage n))) ->
  exists n' s' p loc,
    nrt_useFreeID ports n id = Some (n', [RBind s' id]) /\ NI ports n' /\ nstorage n' = Some s' /\
    learnQ n' = q /\ SW ports s' /\ nthZ ports a = Some p /\
    find_map id (mapping s') = Some (id, c, loc) /\
    nthZ (callbacks s') loc = Some (mk_cb p a) /\
    (akind n a (negb c) <> -1 ->
       find_map (akind n a (negb c)) (mapping s') = Some (akind n a (negb c), negb c, loc)) /\
    (forall a2 c2, akind n' a2 c2 = if (a2 =? a) && Bool.eqb c2 c then id else akind n a2 c2).
Proof.
  intros ports n id a c q I Q Hid Fr.
  destruct (NI_use ports n id a c q I Q Hid Fr) as [n' [s' [E [I' [Es [Lq AK]]]]]].
  pose proof (AK a c) as Kc. rewrite Z.eqb_refl, Bool.eqb_reflx in Kc. cbn [andb] in Kc.
  pose proof (AK a (negb c)) as Kn. rewrite Z.eqb_refl, eqb_negb_false in Kn. cbn [andb] in Kn.
  unfold akind in Kc, Kn at 1.
  destruct (inv_find a (inv_map n')) as [im' |] eqn:F'; [| lia].
  destruct (ni_c1 _ _ I' _ _ F') as [[p [Hp Hcb]] [Hin _]]. rewrite Es in Hcb, Hin. cbn [ocb omap] in *.
  pose proof (ni_nodup _ _ I') as Nd. rewrite Es in Nd. cbn [omap] in Nd.
  exists n', s', p, (im_loc im').
  repeat (split; [first [exact E | exact I' | exact Es | exact Lq | exact Hp | exact Hcb
                         | eapply NI_SW; eassumption] |]).
  split.
  - assert (Hi : In (id, c, im_loc im') (mapping s')) by (rewrite <- Kc; apply Hin; lia).
    apply (find_map_in _ _ Nd Hi).
  - split; [exact Hcb |]. split; [| exact AK].
    intro Hne. rewrite <- Kn in *. apply (find_map_in _ (kind_id (negb c) im', negb c, im_loc im') Nd).
    apply Hin. exact Hne.
Qed.
