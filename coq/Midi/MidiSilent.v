(* C20 - history level: in a nocross history a parameter message is only
   ever produced by a controller value whose controller has been assigned
   (a midi-use-CC for it reached the non-realtime side while an address was
   queued) *)
From Coq Require Import List ZArith Bool Lia.
From RtoscV Require Import Midi.MidiModel Midi.MidiSpec Midi.MidiProto Midi.MidiNrt Midi.MidiHandshake.
Import ListNotations.
Local Open Scope Z_scope.

Definition bind_in (S : list Z) (m : rmsg) : Prop :=
  match m with RBind s _ => incl (mids (mapping s)) S | _ => True end.

Record HI (w : world) (S : list Z) : Prop := {
  h_n : incl (mids (omap (nstorage (wn w)))) S;
  h_r : incl (mids (omap (rstorage (wr w)))) S;
  h_c : Forall (bind_in S) (chR w)
}.

(* the controllers assigned so far *)
Definition assigned_after (w : world) (e : event) (S : list Z) : list Z :=
  match e, chN w, learnQ (wn w) with
  | EDelN, id :: _, _ :: _ => id :: S
  | _, _, _ => S
  end.

Fixpoint silent_run (ports : list port) (w : world) (S : list Z) (evs : list event) : Prop :=
  match evs with
  | [] => True
  | e :: r =>
      match step ports w e with
      | Some (w', o) =>
          match e with
          | ECC p _ ch n => ~ In (cc_id p ch n) S -> msgs_of o = []
          | _ => msgs_of o = []
          end /\ silent_run ports w' (assigned_after w e S) r
      | None => True
      end
  end.

Lemma msgs_of_out : forall out, msgs_of (map obs_of_rmsg out) = [].
Proof. induction out as [| m out IH]; [reflexivity |]. destruct m; cbn; exact IH. Qed.

Lemma bind_in_weaken : forall S S' ch, incl S S' -> Forall (bind_in S) ch -> Forall (bind_in S') ch.
Proof.
  intros S S' ch I F. induction F as [| m ch Hm F IH]; constructor; [| exact IH].
  destruct m; cbn in *; auto. eapply incl_tran; eassumption.
Qed.

Lemma storage_step_H : forall S o out o', storage_step o out o' -> incl (mids (omap o)) S ->
  incl (mids (omap o')) S /\ Forall (bind_in S) out.
Proof.
  intros S o out o' [[-> ->] | [s' [-> [-> [Hi _]]]]] I.
  - split; [assumption | constructor].
  - split; [cbn [omap]; eapply incl_tran; eassumption |].
    constructor; [cbn; eapply incl_tran; eassumption | constructor].
Qed.

Lemma H_step : forall ports w S e w' o,
  HI w S -> pre_ok0 w e -> step ports w e = Some (w', o) ->
  HI w' (assigned_after w e S) /\
  match e with
  | ECC p _ ch n => ~ In (cc_id p ch n) S -> msgs_of o = []
  | _ => msgs_of o = []
  end.
Proof.
  intros ports w S e w' o [Hn Hr Hc] [Nn [Nr Pre]] Hs.
  destruct e; cbn [step] in Hs; unfold assigned_after.
  - (* map *)
    unfold nrt_result in Hs. destruct (nrt_map (wn w) a c) as [[n' out] |] eqn:M; [| discriminate].
    inversion Hs; subst w' o; clear Hs. cbn [app]. split; [| apply msgs_of_out].
    destruct (map_fact _ _ _ _ _ M Nn) as [[-> ->] | [out0 [-> [_ St]]]].
    + constructor; cbn [wn wr chR]; try assumption. rewrite app_nil_r. assumption.
    + destruct (storage_step_H S _ _ _ St Hn) as [A B].
      constructor; cbn [wn wr chR]; try assumption.
      apply Forall_app. split; [assumption |]. apply Forall_app. split; [assumption |].
      constructor; [exact I | constructor].
  - (* unMap *)
    unfold nrt_result in Hs. destruct (nrt_unmap (wn w) a c) as [[n' out] |] eqn:M; [| discriminate].
    inversion Hs; subst w' o; clear Hs. cbn [app]. split; [| apply msgs_of_out].
    destruct (unmap_fact _ _ _ _ _ M Nn) as [_ St].
    destruct (storage_step_H S _ _ _ St Hn) as [A B].
    constructor; cbn [wn wr chR]; try assumption. apply Forall_app. split; assumption.
  - (* clear *)
    cbn [nrt_clear nrt_result] in Hs. inversion Hs; subst w' o; clear Hs. cbn [app].
    split; [| apply msgs_of_out].
    constructor; cbn [wn wr chR nstorage omap empty_store mapping mids map]; try assumption.
    + intros x [].
    + apply Forall_app. split; [assumption |]. apply Forall_app. split.
      * clear. induction (learnQ (wn w)); constructor; [exact I | assumption].
      * constructor; [cbn; intros x [] | constructor].
  - (* CC *)
    set (id := cc_id par chan nrpn) in *.
    destruct (rt_handleCC (wr w) id val) as [[[r' m] used] |] eqn:E; [| discriminate].
    inversion Hs; subst w' o; clear Hs.
    destruct (handleCC_fact _ _ _ _ _ _ E) as [Hm _].
    split.
    + constructor; cbn [wn wr chR]; try assumption. rewrite Hm. assumption.
    + intro Nin.
      assert (m = None).
      { eapply unassigned_silent; [| exact E]. intro Hin. apply Nin. apply Hr. exact Hin. }
      subst m. destruct used; reflexivity.
  - (* deliver to nRT *)
    destruct (chN w) as [| id rest] eqn:EN.
    + inversion Hs; subst w' o; clear Hs. split; [| reflexivity]. constructor; assumption.
    + rename Pre into Fresh.
      destruct (learnQ (wn w)) as [| [a c] q] eqn:LQ.
      { (* no address waits: the unchanged mapping is sent *)
        destruct (useFreeID_empty ports (wn w) id LQ) as [s' [E Ms]].
        rewrite E in Hs. cbn [nrt_result] in Hs. inversion Hs; subst w' o; clear Hs.
        split; [| reflexivity].
        constructor; cbn [wn wr chR nstorage omap]; try assumption.
        - rewrite Ms. assumption.
        - apply Forall_app. split; [assumption |]. constructor; [| constructor]. cbn. rewrite Ms. assumption. }
      unfold nrt_result in Hs.
      destruct (nrt_useFreeID ports (wn w) id) as [[n' out] |] eqn:UF; [| discriminate].
      inversion Hs; subst w' o; clear Hs.
      destruct (useFreeID_fact _ _ _ _ _ _ _ _ LQ UF Fresh Nn) as [s' [-> [Hst [_ [Hincl _]]]]].
      split; [| reflexivity].
      assert (W : incl S (id :: S)) by (apply incl_tl, incl_refl).
      constructor; cbn [wn wr chR].
      * rewrite Hst. cbn [omap]. eapply incl_tran; [exact Hincl |].
        intros x [<- | Hx]; [left; reflexivity | right; apply Hn; exact Hx].
      * eapply incl_tran; eassumption.
      * apply Forall_app. split; [eapply bind_in_weaken; eassumption |].
        constructor; [| constructor]. cbn. eapply incl_tran; [exact Hincl |].
        intros x [<- | Hx]; [left; reflexivity | right; apply Hn; exact Hx].
  - (* deliver to RT *)
    destruct (chR w) as [| m rest] eqn:ER.
    + inversion Hs; subst w' o; clear Hs. split; [| reflexivity].
      destruct (chN w); constructor; try assumption; rewrite ER; constructor.
    + destruct (rt_deliver (wr w) m) as [r' |] eqn:D; [| discriminate].
      inversion Hs; subst w' o; clear Hs. split; [| reflexivity].
      inversion Hc as [| ? ? Hm Hrest]; subst.
      assert (Hr' : incl (mids (omap (rstorage r'))) S).
      { destruct m; cbn [rt_deliver] in D.
        - inversion D; subst; assumption.
        - inversion D; subst; assumption.
        - destruct (deliver_bind_fact _ _ _ _ D) as [E _]. rewrite E. exact Hm. }
      destruct (chN w); constructor; cbn [wn wr chR]; assumption.
Qed.

Lemma silent_from : forall ports evs w S,
  fresh_run0 ports w evs -> HI w S -> silent_run ports w S evs.
Proof.
  induction evs as [| e es IH]; intros w S F Hh; [exact I |].
  cbn [fresh_run0] in F. destruct F as [Pre F]. cbn [silent_run].
  destruct (step ports w e) as [[w' o] |] eqn:St; [| exact I].
  destruct (H_step _ _ _ _ _ _ Hh Pre St) as [Hh' Sil].
  split; [exact Sil | apply IH; assumption].
Qed.

(* every history, whatever the delivery order: every parameter message comes
   from a controller value whose controller was assigned before; no other
   event produces one *)
Theorem silent_all : forall ports evs U,
  (length U <= 32)%nat -> incl (ccids evs) U -> Forall (fun x => 0 <= x) (ccids evs) ->
  silent_run ports world0 [] evs.
Proof.
  intros ports evs U US Hi Hp.
  apply silent_from.
  - eapply learn_once; eassumption.
  - constructor; cbn; try (intros x []); constructor.
Qed.
