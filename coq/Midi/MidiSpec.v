(* C20 - Spec-side definitions (what the property text says), no proofs.

   nocross: the side condition of the _partial theorems and, literally, the
   predicate `nocross` of tools/props/C20.py (the class bind-crosses-use-cc is
   contained in its complement): computed from the history and the records of
   the run only.  The model driver evaluates it on every generated history and
   the correspondence run compares it with the Python value.
     N1  a midi-bind that is not the answer to a midi-use-CC (map / unMap /
         clear send such binds) is sent only when every pending controller's
         answer is already on its way: the number of pending controllers
         (offered, not yet released by a bind) equals the number of answering
         binds in flight;
     N2  no controller is offered while such a bind is on its way.
   (Stage 1-3 had the stronger `quiescent`: N1 with "nothing is pending".) *)
From Coq Require Import List ZArith Bool.
From RtoscV Require Import Midi.MidiModel.
Import ListNotations.
Local Open Scope Z_scope.

Inductive tag := TW | TR | TBf | TBa.          (* watch, unwatch, foreign bind, answering bind *)

Definition is_OB (o : obs) : bool := match o with OB => true | _ => false end.
Definition is_OU (o : obs) : bool := match o with OU _ => true | _ => false end.
Definition is_TBf (t : tag) : bool := match t with TBf => true | _ => false end.
Definition is_TB (t : tag) : bool := match t with TBf | TBa => true | _ => false end.

Definition op_tags (r : list obs) : list tag :=
  flat_map (fun o => match o with OB => [TBf] | OW => [TW] | OR => [TR] | _ => [] end) r.
Definition ans_tags (r : list obs) : list tag :=
  flat_map (fun o => match o with OB => [TBa] | _ => [] end) r.

Definition is_TBa (t : tag) : bool := match t with TBa => true | _ => false end.
Definition count_TBa (ch : list tag) : Z := Z.of_nat (length (filter is_TBa ch)).

Fixpoint nocross_from (pend : Z) (ch : list tag) (evs : list event) (tr : list (list obs)) : bool :=
  match evs, tr with
  | e :: es, r :: rs =>
      match e with
      | EMap _ _ | EUnmap _ _ | EClear =>
          if existsb is_OB r && negb (pend =? count_TBa ch) then false
          else nocross_from pend (ch ++ op_tags r) es rs
      | ECC _ _ _ _ =>
          if existsb is_OU r then
            if existsb is_TBf ch then false else nocross_from (pend + 1) ch es rs
          else nocross_from pend ch es rs
      | EDelN => nocross_from pend (ch ++ ans_tags r) es rs
      | EDelR =>
          match ch with
          | [] => nocross_from pend ch es rs
          | t :: ch' =>
              nocross_from (if is_TBa t && (0 <? pend) then pend - 1 else pend) ch' es rs
          end
      end
  | _, _ => true
  end.

Definition nocross (evs : list event) (tr : list (list obs)) : bool :=
  nocross_from 0 [] evs tr.

(* The realtime side's pending controllers as the records imply them: an
   offered controller enters at the back, every delivered midi-bind that
   answers a midi-use-CC removes the front.  (`pending_before` of tools/props/C20.py; the classifier compares it
   with the controllers whose answer is outstanding.  The model driver prints
   it and whether it is what the model's ring holds.) *)
Fixpoint pending_from (P : list Z) (ch : list tag) (evs : list event) (tr : list (list obs)) : list Z :=
  match evs, tr with
  | e :: es, r :: rs =>
      match e with
      | EMap _ _ | EUnmap _ _ | EClear => pending_from P (ch ++ op_tags r) es rs
      | ECC _ _ _ _ =>
          pending_from (P ++ flat_map (fun o => match o with OU i => [i] | _ => [] end) r) ch es rs
      | EDelN => pending_from P (ch ++ ans_tags r) es rs
      | EDelR =>
          match ch with
          | [] => pending_from P ch es rs
          | t :: ch' => pending_from (if is_TBa t then tl P else P) ch' es rs
          end
      end
  | _, _ => P
  end.

Definition pending_of (evs : list event) (tr : list (list obs)) : list Z :=
  pending_from [] [] evs tr.

(* 14-bit composition as the text states it: the coarse controller supplies
   bits 7..13, the fine controller bits 0..6 *)
Definition compose14 (coarse : bool) (v old : Z) : Z :=
  if coarse then v * 128 + old mod 128 else (old / 128) * 128 + v.

(* a controller is assigned twice: two assignment records for one id with no
   unMap / clear / map of the first target in between is what D19 produces;
   the refutation below only needs the plain count *)
Definition assigned_targets (id : Z) (tr : list (list obs)) : list (Z * bool) :=
  flat_map (fun r => flat_map (fun o => match o with
                                       | OA i (Some t) => if i =? id then [t] else []
                                       | _ => [] end) r) tr.

Definition msgs_of (r : list obs) : list msg :=
  flat_map (fun o => match o with OM m => [m] | _ => [] end) r.

(* ---- values and their order ------------------------------------------------ *)
From Coq Require Import QArith Qpower Qround.

(* the rational a dyadic denotes *)
Definition dy2Q (x : dy) : Q := inject_Z (fst x) * (2 # 1) ^ (snd x).

(* What the proofs use of the two rounding functions (float, double) for one
   bijection b: IEEE 754 round-to-nearest has all of it as long as nothing
   overflows (max - min of two floats is exact when subnormal, the product of
   a float >= 2^-149 and x/2^14 >= 2^-14 is a normal double).
   The executable model instantiates rf, rd with r24, r53. *)
Record rounding_ok (rf rd : dy -> dy) (b : bij) : Prop := {
  rf_mono : forall x y, dy2Q x <= dy2Q y -> dy2Q (rf x) <= dy2Q (rf y);
  rd_mono : forall x y, dy2Q x <= dy2Q y -> dy2Q (rd x) <= dy2Q (rd y);
  rf_zero : forall z, dy2Q z == 0 -> dy2Q (rf z) == 0;
  rd_zero : forall z, dy2Q z == 0 -> dy2Q (rd z) == 0;
  (* floats (and so doubles): fixed points, whatever their spelling *)
  rf_min : forall z, dy2Q z == dy2Q (bmin b) -> dy2Q (rf z) == dy2Q (bmin b);
  rf_max : forall z, dy2Q z == dy2Q (bmax b) -> dy2Q (rf z) == dy2Q (bmax b);
  rd_min : forall z, dy2Q z == dy2Q (bmin b) -> dy2Q (rd z) == dy2Q (bmin b);
  rd_max : forall z, dy2Q z == dy2Q (bmax b) -> dy2Q (rd z) == dy2Q (bmax b);
  (* relative error of the two roundings whose operand is not a bound *)
  rf_err : dy2Q (rf (dysub (bmax b) (bmin b))) <=
           dy2Q (dysub (bmax b) (bmin b)) * (1 + (1 # 16777216));
  rd_err : forall x, (0 <= x < 16384)%Z ->
           dy2Q (rd (dymul (x, (-14)%Z) (rf (dysub (bmax b) (bmin b))))) <=
           dy2Q (dymul (x, (-14)%Z) (rf (dysub (bmax b) (bmin b)))) * (1 + (1 # 9007199254740992))
}.

(* order and range of message values; an 'i' message carries (int)out *)
Definition mval_le (u v : mval) : Prop :=
  match u, v with
  | VInt a, VInt b => (a <= b)%Z
  | VFloat a, VFloat b => dy2Q a <= dy2Q b
  | _, _ => False
  end.

Definition mval_in_range (p : port) (v : mval) : Prop :=
  match v with
  | VFloat d => pint p = false /\ dy2Q (pmin p) <= dy2Q d <= dy2Q (pmax p)
  | VInt z => pint p = true /\ (dytrunc (pmin p) <= z <= dytrunc (pmax p))%Z
  end.

(* ---- the abstract specification ------------------------------------------------------
   A finite map  controller -> (address, coarse|fine), a FIFO of (address,
   kind)s waiting to learn, the realtime side's copy of the map (it follows
   the non-realtime one with the delay of the channel) and the last 7-bit
   value of every controller in that copy.  No slots, no index vectors, no
   callbacks vector, no inv_map, no ring.  The handshake (which controller is
   offered when) is the protocol's: a FIFO set of offered controllers and
   the count of addresses the realtime side knows to be waiting. *)
Local Open Scope Z_scope.

Definition atab := list (Z * (Z * bool)).

Definition ak_eqb (x y : Z * bool) : bool := (fst x =? fst y)%Z && Bool.eqb (snd x) (snd y).

Fixpoint at_find (id : Z) (t : atab) : option (Z * bool) :=
  match t with
  | [] => None
  | (i, k) :: r => if (i =? id)%Z then Some k else at_find id r
  end.

Fixpoint at_ctl (k : Z * bool) (t : atab) : option Z :=
  match t with
  | [] => None
  | (i, k') :: r => if ak_eqb k' k then Some i else at_ctl k r
  end.

Definition at_remove (k : Z * bool) (t : atab) : atab :=
  filter (fun e => negb (ak_eqb (snd e) k)) t.

Definition v7_get (v7 : list (Z * Z)) (id : Z) : Z :=
  match find (fun e => (fst e =? id)%Z) v7 with Some e => snd e | None => 0%Z end.

Definition part (t : atab) (v7 : list (Z * Z)) (a : Z) (c : bool) : Z :=
  match at_ctl (a, c) t with Some i => v7_get v7 i | None => 0%Z end.

(* the 14-bit value of an address: coarse controller's value in bits 7..13,
   fine controller's in bits 0..6, 0 where there is none *)
Definition comp (t : atab) (v7 : list (Z * Z)) (a : Z) : Z :=
  (part t v7 a true * 128 + part t v7 a false)%Z.

(* ABind t ans: the table, and whether it is the answer to a midi-use-CC *)
Inductive amsg := AWatch | AUnwatch | ABind (t : atab) (ans : bool).

Record astate := {
  a_queue : list (Z * bool);
  a_tab : atab;
  a_chN : list Z;
  a_chR : list amsg;
  a_rtab : atab;
  a_v7 : list (Z * Z);
  a_pend : list Z;
  a_watch : Z
}.

Definition astate0 : astate :=
  {| a_queue := []; a_tab := []; a_chN := []; a_chR := []; a_rtab := []; a_v7 := [];
     a_pend := []; a_watch := 0%Z |}.

Definition obs_of_amsg (m : amsg) : obs :=
  match m with AWatch => OW | AUnwatch => OR | ABind _ _ => OB end.

Definition a_send (s : astate) (q : list (Z * bool)) (t : atab) (cn : list Z) (out : list amsg)
  : astate :=
  {| a_queue := q; a_tab := t; a_chN := cn; a_chR := a_chR s ++ out; a_rtab := a_rtab s;
     a_v7 := a_v7 s; a_pend := a_pend s; a_watch := a_watch s |}.

Definition a_unmap_out (s : astate) (k : Z * bool) : atab * list amsg :=
  match at_ctl k (a_tab s) with
  | Some _ => (at_remove k (a_tab s), [ABind (at_remove k (a_tab s)) false])
  | None => (a_tab s, [])
  end.

Definition mem_z (x : Z) (l : list Z) : bool := existsb (fun y => (y =? x)%Z) l.

Definition astep (ports : list port) (s : astate) (e : event) : astate * list obs :=
  match e with
  | EMap a c =>
      if qmem a c (a_queue s) then (s, [])
      else let '(t, out) := a_unmap_out s (a, c) in
           (a_send s (a_queue s ++ [(a, c)]) t (a_chN s) (out ++ [AWatch]),
            map obs_of_amsg (out ++ [AWatch]))
  | EUnmap a c =>
      let '(t, out) := a_unmap_out s (a, c) in
      (a_send s (a_queue s) t (a_chN s) out, map obs_of_amsg out)
  | EClear =>
      let out := map (fun _ => AUnwatch) (a_queue s) ++ [ABind [] false] in
      (a_send s [] [] (a_chN s) out, map obs_of_amsg out)
  | ECC par val chan nrpn =>
      let id := cc_id par chan nrpn in
      match at_find id (a_rtab s) with
      | Some (a, c) =>
          let v7 := (id, val) :: a_v7 s in
          ({| a_queue := a_queue s; a_tab := a_tab s; a_chN := a_chN s; a_chR := a_chR s;
              a_rtab := a_rtab s; a_v7 := v7; a_pend := a_pend s; a_watch := a_watch s |},
           match nthZ ports a with
           | Some p => [OM (run_cb (mk_cb p a) (comp (a_rtab s) v7 a))]
           | None => []
           end)
      | None =>
          if negb (mem_z id (a_pend s)) && negb (a_watch s =? 0)%Z then
            ({| a_queue := a_queue s; a_tab := a_tab s; a_chN := a_chN s ++ [id]; a_chR := a_chR s;
                a_rtab := a_rtab s; a_v7 := a_v7 s; a_pend := a_pend s ++ [id];
                a_watch := (a_watch s - 1)%Z |}, [OU id])
          else (s, [])
      end
  | EDelN =>
      match a_chN s with
      | [] => (s, [OE])
      | id :: rest =>
          match a_queue s with
          | [] => (a_send s [] (a_tab s) rest [ABind (a_tab s) true], [OA id None; OB])
          | k :: q =>
              let t := a_tab s ++ [(id, k)] in
              (a_send s q t rest [ABind t true], [OA id (Some k); OB])
          end
      end
  | EDelR =>
      match a_chR s with
      | [] => (s, [OE])
      | m :: rest =>
          match m with
          | AWatch =>
              ({| a_queue := a_queue s; a_tab := a_tab s; a_chN := a_chN s; a_chR := rest;
                  a_rtab := a_rtab s; a_v7 := a_v7 s; a_pend := a_pend s;
                  a_watch := (a_watch s + 1)%Z |}, [])
          | AUnwatch =>
              ({| a_queue := a_queue s; a_tab := a_tab s; a_chN := a_chN s; a_chR := rest;
                  a_rtab := a_rtab s; a_v7 := a_v7 s; a_pend := a_pend s;
                  a_watch := if (a_watch s =? 0)%Z then 0%Z else (a_watch s - 1)%Z |}, [])
          | ABind t ans =>
              ({| a_queue := a_queue s; a_tab := a_tab s; a_chN := a_chN s; a_chR := rest;
                  a_rtab := t;
                  a_v7 := map (fun e => (fst e, match at_find (fst e) (a_rtab s) with
                                                | Some _ => v7_get (a_v7 s) (fst e)
                                                | None => 0%Z end)) t;
                  a_pend := (if ans then tl (a_pend s) else a_pend s); a_watch := a_watch s |}, [])
          end
      end
  end.

Fixpoint arun (ports : list port) (s : astate) (es : list event) : list (list obs) :=
  match es with
  | [] => []
  | e :: r => let '(s', o) := astep ports s e in o :: arun ports s' r
  end.
