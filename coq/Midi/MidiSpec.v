(* C20 - Spec-side definitions (what the property text says), no proofs.

   quiescent: the side condition of the _partial theorems and, literally, the
   classifier `bind-crosses-use-cc` of tools/props/C20.py: computed from the
   history and the records of the run only.
     Q1  no midi-bind that is not the answer to a midi-use-CC is sent while a
         controller is pending (offered, its answer not yet arrived);
     Q2  no controller is offered while such a bind is on its way. *)
From Coq Require Import List ZArith Bool.
From RtoscV Require Import Midi.MidiModel.
Import ListNotations.
Local Open Scope Z_scope.

Inductive tag := TW | TR | TBf | TBa.          (* watch, unwatch, foreign bind, answering bind *)

Definition is_OB (o : obs) : bool := match o with OB => true | _ => false end.
Definition is_OU (o : obs) : bool := match o with OU _ => true | _ => false end.
Definition is_TBf (t : tag) : bool := match t with TBf => true | _ => false end.
Definition is_TB (t : tag) : bool := match t with TBf | TBa => true | _ => false end.

Definition op_tags (r : list obs) : list tag :=
  flat_map (fun o => match o with OB => [TBf] | OW => [TW] | OR => [TR] | _ => [] end) r.
Definition ans_tags (r : list obs) : list tag :=
  flat_map (fun o => match o with OB => [TBa] | _ => [] end) r.

Fixpoint quiescent_from (pend : Z) (ch : list tag) (evs : list event) (tr : list (list obs)) : bool :=
  match evs, tr with
  | e :: es, r :: rs =>
      match e with
      | EMap _ _ | EUnmap _ _ | EClear =>
          if existsb is_OB r && negb (pend =? 0) then false
          else quiescent_from pend (ch ++ op_tags r) es rs
      | ECC _ _ _ _ =>
          if existsb is_OU r then
            if existsb is_TBf ch then false else quiescent_from (pend + 1) ch es rs
          else quiescent_from pend ch es rs
      | EDelN => quiescent_from pend (ch ++ ans_tags r) es rs
      | EDelR =>
          match ch with
          | [] => quiescent_from pend ch es rs
          | t :: ch' =>
              quiescent_from (if is_TB t && (0 <? pend) then pend - 1 else pend) ch' es rs
          end
      end
  | _, _ => true
  end.

Definition quiescent (evs : list event) (tr : list (list obs)) : bool :=
  quiescent_from 0 [] evs tr.

(* 14-bit composition as the text states it: the coarse controller supplies
   bits 7..13, the fine controller bits 0..6 *)
Definition compose14 (coarse : bool) (v old : Z) : Z :=
  if coarse then v * 128 + old mod 128 else (old / 128) * 128 + v.

(* a controller is assigned twice: two assignment records for one id with no
   unMap / clear / map of the first target in between is what D19 produces;
   the refutation below only needs the plain count *)
Definition assigned_targets (id : Z) (tr : list (list obs)) : list (Z * bool) :=
  flat_map (fun r => flat_map (fun o => match o with
                                       | OA i (Some t) => if i =? id then [t] else []
                                       | _ => [] end) r) tr.

Definition msgs_of (r : list obs) : list msg :=
  flat_map (fun o => match o with OM m => [m] | _ => [] end) r.

(* ---- values and their order ------------------------------------------------ *)
From Coq Require Import QArith Qpower Qround.

(* the rational a dyadic denotes *)
Definition dy2Q (x : dy) : Q := inject_Z (fst x) * (2 # 1) ^ (snd x).

(* What the proofs use of the two rounding functions (float, double) for one
   bijection b: IEEE 754 round-to-nearest has all of it as long as nothing
   overflows (max - min of two floats is exact when subnormal, the product of
   a float >= 2^-149 and x/2^14 >= 2^-14 is a normal double).
   The executable model instantiates rf, rd with r24, r53. *)
Record rounding_ok (rf rd : dy -> dy) (b : bij) : Prop := {
  rf_mono : forall x y, dy2Q x <= dy2Q y -> dy2Q (rf x) <= dy2Q (rf y);
  rd_mono : forall x y, dy2Q x <= dy2Q y -> dy2Q (rd x) <= dy2Q (rd y);
  rf_zero : forall z, dy2Q z == 0 -> dy2Q (rf z) == 0;
  rd_zero : forall z, dy2Q z == 0 -> dy2Q (rd z) == 0;
  (* floats (and so doubles): fixed points, whatever their spelling *)
  rf_min : forall z, dy2Q z == dy2Q (bmin b) -> dy2Q (rf z) == dy2Q (bmin b);
  rf_max : forall z, dy2Q z == dy2Q (bmax b) -> dy2Q (rf z) == dy2Q (bmax b);
  rd_min : forall z, dy2Q z == dy2Q (bmin b) -> dy2Q (rd z) == dy2Q (bmin b);
  rd_max : forall z, dy2Q z == dy2Q (bmax b) -> dy2Q (rd z) == dy2Q (bmax b);
  (* relative error of the two roundings whose operand is not a bound *)
  rf_err : dy2Q (rf (dysub (bmax b) (bmin b))) <=
           dy2Q (dysub (bmax b) (bmin b)) * (1 + (1 # 16777216));
  rd_err : forall x, (0 <= x < 16384)%Z ->
           dy2Q (rd (dymul (x, (-14)%Z) (rf (dysub (bmax b) (bmin b))))) <=
           dy2Q (dymul (x, (-14)%Z) (rf (dysub (bmax b) (bmin b)))) * (1 + (1 # 9007199254740992))
}.

(* order and range of message values; an 'i' message carries (int)out *)
Definition mval_le (u v : mval) : Prop :=
  match u, v with
  | VInt a, VInt b => (a <= b)%Z
  | VFloat a, VFloat b => dy2Q a <= dy2Q b
  | _, _ => False
  end.

Definition mval_in_range (p : port) (v : mval) : Prop :=
  match v with
  | VFloat d => pint p = false /\ dy2Q (pmin p) <= dy2Q d <= dy2Q (pmax p)
  | VInt z => pint p = true /\ (dytrunc (pmin p) <= z <= dytrunc (pmax p))%Z
  end.
