(* C20 - the handshake for ALL histories (after the D19 fix).

   Only the answer to a midi-use-CC releases a pending controller and every
   midi-use-CC is answered, so - whatever the order in which the two halves'
   messages are delivered, binds of map / unMap / clear crossing offers
   included - the realtime side's pending ring holds, oldest first, exactly
   the controllers whose answer is on its way followed by those whose
   midi-use-CC is on its way.  Consequences: no snapshot on either side holds a
   controller twice, and a midi-use-CC that reaches the non-realtime side is
   for a controller that occurs in no entry of the current snapshot (it is
   never given a second address).  No side condition on the history; at most
   32 distinct controllers (the ring's capacity). *)
From Coq Require Import List ZArith Bool Lia.
From RtoscV Require Import Midi.MidiModel Midi.MidiSpec Midi.MidiProto.
Import ListNotations.
Local Open Scope Z_scope.

(* the tags of the messages in flight after an event (as nocross_from /
   pending_from thread them) *)
Definition tstep (ch : list tag) (e : event) (r : list obs) : list tag :=
  match e with
  | EMap _ _ | EUnmap _ _ | EClear => ch ++ op_tags r
  | ECC _ _ _ _ => ch
  | EDelN => ch ++ ans_tags r
  | EDelR => tl ch
  end.

Lemma pending_from_tstep : forall P ch e es r rs,
  pending_from P ch (e :: es) (r :: rs) = pending_from (pstep P ch e r) (tstep ch e r) es rs.
Proof.
  intros. destruct e; cbn [pending_from pstep tstep tl]; try reflexivity.
  destruct ch; reflexivity.
Qed.

(* what is promised at each event *)
Definition pre_ok0 (w : world) (e : event) : Prop :=
  NoDup (mids (omap (nstorage (wn w)))) /\ NoDup (mids (omap (rstorage (wr w)))) /\
  match e, chN w with
  | EDelN, id :: _ => ~ In id (mids (omap (nstorage (wn w))))
  | _, _ => True
  end.

Fixpoint fresh_run0 (ports : list port) (w : world) (evs : list event) : Prop :=
  match evs with
  | [] => True
  | e :: r => pre_ok0 w e /\
              match step ports w e with
              | Some (w', _) => fresh_run0 ports w' r
              | None => True
              end
  end.

Section Handshake0.
  Variable U : list Z.
  Hypothesis U_small : (length U <= 32)%nat.
  Variable ports : list port.

  Record HSI (nst : option store) (r : rt) (cn : list Z) (cr : list rmsg)
            (tg : list tag) (P A : list Z) : Prop := {
    h_rep : pq_rep (pending r) P;
    h_P : P = A ++ cn;
    h_nodup : NoDup P;
    h_pos : Forall (fun x => 0 <= x) P;
    h_inU : incl P U;
    h_chain : chain (omap (rstorage r)) cr tg A;
    h_rnodup : NoDup (mids (omap (rstorage r)));
    h_last : omap nst = lastm (omap (rstorage r)) cr;
    h_disj : forall x, In x (mids (omap (rstorage r))) -> ~ In x P
  }.

  Definition HP (w : world) (tg : list tag) (P : list Z) : Prop :=
    exists A, HSI (nstorage (wn w)) (wr w) (chN w) (chR w) tg P A.

  Lemma HP0 : HP world0 [] [].
  Proof.
    exists []. constructor; cbn; try apply pq_rep0; try constructor; try reflexivity.
    - intros x [].
    - intros x [].
  Qed.

  Lemma HSI_nst_nodup : forall nst r cn cr tg P A, HSI nst r cn cr tg P A -> NoDup (mids (omap nst)).
  Proof.
    intros nst r cn cr tg P A H. rewrite (h_last _ _ _ _ _ _ _ H).
    eapply chain_last_nodup; [apply (h_chain _ _ _ _ _ _ _ H) | apply (h_rnodup _ _ _ _ _ _ _ H)].
  Qed.

  Lemma HSI_fresh : forall nst r id rest cr tg P A, HSI nst r (id :: rest) cr tg P A ->
    ~ In id (mids (omap nst)).
  Proof.
    intros nst r id rest cr tg P A H. destruct H.
    rewrite h_last0. intro Hin. apply (chain_last_incl _ _ _ _ h_chain0) in Hin.
    apply in_app_iff in Hin. destruct Hin as [Hin | Hin].
    - apply (h_disj0 _ Hin). rewrite h_P0. apply in_app_iff. right. left. reflexivity.
    - rewrite h_P0 in h_nodup0. apply NoDup_remove_2 in h_nodup0.
      apply h_nodup0. apply in_app_iff. left. exact Hin.
  Qed.

  Lemma HSI_op : forall nst r cn cr tg P A nst' out,
    HSI nst r cn cr tg P A -> storage_step nst out nst' ->
    HSI nst' r cn (cr ++ out) (tg ++ out_tags out) P A.
  Proof.
    intros nst r cn cr tg P A nst' out H S.
    destruct S as [[-> ->] | [s' [-> [-> [Hi Hn]]]]].
    - cbn. rewrite !app_nil_r. exact H.
    - destruct H. cbn [out_tags map]. constructor; try assumption.
      + rewrite <- (app_nil_r A). apply chain_app; [assumption | auto |].
        constructor; [rewrite <- h_last0; assumption | assumption | constructor].
      + rewrite lastm_app. reflexivity.
  Qed.

  Lemma HSI_watch : forall nst r cn cr tg P A,
    HSI nst r cn cr tg P A -> HSI nst r cn (cr ++ [RWatch]) (tg ++ [TW]) P A.
  Proof.
    intros nst r cn cr tg P A H. destruct H. constructor; try assumption.
    - rewrite <- (app_nil_r A). apply chain_app; [assumption | auto |]. repeat constructor.
    - rewrite lastm_app. assumption.
  Qed.

  Lemma HSI_clear : forall nst r cn cr tg P A (lq : list (Z * bool)),
    HSI nst r cn cr tg P A ->
    HSI (Some empty_store) r cn (cr ++ map (fun _ => RUnwatch) lq ++ [RBind empty_store (-1)])
       (tg ++ map (fun _ => TR) lq ++ [TBf]) P A.
  Proof.
    intros nst r cn cr tg P A lq H. destruct H. constructor; try assumption.
    - rewrite !app_assoc. rewrite <- (app_nil_r A).
      apply chain_app; [apply chain_app_TRs; assumption | auto |].
      constructor; [intros x [] | constructor | constructor].
    - rewrite !app_assoc, lastm_app. reflexivity.
  Qed.

  Lemma H_step : forall w tg P e w' r,
    HP w tg P -> ev_ok U e -> step ports w e = Some (w', r) ->
    pre_ok0 w e /\ HP w' (tstep tg e r) (pstep P tg e r).
  Proof.
    intros w tg P e w' r [A I] Hev Hs.
    pose proof (HSI_nst_nodup _ _ _ _ _ _ _ I) as Nn.
    pose proof (h_rnodup _ _ _ _ _ _ _ I) as Nr.
    destruct e; cbn [step] in Hs; cbn [pstep tstep].
    - (* map *)
      split; [repeat split; assumption |].
      unfold nrt_result in Hs. destruct (nrt_map (wn w) a c) as [[n' out] |] eqn:M; [| discriminate].
      inversion Hs; subst w' r; clear Hs. cbn [app]. rewrite op_tags_out.
      exists A. cbn [wn wr chN chR].
      destruct (map_fact _ _ _ _ _ M Nn) as [[-> ->] | [out0 [-> [LQ S]]]].
      + cbn. rewrite !app_nil_r. exact I.
      + unfold out_tags. rewrite map_app, !app_assoc. cbn [map].
        apply HSI_watch. apply HSI_op with (nst := nstorage (wn w)); assumption.
    - (* unMap *)
      split; [repeat split; assumption |].
      unfold nrt_result in Hs. destruct (nrt_unmap (wn w) a c) as [[n' out] |] eqn:M; [| discriminate].
      inversion Hs; subst w' r; clear Hs. cbn [app]. rewrite op_tags_out.
      exists A. cbn [wn wr chN chR].
      destruct (unmap_fact _ _ _ _ _ M Nn) as [LQ S].
      apply HSI_op with (nst := nstorage (wn w)); assumption.
    - (* clear *)
      split; [repeat split; assumption |].
      cbn [nrt_clear nrt_result] in Hs. inversion Hs; subst w' r; clear Hs. cbn [app].
      rewrite map_app. cbn [map obs_of_rmsg]. rewrite op_tags_clear.
      exists A. cbn [wn wr chN chR nstorage].
      apply HSI_clear with (nst := nstorage (wn w)). assumption.
    - (* CC *)
      split; [repeat split; assumption |].
      destruct Hev as [HU Hpos]. set (id := cc_id par chan nrpn) in *.
      destruct (rt_handleCC (wr w) id val) as [[[r' m] used] |] eqn:H; [| discriminate].
      inversion Hs; subst w' r; clear Hs.
      destruct (handleCC_fact _ _ _ _ _ _ H) as [Hm [Hf Ht]].
      rewrite ou_ids_cc. destruct used.
      + destruct (Ht eq_refl) as [-> [Hnot [Hhas [Hw0 [Hins Hw]]]]].
        destruct I.
        assert (HnP : ~ In id P).
        { intro Hin. apply (pq_has_spec _ _ id h_rep0) in Hin; [congruence | lia]. }
        assert (Hcap : zlen P < 32).
        { assert (N2 : NoDup (id :: P)) by (constructor; assumption).
          assert (I2 : incl (id :: P) U) by (intros x [-> | Hx]; [assumption | apply h_inU0; assumption]).
          pose proof (NoDup_incl_length N2 I2) as L. cbn [length] in L. unfold zlen. lia. }
        destruct (pq_insert_spec _ _ id h_rep0) as [q' [Eq Rq]]; try assumption; try lia.
        rewrite Hins in Eq. inversion Eq; subst q'; clear Eq.
        exists A. cbn [wn wr chN chR].
        constructor.
        * assumption.
        * rewrite h_P0, app_assoc. reflexivity.
        * apply NoDup_snoc; assumption.
        * apply Forall_app. split; [assumption | constructor; [exact Hpos | constructor]].
        * apply incl_app; [assumption | intros x [-> | []]; assumption].
        * rewrite Hm. assumption.
        * rewrite Hm. assumption.
        * rewrite Hm. assumption.
        * rewrite Hm. intros x Hx Hin. apply in_app_iff in Hin. destruct Hin as [Hin | [-> | []]].
          -- eapply h_disj0; eassumption.
          -- apply Hnot. exact Hx.
      + destruct (Hf eq_refl) as [Hp Hw]. rewrite app_nil_r.
        exists A. cbn [wn wr chN chR]. destruct I.
        constructor; try assumption; try (rewrite Hm; assumption); try (rewrite Hp; assumption).
    - (* deliver to nRT *)
      unfold pre_ok0.
      destruct (chN w) as [| id rest] eqn:EN.
      + split; [repeat split; assumption |].
        inversion Hs; subst w' r; clear Hs. cbn [ans_tags flat_map app]. rewrite app_nil_r.
        exists A. rewrite EN. exact I.
      + pose proof (HSI_fresh _ _ _ _ _ _ _ _ I) as Fresh.
        split; [repeat split; assumption |].
        destruct I.
        assert (HinP : In id P) by (rewrite h_P0; apply in_app_iff; right; left; reflexivity).
        assert (Hid : id <> -1).
        { pose proof h_pos0 as Gp. rewrite Forall_forall in Gp. specialize (Gp _ HinP). lia. }
        unfold nrt_result in Hs.
        destruct (nrt_useFreeID ports (wn w) id) as [[n' out] |] eqn:UF; [| discriminate].
        inversion Hs; subst w' r; clear Hs.
        assert (HX : exists s', out = [RBind s' id] /\ nstorage n' = Some s' /\
                       incl (mids (mapping s')) (id :: mids (omap (nstorage (wn w)))) /\
                       NoDup (mids (mapping s'))).
        { destruct (learnQ (wn w)) as [| [a c] q] eqn:LQ.
          - destruct (useFreeID_empty ports (wn w) id LQ) as [s' [E Ms]].
            rewrite E in UF. inversion UF; subst n' out. exists s'. cbn [nstorage].
            repeat split; try reflexivity.
            + rewrite Ms. apply incl_tl, incl_refl.
            + rewrite Ms. exact Nn.
          - destruct (useFreeID_fact _ _ _ _ _ _ _ _ LQ UF Fresh Nn) as [s' [-> [Hst [_ [Hincl Hnd]]]]].
            exists s'. auto. }
        destruct HX as [s' [-> [Hst [Hincl Hnd]]]].
        cbn [map obs_of_rmsg app ans_tags flat_map].
        exists (A ++ [id]). cbn [wn wr chN chR]. rewrite Hst.
        constructor; try assumption.
        * rewrite h_P0, <- app_assoc. reflexivity.
        * apply chain_app; [assumption | auto |].
          constructor; [exact Hid | rewrite <- h_last0; assumption | assumption | constructor].
        * rewrite lastm_app. reflexivity.
    - (* deliver to RT *)
      split; [repeat split; assumption |].
      destruct I. subst P.
      destruct (chR w) as [| m rest] eqn:ER.
      + assert (HH : tg = [] /\ A = []) by (inversion h_chain0; auto). destruct HH as [-> ->].
        inversion Hs; subst w' r; clear Hs. cbn [tl].
        exists []. rewrite ER. constructor; try assumption. reflexivity.
      + destruct (rt_deliver (wr w) m) as [r' |] eqn:D; [| discriminate].
        inversion Hs; subst w' r; clear Hs. cbn [wn wr chN chR].
        inversion h_chain0 as [| ? ? tgr ? C | ? ? tgr ? C | ? s ? tgr ? Hi Hn C | ? s id ? tgr A' Hid Hi Hn C]; subst;
          cbn [tl is_TBa].
        * (* add-watch *)
          cbn [rt_deliver] in D. inversion D; subst r'; clear D.
          exists A. cbn [wn wr chN chR]. cbn [rstorage pending watch] in *.
          constructor; try assumption; cbn [rstorage pending watch]; try assumption; try reflexivity.
        * (* remove-watch *)
          cbn [rt_deliver] in D. inversion D; subst r'; clear D.
          exists A. cbn [wn wr chN chR]. cbn [rstorage pending watch] in *.
          constructor; try assumption; cbn [rstorage pending watch]; try assumption; try reflexivity.
        * (* a bind that answers nothing: nobody is released *)
          destruct (deliver_bind_fact _ _ _ _ D) as [Hm [Hpop Hw]].
          cbn [Z.eqb Pos.eqb Z.opp] in Hpop. inversion Hpop as [Hp].
          exists A. cbn [wn wr chN chR]. cbn [lastm] in h_last0.
          constructor; try assumption; try (rewrite <- Hp; assumption); try (rewrite Hm; assumption);
            try reflexivity.
          rewrite Hm. intros x Hx. apply h_disj0. apply Hi. exact Hx.
        * (* an answer: its controller is the oldest pending one *)
          destruct (deliver_bind_fact _ _ _ _ D) as [Hm [Hpop Hw]].
          cbn [app] in *.
          destruct (Z.eqb_spec id (-1)) as [E1 | _]; [contradiction |].
          destruct (pq_pop_spec _ _ _ h_rep0) as [q' [Eq Rq]]. rewrite Hpop in Eq. inversion Eq; subst q'; clear Eq.
          inversion h_nodup0 as [| ? ? Hni Nd]; subst.
          exists A'. cbn [wn wr chN chR]. cbn [lastm] in h_last0. cbn [tl].
          constructor; try assumption; try (rewrite Hm; assumption); try reflexivity.
          -- inversion h_pos0; assumption.
          -- intros x Hx. apply h_inU0. right. exact Hx.
          -- rewrite Hm. intros x Hx Hin. apply Hi in Hx. destruct Hx as [<- | Hx].
             ++ contradiction.
             ++ apply (h_disj0 x Hx). right. exact Hin.
  Qed.

  Lemma H_run : forall evs w tg P tr fin,
    HP w tg P -> Forall (ev_ok U) evs -> run ports w evs = (tr, fin) ->
    fresh_run0 ports w evs /\
    (forall w', fin = Some w' -> exists tg', HP w' tg' (pending_from P tg evs tr)).
  Proof.
    induction evs as [| e es IH]; intros w tg P tr fin HH Hev Hr.
    - cbn [run] in Hr. inversion Hr; subst tr fin. split; [exact Logic.I |].
      intros w' E. inversion E; subst w'. exists tg. exact HH.
    - cbn [run] in Hr. cbn [fresh_run0]. inversion Hev; subst.
      destruct (step ports w e) as [[w1 o] |] eqn:S.
      + destruct (run ports w1 es) as [tr' fin'] eqn:R. inversion Hr; subst tr fin; clear Hr.
        destruct (H_step _ _ _ _ _ _ HH H1 S) as [Hpre HH'].
        destruct (IH _ _ _ _ _ HH' H2 R) as [F1 F2].
        split; [split; assumption |].
        rewrite pending_from_tstep. exact F2.
      + inversion Hr; subst tr fin; clear Hr.
        split; [| intros w' E; discriminate].
        split; [| exact Logic.I].
        (* the promise at the event that crashes: from the invariant alone *)
        destruct HH as [A I].
        pose proof (HSI_nst_nodup _ _ _ _ _ _ _ I) as Nn.
        pose proof (h_rnodup _ _ _ _ _ _ _ I) as Nr.
        unfold pre_ok0. split; [assumption |]. split; [assumption |].
        destruct e; try exact Logic.I.
        destruct (chN w) as [| id rest] eqn:EN; [exact Logic.I |].
        eapply HSI_fresh. exact I.
  Qed.
End Handshake0.

(* Every history (no side condition) over at most 32 distinct controllers:
   at every event no snapshot on either side holds a controller twice, and a
   midi-use-CC <id> that reaches the non-realtime side is for a controller
   that occurs in no entry of the current snapshot. *)
Theorem learn_once : forall ports evs U,
  (length U <= 32)%nat -> incl (ccids evs) U -> Forall (fun x => 0 <= x) (ccids evs) ->
  fresh_run0 ports world0 evs.
Proof.
  intros ports evs U US Hi Hp.
  destruct (run ports world0 evs) as [tr fin] eqn:R.
  destruct (H_run U US ports evs world0 [] [] tr fin (HP0 U) (ev_ok_all _ _ Hi Hp) R) as [F _].
  exact F.
Qed.

(* ... and the pending ring holds exactly the controllers the records imply
   (pending_of: offered controllers enter at the back, every delivered
   answering bind removes the front), each once: those whose answer is on its
   way (at most one per message in the queue), then those whose midi-use-CC is
   on its way. *)
Theorem pending_exact : forall ports evs tr w U,
  (length U <= 32)%nat -> incl (ccids evs) U -> Forall (fun x => 0 <= x) (ccids evs) ->
  run ports world0 evs = (tr, Some w) ->
  pq_rep (pending (wr w)) (pending_of evs tr) /\ NoDup (pending_of evs tr) /\
  exists A, pending_of evs tr = A ++ chN w /\ (length A <= length (chR w))%nat.
Proof.
  intros ports evs tr w U US Hi Hp Hr.
  destruct (H_run U US ports evs world0 [] [] tr (Some w) (HP0 U) (ev_ok_all _ _ Hi Hp) Hr) as [_ F].
  destruct (F w eq_refl) as [tg' [A I]].
  fold (pending_of evs tr) in I. destruct I.
  split; [assumption |]. split; [assumption |].
  exists A. split; [assumption |].
  rewrite <- (chain_len _ _ _ _ h_chain0).
  pose proof (chain_count _ _ _ _ h_chain0) as C. unfold zlen, count_TBa in C.
  apply Nat2Z.inj in C. rewrite C. apply filter_len_le.
Qed.
