(* C20 - proofs about Midi/MidiModel.v against Midi/MidiSpec.v *)
From Coq Require Import List ZArith Bool Lia.
From RtoscV Require Import Midi.MidiModel Midi.MidiSpec.
Import ListNotations.
Local Open Scope Z_scope.

(* ------------------------------------------------------------------------ *)
(* 14-bit composition: the bit operations of handleCC are the arithmetic of
   the text                                                                  *)

Lemma lor_disjoint_add : forall a b k, 0 <= k -> 0 <= b < 2 ^ k ->
  Z.lor (a * 2 ^ k) b = a * 2 ^ k + b.
Proof.
  intros a b k Hk Hb.
  rewrite <- Z.shiftl_mul_pow2 by lia.
  rewrite <- Z.lxor_lor, <- Z.add_nocarry_lxor; try reflexivity.
  all: apply Z.bits_inj'; intros n Hn; rewrite Z.land_spec, Z.bits_0;
    destruct (Z.ltb_spec n k) as [Hlt | Hge].
  1,3: rewrite Z.shiftl_spec_low by lia; reflexivity.
  all: assert (Hbn : Z.testbit b n = false);
    [ destruct (Z.eq_dec b 0) as [-> | Hnz]; [apply Z.bits_0 |];
      apply Z.bits_above_log2; try lia;
      apply Z.lt_le_trans with k; [apply Z.log2_lt_pow2; lia | lia]
    | rewrite Hbn; apply andb_false_r ].
Qed.

Lemma blit_compose : forall c v old, 0 <= v < 128 -> 0 <= old < 16384 ->
  blit c v old = compose14 c v old /\ 0 <= blit c v old < 16384.
Proof.
  intros c v old Hv Ho.
  assert (E : blit c v old = compose14 c v old).
  { unfold blit, compose14. destruct c.
    - rewrite Z.shiftl_mul_pow2 by lia.
      change 127 with (Z.ones 7). rewrite Z.land_ones by lia.
      rewrite lor_disjoint_add by (try lia; apply Z.mod_pos_bound; lia).
      reflexivity.
    - replace 16256 with (Z.shiftl (Z.ones 7) 7) by reflexivity.
      assert (H : Z.land old (Z.shiftl (Z.ones 7) 7) = (old / 128) * 128).
      { apply Z.bits_inj'; intros n Hn.
        rewrite Z.land_spec.
        replace (old / 128 * 128) with (Z.shiftl (Z.shiftr old 7) 7)
          by (rewrite Z.shiftl_mul_pow2, Z.shiftr_div_pow2 by lia; reflexivity).
        destruct (Z.ltb_spec n 7).
        + rewrite !Z.shiftl_spec_low by lia. apply andb_false_r.
        + rewrite !Z.shiftl_spec by lia. rewrite Z.shiftr_spec by lia.
          replace (n - 7 + 7) with n by lia.
          destruct (Z.ltb_spec (n - 7) 7).
          * rewrite Z.ones_spec_low by lia. apply andb_true_r.
          * rewrite Z.ones_spec_high by lia. rewrite andb_false_r.
            symmetry. destruct (Z.eq_dec old 0) as [-> | Hnz]; [apply Z.bits_0 |].
            apply Z.bits_above_log2; try lia.
            apply Z.lt_le_trans with 14; [apply Z.log2_lt_pow2; lia | lia]. }
      rewrite H, Z.lor_comm.
      change 128 with (2 ^ 7). rewrite lor_disjoint_add; lia. }
  split; [exact E |].
  rewrite E. unfold compose14. destruct c.
  - pose proof (Z.mod_pos_bound old 128). lia.
  - assert (0 <= old / 128 < 128) by (split; [apply Z.div_pos; lia | apply Z.div_lt_upper_bound; lia]).
    lia.
Qed.

(* MidiMapperStorage::handleCC: the first mapping entry of the controller
   decides; its value slot becomes the 14-bit composition, exactly one
   callback (that slot's) is run on it *)
Theorem compose_14bit : forall s id v t old c,
  find_map id (mapping s) = Some t ->
  nthZ (values s) (me_ind t) = Some old ->
  nthZ (callbacks s) (me_ind t) = Some c ->
  0 <= v < 128 -> 0 <= old < 16384 ->
  exists vs,
    updZ (values s) (me_ind t) (compose14 (me_coarse t) v old) = Some vs /\
    store_handleCC s id v =
      Some ({| mapping := mapping s; callbacks := callbacks s; values := vs |},
            Some (run_cb c (compose14 (me_coarse t) v old))) /\
    0 <= compose14 (me_coarse t) v old < 16384.
Proof.
  intros s id v t old c Hf Hv Hc Hr Ho.
  destruct (blit_compose (me_coarse t) v old Hr Ho) as [E B].
  assert (Hu : exists vs, updZ (values s) (me_ind t) (blit (me_coarse t) v old) = Some vs).
  { unfold nthZ, updZ in *. destruct (me_ind t <? 0); [discriminate |].
    revert Hv. generalize (Z.to_nat (me_ind t)) as i. generalize (values s) as l.
    induction l as [| h l IH]; intros [| i] H; simpl in *; try discriminate; eauto.
    destruct (IH i H) as [vs ->]. eauto. }
  destruct Hu as [vs Hu]. exists vs.
  unfold store_handleCC. rewrite Hf, Hv, Hc, Hu, <- E. auto.
Qed.

(* an unassigned controller is silent *)
Theorem unmapped_silent : forall s id v,
  find_map id (mapping s) = None -> store_handleCC s id v = Some (s, None).
Proof. intros s id v H. unfold store_handleCC. rewrite H. reflexivity. Qed.

(* ------------------------------------------------------------------------ *)
(* D19: the full statement is false of the model                             *)

Definition d19_ports : list port :=
  [ {| pint := true;  pmin := (0, 0);  pmax := (127, 0) |};
    {| pint := false; pmin := (0, 0);  pmax := (1, 0) |};
    {| pint := false; pmin := (-3, -1); pmax := (11, -2) |};
    {| pint := true;  pmin := (-8, 0); pmax := (1000, 0) |} ].

(* map p2, learn it with controller 7; queue p0 and p1; controller 5 is
   offered; unMap p2's bind crosses and pops 5; 5 is offered again; both
   offers are served; unMap p0 *)
Definition d19_history : list event :=
  [ EMap 2 true; EDelR; ECC 7 1 1 false; EDelN; EDelR;
    EMap 0 true; EMap 1 true; EDelR; EDelR;
    ECC 5 64 1 false; EUnmap 2 true; EDelR; ECC 5 65 1 false;
    EDelN; EDelN; EDelR; EDelR;
    ECC 5 66 1 false; EUnmap 0 true; EDelR; ECC 5 67 1 false; ECC 0 9 1 false ].

(* D19's history on the repaired code (the witness against the old functions:
   MidiRegress.d19_refuted).  The bind of unMap p2 crosses the offer of
   controller 5 (nocross = false) and releases nothing: 5 is not offered a
   second time, it takes p0 only and drives it; p1 stays queued; after unMap p0
   controller 5 is free and is offered for p1; controller 0 stays silent.  The
   records are the abstract specification's. *)
Lemma d19_repaired :
  exists tr fin,
    run d19_ports world0 d19_history = (tr, Some fin) /\
    nocross d19_history tr = false /\
    tr = arun d19_ports astate0 d19_history /\
    nth_error tr 12 = Some [] /\
    assigned_targets 5 tr = [(0, true)] /\
    nth_error tr 17 = Some [OM {| maddr := 0; mvalue := VInt 66 |}] /\
    nth_error tr 20 = Some [OU 5] /\
    learnQ (wn fin) = [(1, true)] /\ chN fin = [5] /\
    assigned_targets 0 tr = [] /\
    nth_error tr 21 = Some [].
Proof.
  eexists. eexists. split; [vm_compute; reflexivity |].
  split; [vm_compute; reflexivity |]. split; [vm_compute; reflexivity |].
  vm_compute. repeat split; reflexivity.
Qed.

(* a fully synchronous history is nocross and does what the text says *)
Definition sync_history : list event :=
  [ EMap 1 true; EDelR; ECC 5 64 1 false; EDelN; EDelR; ECC 5 127 1 false;
    EMap 1 false; EDelR; ECC 6 3 1 false; EDelN; EDelR; ECC 6 5 1 false;
    EUnmap 1 true; EDelR; ECC 5 1 1 false ].

Lemma nocross_nonvacuous :
  exists tr fin, run d19_ports world0 sync_history = (tr, Some fin) /\
    nocross sync_history tr = true /\
    assigned_targets 5 tr = [(1, true)] /\ assigned_targets 6 tr = [(1, false)] /\
    option_map msgs_of (nth_error tr 11) =
      Some [ {| maddr := 1; mvalue := VFloat (bi_float {| bmin := (0, 0); bmax := (1, 0) |} (127 * 128 + 5)) |} ] /\
    nth_error tr 14 = Some [].
Proof.
  eexists. eexists. split; [vm_compute; reflexivity |].
  vm_compute. repeat split; reflexivity.
Qed.
