(* C20 - the history predicates without the "a failed step ends the claim"
   branch.  fresh_run0 / fresh_run / silent_run (MidiHandshake, MidiProto,
   MidiSilent) are lenient: where [step] returns None (the C++ code would
   crash) they say True about the rest of the history.  Here the strict
   forms (None => False) are stated and obtained by composing the lenient
   theorems with crash-freedom (MidiInv.crash_free): under the hypotheses of
   crash_free - at most 32 controllers, every event admissible ([evok]:
   mapped addresses in the port table, controller ids >= 0, 7-bit values) -
   no step of the history fails, so the claim covers every event. *)
From Coq Require Import List ZArith Bool Lia.
From RtoscV Require Import Midi.MidiModel Midi.MidiSpec Midi.MidiProto Midi.MidiNrt
  Midi.MidiHandshake Midi.MidiSilent Midi.MidiInv Midi.MidiCapacity.
Import ListNotations.
Local Open Scope Z_scope.

Fixpoint fresh_run0_total (ports : list port) (w : world) (evs : list event) : Prop :=
  match evs with
  | [] => True
  | e :: r => pre_ok0 w e /\
              match step ports w e with
              | Some (w', _) => fresh_run0_total ports w' r
              | None => False
              end
  end.

Fixpoint fresh_run_total (ports : list port) (w : world) (evs : list event) : Prop :=
  match evs with
  | [] => True
  | e :: r => pre_ok w e /\
              match step ports w e with
              | Some (w', _) => fresh_run_total ports w' r
              | None => False
              end
  end.

Fixpoint silent_run_total (ports : list port) (w : world) (S : list Z) (evs : list event) : Prop :=
  match evs with
  | [] => True
  | e :: r =>
      match step ports w e with
      | Some (w', o) =>
          match e with
          | ECC p _ ch n => ~ In (cc_id p ch n) S -> msgs_of o = []
          | _ => msgs_of o = []
          end /\ silent_run_total ports w' (assigned_after w e S) r
      | None => False
      end
  end.

(* on a history that runs to its end the lenient and the strict form agree *)
Lemma fresh0_total : forall ports evs w tr fin,
  run ports w evs = (tr, Some fin) -> fresh_run0 ports w evs -> fresh_run0_total ports w evs.
Proof.
  intros ports. induction evs as [| e r IH]; intros w tr fin Hr F; [exact I |].
  cbn [run] in Hr. cbn [fresh_run0] in F. cbn [fresh_run0_total]. destruct F as [P F]. split; [exact P |].
  destruct (step ports w e) as [[w' o] |]; [| discriminate].
  destruct (run ports w' r) as [tr' fin'] eqn:R. inversion Hr; subst. eapply IH; eassumption.
Qed.

Lemma fresh_total : forall ports evs w tr fin,
  run ports w evs = (tr, Some fin) -> fresh_run ports w evs -> fresh_run_total ports w evs.
Proof.
  intros ports. induction evs as [| e r IH]; intros w tr fin Hr F; [exact I |].
  cbn [run] in Hr. cbn [fresh_run] in F. cbn [fresh_run_total]. destruct F as [P F]. split; [exact P |].
  destruct (step ports w e) as [[w' o] |]; [| discriminate].
  destruct (run ports w' r) as [tr' fin'] eqn:R. inversion Hr; subst. eapply IH; eassumption.
Qed.

Lemma silent_total : forall ports evs w S tr fin,
  run ports w evs = (tr, Some fin) -> silent_run ports w S evs -> silent_run_total ports w S evs.
Proof.
  intros ports. induction evs as [| e r IH]; intros w S tr fin Hr F; [exact I |].
  cbn [run] in Hr. cbn [silent_run] in F. cbn [silent_run_total].
  destruct (step ports w e) as [[w' o] |]; [| discriminate].
  destruct F as [P F]. split; [exact P |].
  destruct (run ports w' r) as [tr' fin'] eqn:R. inversion Hr; subst. eapply IH; eassumption.
Qed.

(* the three history theorems, composed with crash_free *)
Theorem learn_once_total : forall ports evs U,
  (length U <= 32)%nat -> incl (ccids evs) U -> Forall (evok ports) evs ->
  fresh_run0_total ports world0 evs /\
  exists tr w, run ports world0 evs = (tr, Some w) /\ length tr = length evs.
Proof.
  intros ports evs U US Hi He.
  destruct (run ports world0 evs) as [tr fin] eqn:R.
  destruct (crash_free ports evs tr fin U US Hi He R) as (L & w & -> & _).
  split; [| exists tr, w; split; [reflexivity | exact L]].
  eapply fresh0_total; [exact R |]. eapply learn_once; try eassumption. eapply evok_ccids; eassumption.
Qed.

Theorem nocross_fresh_total : forall ports evs tr fin U,
  (length U <= 32)%nat -> incl (ccids evs) U -> Forall (evok ports) evs ->
  run ports world0 evs = (tr, fin) -> nocross evs tr = true ->
  fresh_run_total ports world0 evs /\ length tr = length evs /\ exists w, fin = Some w.
Proof.
  intros ports evs tr fin U US Hi He R Hq.
  destruct (crash_free ports evs tr fin U US Hi He R) as (L & w & -> & _).
  split; [| split; [exact L | exists w; reflexivity]].
  eapply fresh_total; [exact R |].
  eapply nocross_fresh; try eassumption. eapply evok_ccids; eassumption.
Qed.

Theorem silent_all_total : forall ports evs U,
  (length U <= 32)%nat -> incl (ccids evs) U -> Forall (evok ports) evs ->
  silent_run_total ports world0 [] evs.
Proof.
  intros ports evs U US Hi He.
  destruct (run ports world0 evs) as [tr fin] eqn:R.
  destruct (crash_free ports evs tr fin U US Hi He R) as (L & w & -> & _).
  eapply silent_total; [exact R |]. eapply silent_all; try eassumption. eapply evok_ccids; eassumption.
Qed.

(* the hypotheses are satisfiable: two learns, a fine controller and an unMap *)
Definition tot_ports : list port :=
  [ {| pint := true;  pmin := (0, 0);  pmax := (127, 0) |};
    {| pint := false; pmin := (0, 0);  pmax := (1, 0) |} ].
Definition tot_history : list event :=
  [ EMap 1 true; EDelR; ECC 5 64 1 false; EDelN; EDelR; ECC 5 127 1 false;
    EMap 1 false; EDelR; ECC 6 3 1 false; EDelN; EDelR; ECC 6 5 1 false;
    EUnmap 1 true; EDelR; ECC 5 1 1 false ].

Lemma total_nonvacuous :
  (length [5; 6] <= 32)%nat /\ incl (ccids tot_history) [5; 6] /\ Forall (evok tot_ports) tot_history /\
  exists tr fin, run tot_ports world0 tot_history = (tr, Some fin) /\ nocross tot_history tr = true /\
    assigned_targets 5 tr = [(1, true)] /\ assigned_targets 6 tr = [(1, false)].
Proof.
  split; [cbn; lia |].
  split; [vm_compute; intros x H; tauto |].
  split.
  { apply Forall_forall. intros e He. apply evokb_ok.
    assert (A : forallb (evokb tot_ports) tot_history = true) by (vm_compute; reflexivity).
    rewrite forallb_forall in A. exact (A e He). }
  eexists. eexists.
  split; [vm_compute; reflexivity |].
  vm_compute. repeat split; reflexivity.
Qed.
