(* C20 - model of src/cpp/midimapper.cpp + the classes of
   include/rtosc/miditable.h it implements: MidiMapperStorage (handleCC,
   cloneValues, clone), MidiBijection, MidiMappernRT (map, unMap, clear,
   useFreeID, generateNewBijection, killMap), MidiMapperRT (handleCC,
   PendingQueue, watchSize, the midi-add-watch / midi-remove-watch /
   midi-bind ports).

   The two halves are two sequential processes joined by two FIFO channels
   (RT -> nRT: midi-use-CC <id>;  nRT -> RT: midi-add-watch,
   midi-remove-watch, midi-bind <storage>).  A history is a list of external
   events (map / unMap / clear / CC) and channel deliveries; every admissible
   message order is some placement of the deliveries.

   Conventions
   * An address is the index of its port in the port table (the harness uses
     "/p<k>").  std::map<string,...> inv_map is an association list (only
     lookup / insert / erase are used by the modelled code).
   * A MidiMapperStorage is passed by value: the code never changes a storage
     after it has been sent, and the non-realtime side only ever reads the
     *sizes* of the value vector of a storage the realtime side writes to.
   * Null dereference, out-of-bounds access and new T[-1] are representable:
     the operation returns None and the run stops ("CRASH").
   * A float is the dyadic number it denotes, (m, e) = m * 2^e.  The float
     and double operations of MidiBijection::operator()(int) are the exact
     dyadic operation followed by round-to-nearest-even to 24 / 53 bits
     (rnd below); infinities and NaN are outside the model (the port ranges
     are finite and far from overflow).
   No proofs in this file. *)
From Coq Require Import List ZArith Bool.
Import ListNotations.
Local Open Scope Z_scope.

(* ---- small list helpers -------------------------------------------------- *)
Definition nthZ {A} (l : list A) (i : Z) : option A :=
  if i <? 0 then None else nth_error l (Z.to_nat i).

Fixpoint upd_nat {A} (l : list A) (i : nat) (x : A) : option (list A) :=
  match l, i with
  | [], _ => None
  | _ :: t, O => Some (x :: t)
  | h :: t, S j => match upd_nat t j x with Some t' => Some (h :: t') | None => None end
  end.

Definition updZ {A} (l : list A) (i : Z) (x : A) : option (list A) :=
  if i <? 0 then None else upd_nat l (Z.to_nat i) x.

Definition zlen {A} (l : list A) : Z := Z.of_nat (length l).

Definition zeros (n : nat) : list Z := repeat 0 n.

(* ---- dyadic numbers and IEEE rounding ------------------------------------ *)
Definition dy := (Z * Z)%type.                 (* (m, e) denotes m * 2^e *)

Definition dy_align (x y : dy) : Z * Z * Z :=  (* common exponent *)
  let e := Z.min (snd x) (snd y) in
  (fst x * 2 ^ (snd x - e), fst y * 2 ^ (snd y - e), e).

Definition dyadd (x y : dy) : dy := let '(a, b, e) := dy_align x y in (a + b, e).
Definition dysub (x y : dy) : dy := let '(a, b, e) := dy_align x y in (a - b, e).
Definition dymul (x y : dy) : dy := (fst x * fst y, snd x + snd y).
Definition dyleb (x y : dy) : bool := let '(a, b, _) := dy_align x y in a <=? b.
Definition dyeqb (x y : dy) : bool := let '(a, b, _) := dy_align x y in a =? b.
Definition dy_of_Z (z : Z) : dy := (z, 0).

Definition bitlen (a : Z) : Z := if a =? 0 then 0 else Z.log2 a + 1.

(* round to nearest, ties to even, precision p, least exponent emin *)
Definition rnd (p emin : Z) (x : dy) : dy :=
  let '(m, e) := x in
  let e' := Z.max (e + bitlen (Z.abs m) - p) emin in
  if e' <=? e then x
  else
    let k := e' - e in
    let q := m / 2 ^ k in
    let r := m mod 2 ^ k in
    let h := 2 ^ (k - 1) in
    ((if (h <? r) || ((r =? h) && Z.odd q) then q + 1 else q), e').

Definition r24 := rnd 24 (-149).               (* float  *)
Definition r53 := rnd 53 (-1074).              (* double *)

(* (int)f : truncation towards zero *)
Definition dytrunc (x : dy) : Z :=
  let '(m, e) := x in if 0 <=? e then m * 2 ^ e else Z.quot m (2 ^ (- e)).

(* binary32 bit pattern <-> dyadic (finite values only) *)
Definition dy_of_bits32 (b : Z) : dy :=
  let s := b / 2 ^ 31 in
  let ex := (b / 2 ^ 23) mod 256 in
  let f := b mod 2 ^ 23 in
  let m := if ex =? 0 then f else f + 2 ^ 23 in
  let e := if ex =? 0 then -149 else ex - 150 in
  ((if s =? 1 then - m else m), e).

Definition bits32_of_dy (x : dy) : Z :=
  let '(m, e) := x in
  let a := Z.abs m in
  if a =? 0 then 0
  else
    let n := bitlen a in
    let E := e + n - 1 in
    let s := if m <? 0 then 2 ^ 31 else 0 in
    if -126 <=? E then s + (E + 127) * 2 ^ 23 + (Z.shiftl a (24 - n) - 2 ^ 23)
    else s + Z.shiftl a (e + 149).

(* ---- MidiBijection (mode 0) and the callbacks ---------------------------- *)
Record bij := { bmin : dy; bmax : dy }.

(* float MidiBijection::operator()(int x):  x/((1<<14)*1.0)*(max-min)+min
   int -> double exact; /16384.0 exact; (max-min) in float; product and sum in
   double; the result converted to float *)
Definition bi_gen (rf rd : dy -> dy) (b : bij) (x : Z) : dy :=
  let t := (x, -14) in
  let d := rf (dysub (bmax b) (bmin b)) in
  rf (rd (dyadd (rd (dymul t d)) (bmin b))).

Definition bi_float := bi_gen r24 r53.

Record port := { pint : bool; pmin : dy; pmax : dy }.

Inductive cb :=
| CbLin (b : bij) (a : Z) (isint : bool)      (* [bi,addr,type] lambda *)
| CbSpecial (a : Z).                          (* min==0 && max==127 && 'i' *)

Definition cb_addr (c : cb) : Z := match c with CbLin _ a _ => a | CbSpecial a => a end.

Inductive mval := VInt (z : Z) | VFloat (d : dy).
Record msg := { maddr : Z; mvalue : mval }.

Definition cb_gen (rf rd : dy -> dy) (c : cb) (x : Z) : msg :=
  match c with
  | CbLin b a false => {| maddr := a; mvalue := VFloat (bi_gen rf rd b x) |}
  | CbLin b a true  => {| maddr := a; mvalue := VInt (dytrunc (bi_gen rf rd b x)) |}
  | CbSpecial a     => {| maddr := a; mvalue := VInt (Z.land 127 (Z.shiftr x 7)) |}
  end.

Definition run_cb := cb_gen r24 r53.

(* the callback generateNewBijection builds for a port *)
Definition mk_cb (p : port) (a : Z) : cb :=
  if dyeqb (pmin p) (dy_of_Z 0) && dyeqb (pmax p) (dy_of_Z 127) && pint p
  then CbSpecial a
  else CbLin {| bmin := pmin p; bmax := pmax p |} a (pint p).

(* wire view of a message value (for the correspondence only) *)
Definition mval_bits (v : mval) : Z :=
  match v with VInt z => z mod 2 ^ 32 | VFloat d => bits32_of_dy d end.
Definition mval_isint (v : mval) : bool := match v with VInt _ => true | VFloat _ => false end.

(* ---- MidiMapperStorage ---------------------------------------------------- *)
Definition mapent := (Z * bool * Z)%type.      (* (ID, coarse, value/callback index) *)
Definition me_id (t : mapent) : Z := fst (fst t).
Definition me_coarse (t : mapent) : bool := snd (fst t).
Definition me_ind (t : mapent) : Z := snd t.

Record store := { mapping : list mapent; callbacks : list cb; values : list Z }.

Definition empty_store : store := {| mapping := []; callbacks := []; values := [] |}.

Fixpoint find_map (id : Z) (m : list mapent) : option mapent :=
  match m with
  | [] => None
  | t :: r => if me_id t =? id then Some t else find_map id r
  end.

Definition blit (coarse : bool) (val old : Z) : Z :=
  if coarse then Z.lor (Z.shiftl val 7) (Z.land old 127)
  else Z.lor val (Z.land old 16256).           (* 0x3f80 *)

(* MidiMapperStorage::handleCC: (storage', message) ; inner None = not handled *)
Definition store_handleCC (s : store) (id val : Z) : option (store * option msg) :=
  match find_map id (mapping s) with
  | None => Some (s, None)
  | Some t =>
      match nthZ (values s) (me_ind t), nthZ (callbacks s) (me_ind t) with
      | Some old, Some c =>
          let v := blit (me_coarse t) val old in
          match updZ (values s) (me_ind t) v with
          | Some vs => Some ({| mapping := mapping s; callbacks := callbacks s; values := vs |},
                             Some (run_cb c v))
          | None => None
          end
      | _, _ => None
      end
  end.

(* MidiMapperStorage::cloneValues: the i/j double loop *)
Definition extract7 (coarse : bool) (v : Z) : Z :=
  if coarse then Z.shiftr v 7 else Z.land v 127.

Fixpoint clone_inner (ti : mapent) (srcmap : list mapent) (srcvals : list Z) (vals : list Z)
  : option (list Z) :=
  match srcmap with
  | [] => Some vals
  | tj :: r =>
      if me_id ti =? me_id tj then
        match nthZ srcvals (me_ind tj), nthZ vals (me_ind ti) with
        | Some sv, Some dv =>
            match updZ vals (me_ind ti) (blit (me_coarse ti) (extract7 (me_coarse tj) sv) dv) with
            | Some vals' => clone_inner ti r srcvals vals'
            | None => None
            end
        | _, _ => None
        end
      else clone_inner ti r srcvals vals
  end.

Fixpoint clone_outer (dstmap : list mapent) (src : store) (vals : list Z) : option (list Z) :=
  match dstmap with
  | [] => Some vals
  | ti :: r =>
      match clone_inner ti (mapping src) (values src) vals with
      | Some vals' => clone_outer r src vals'
      | None => None
      end
  end.

Definition cloneValues (dst src : store) : option store :=
  match clone_outer (mapping dst) src (zeros (length (values dst))) with
  | Some vs => Some {| mapping := mapping dst; callbacks := callbacks dst; values := vs |}
  | None => None
  end.

(* MidiMapperStorage::clone: values.sized_clone() is all zero *)
Definition clone_store (s : store) : store :=
  {| mapping := mapping s; callbacks := callbacks s; values := zeros (length (values s)) |}.

(* killMap(ID, m): a default-initialised vector of size()-1 entries receives
   the survivors from the front.  size()==0 is new T[-1]; more survivors than
   slots is a write past the end (asserts are off); fewer leave (0,false,0)
   entries behind. *)
Definition default_ent : mapent := (0, false, 0).

Definition killMap (id : Z) (s : store) : option store :=
  match mapping s with
  | [] => None
  | _ :: rest =>
      let kept := filter (fun t => negb (me_id t =? id)) (mapping s) in
      if (length kept <=? length rest)%nat then
        Some {| mapping := kept ++ repeat default_ent (length rest - length kept);
                callbacks := callbacks s; values := values s |}
      else None
  end.

(* ---- MidiMappernRT --------------------------------------------------------- *)
Definition imap := (Z * Z * Z * bij)%type.     (* (location, coarse id, fine id, bijection) *)
Definition im_loc (i : imap) : Z := fst (fst (fst i)).
Definition im_co (i : imap) : Z := snd (fst (fst i)).
Definition im_fi (i : imap) : Z := snd (fst i).
Definition im_bi (i : imap) : bij := snd i.

Fixpoint inv_find (a : Z) (m : list (Z * imap)) : option imap :=
  match m with
  | [] => None
  | (k, v) :: r => if k =? a then Some v else inv_find a r
  end.

Definition inv_erase (a : Z) (m : list (Z * imap)) : list (Z * imap) :=
  filter (fun kv => negb (fst kv =? a)) m.

Definition inv_set (a : Z) (v : imap) (m : list (Z * imap)) : list (Z * imap) :=
  inv_erase a m ++ [(a, v)].

Record nrt := { nstorage : option store; inv_map : list (Z * imap); learnQ : list (Z * bool) }.

Definition nrt0 : nrt := {| nstorage := None; inv_map := []; learnQ := [] |}.

(* messages non-realtime -> realtime.  A midi-bind carries the pointer to a
   snapshot; ans is that snapshot's `answers` field: the controller whose
   midi-use-CC it is the answer to, -1 for a snapshot sent for another reason
   (only the bind handler reads the field, clone() does not copy it). *)
Inductive rmsg := RWatch | RUnwatch | RBind (s : store) (ans : Z).

Definition qmem (a : Z) (c : bool) (q : list (Z * bool)) : bool :=
  existsb (fun x => (fst x =? a) && Bool.eqb (snd x) c) q.

Definition nrt_unmap (n : nrt) (a : Z) (c : bool) : option (nrt * list rmsg) :=
  match inv_find a (inv_map n) with
  | None => Some (n, [])
  | Some im =>
      let kill := if c then im_co im else im_fi im in
      let im' : imap := if c then (im_loc im, -1, im_fi im, im_bi im)
                        else (im_loc im, im_co im, -1, im_bi im) in
      let inv' := if (im_co im' =? -1) && (im_fi im' =? -1)
                  then inv_erase a (inv_map n) else inv_set a im' (inv_map n) in
      if kill =? -1 then
        Some ({| nstorage := nstorage n; inv_map := inv'; learnQ := learnQ n |}, [])
      else
        match nstorage n with
        | None => None
        | Some s =>
            match killMap kill (clone_store s) with
            | None => None
            | Some s' =>
                Some ({| nstorage := Some s'; inv_map := inv'; learnQ := learnQ n |}, [RBind s' (-1)])
            end
        end
  end.

Definition nrt_map (n : nrt) (a : Z) (c : bool) : option (nrt * list rmsg) :=
  if qmem a c (learnQ n) then Some (n, [])
  else
    match nrt_unmap n a c with
    | None => None
    | Some (n', out) =>
        Some ({| nstorage := nstorage n'; inv_map := inv_map n'; learnQ := learnQ n' ++ [(a, c)] |},
              out ++ [RWatch])
    end.

(* clear(): one midi-remove-watch per queued address (the watches those
   addresses were given are withdrawn), then the empty snapshot *)
Definition nrt_clear (n : nrt) : option (nrt * list rmsg) :=
  Some ({| nstorage := Some empty_store; inv_map := []; learnQ := [] |},
        map (fun _ => RUnwatch) (learnQ n) ++ [RBind empty_store (-1)]).

(* generateNewBijection: a new value slot and callback after the existing ones *)
Definition gen_new (st : option store) (p : port) (a : Z) : store :=
  match st with
  | Some s => {| mapping := mapping s; callbacks := callbacks s ++ [mk_cb p a];
                 values := zeros (S (length (values s))) |}
  | None => {| mapping := []; callbacks := [mk_cb p a]; values := [0] |}
  end.

Definition nrt_useFreeID (ports : list port) (n : nrt) (id : Z) : option (nrt * list rmsg) :=
  match learnQ n with
  | [] =>
      (* no address waits: the unchanged mapping, as the answer to id *)
      let same := match nstorage n with Some s => clone_store s | None => empty_store end in
      Some ({| nstorage := Some same; inv_map := inv_map n; learnQ := [] |}, [RBind same id])
  | (a, c) :: q =>
      match nthZ ports a with
      | None => None                              (* apropos() == NULL *)
      | Some p =>
          let pre :=
            match inv_find a (inv_map n) with
            | None =>
                let ns := gen_new (nstorage n) p a in
                Some (ns, inv_set a (zlen (callbacks ns) - 1, -1, -1,
                                     {| bmin := pmin p; bmax := pmax p |}) (inv_map n))
            | Some _ =>
                match nstorage n with
                | None => None
                | Some s => Some (clone_store s, inv_map n)
                end
            end in
          match pre with
          | None => None
          | Some (ns, inv1) =>
              match inv_find a inv1 with
              | None => None
              | Some im =>
                  let ns1 := {| mapping := mapping ns ++ [(id, c, im_loc im)];
                                callbacks := callbacks ns; values := values ns |} in
                  let killed :=
                    if c then (if im_co im =? -1 then Some ns1 else killMap (im_co im) ns1)
                    else (if im_fi im =? -1 then Some ns1 else killMap (im_co im) ns1) (* sic: get<1> *) in
                  let im' : imap := if c then (im_loc im, id, im_fi im, im_bi im)
                                    else (im_loc im, im_co im, id, im_bi im) in
                  match killed with
                  | None => None
                  | Some ns2 =>
                      Some ({| nstorage := Some ns2; inv_map := inv_set a im' inv1; learnQ := q |},
                            [RBind ns2 id])
                  end
              end
          end
      end
  end.

(* ---- MidiMapperRT ----------------------------------------------------------- *)
Record pq := { vals : list Z; pos_r : Z; pos_w : Z; psize : Z }.

Definition pq0 : pq := {| vals := repeat (-1) 32; pos_r := 0; pos_w := 0; psize := 0 |}.

Definition pq_has (q : pq) (x : Z) : bool := existsb (fun v => v =? x) (vals q).

Definition pq_insert (q : pq) (x : Z) : option pq :=
  if pq_has q x || (31 <? psize q) then Some q
  else match updZ (vals q) (pos_w q) x with
       | Some vs => Some {| vals := vs; pos_r := pos_r q; pos_w := (pos_w q + 1) mod 32;
                            psize := psize q + 1 |}
       | None => None
       end.

Definition pq_pop (q : pq) : option pq :=
  if psize q =? 0 then Some q
  else match updZ (vals q) (pos_r q) (-1) with
       | Some vs => Some {| vals := vs; pos_r := (1 + pos_r q) mod 32; pos_w := pos_w q;
                            psize := psize q - 1 |}
       | None => None
       end.

Record rt := { rstorage : option store; pending : pq; watch : Z }.

Definition rt0 : rt := {| rstorage := None; pending := pq0; watch := 0 |}.

Definition cc_id (par chan : Z) (nrpn : bool) : Z :=
  let ch := if chan <? 1 then 1 else chan in
  (if nrpn then 2 ^ 18 else 0) + Z.land (ch - 1) 15 * 2 ^ 14 + par.

(* MidiMapperRT::handleCC with the ID already formed:
   (state', backend message, midi-use-CC sent?) *)
Definition rt_handleCC (r : rt) (id val : Z) : option (rt * option msg * bool) :=
  let handled :=
    match rstorage r with
    | None => Some (None, None)
    | Some s => match store_handleCC s id val with
                | Some (s', m) => Some (Some s', m)
                | None => None
                end
    end in
  match handled with
  | None => None
  | Some (st', Some m) =>
      Some ({| rstorage := st'; pending := pending r; watch := watch r |}, Some m, false)
  | Some (st', None) =>
      if negb (pq_has (pending r) id) && negb (watch r =? 0) then
        match pq_insert (pending r) id with
        | Some p' => Some ({| rstorage := st'; pending := p'; watch := watch r - 1 |}, None, true)
        | None => None
        end
      else Some ({| rstorage := st'; pending := pending r; watch := watch r |}, None, false)
  end.

Definition rt_deliver (r : rt) (m : rmsg) : option rt :=
  match m with
  | RWatch => Some {| rstorage := rstorage r; pending := pending r; watch := watch r + 1 |}
  | RUnwatch => Some {| rstorage := rstorage r; pending := pending r;
                        watch := if watch r =? 0 then 0 else watch r - 1 |}
  | RBind ns ans =>
      (* only the answer to a midi-use-CC releases the oldest pending controller *)
      match (if ans =? -1 then Some (pending r) else pq_pop (pending r)) with
      | None => None
      | Some p' =>
          match rstorage r with
          | None => Some {| rstorage := Some ns; pending := p'; watch := watch r |}
          | Some old =>
              match cloneValues ns old with
              | Some ns' => Some {| rstorage := Some ns'; pending := p'; watch := watch r |}
              | None => None
              end
          end
      end
  end.

(* ---- the two processes and their channels ---------------------------------- *)
Record world := { wn : nrt; wr : rt; chN : list Z; chR : list rmsg }.

Definition world0 : world := {| wn := nrt0; wr := rt0; chN := []; chR := [] |}.

Inductive event :=
| EMap (a : Z) (c : bool)
| EUnmap (a : Z) (c : bool)
| EClear
| ECC (par val chan : Z) (nrpn : bool)
| EDelN                                         (* oldest RT -> nRT message *)
| EDelR.                                        (* oldest nRT -> RT message *)

(* what the harness can see of one event *)
Inductive obs :=
| OW | OR | OB                                  (* put on the nRT -> RT channel *)
| OU (id : Z)                                   (* midi-use-CC put on the RT -> nRT channel *)
| OM (m : msg)                                  (* handed to the backend *)
| OA (id : Z) (target : option (Z * bool))      (* useFreeID(id) and the head of the learn queue *)
| OE.                                           (* delivery on an empty channel *)

Definition obs_of_rmsg (m : rmsg) : obs :=
  match m with RWatch => OW | RUnwatch => OR | RBind _ _ => OB end.

Definition nrt_result (w : world) (r : option (nrt * list rmsg)) (pre : list obs)
  : option (world * list obs) :=
  match r with
  | None => None
  | Some (n', out) =>
      Some ({| wn := n'; wr := wr w; chN := chN w; chR := chR w ++ out |},
            pre ++ map obs_of_rmsg out)
  end.

Definition step (ports : list port) (w : world) (e : event) : option (world * list obs) :=
  match e with
  | EMap a c => nrt_result w (nrt_map (wn w) a c) []
  | EUnmap a c => nrt_result w (nrt_unmap (wn w) a c) []
  | EClear => nrt_result w (nrt_clear (wn w)) []
  | ECC par val chan nrpn =>
      let id := cc_id par chan nrpn in
      match rt_handleCC (wr w) id val with
      | None => None
      | Some (r', m, used) =>
          Some ({| wn := wn w; wr := r'; chN := if used then chN w ++ [id] else chN w; chR := chR w |},
                match m with Some x => [OM x] | None => [] end ++ (if used then [OU id] else []))
      end
  | EDelN =>
      match chN w with
      | [] => Some (w, [OE])
      | id :: rest =>
          nrt_result {| wn := wn w; wr := wr w; chN := rest; chR := chR w |}
                     (nrt_useFreeID ports (wn w) id)
                     [OA id (hd_error (learnQ (wn w)))]
      end
  | EDelR =>
      match chR w with
      | [] => Some (w, [OE])
      | m :: rest =>
          match rt_deliver (wr w) m with
          | None => None
          | Some r' => Some ({| wn := wn w; wr := r'; chN := chN w; chR := rest |}, [])
          end
      end
  end.

(* trace of the completed events; None as final state = the run crashed at
   the first event without a record *)
Fixpoint run (ports : list port) (w : world) (es : list event) : list (list obs) * option world :=
  match es with
  | [] => ([], Some w)
  | e :: r =>
      match step ports w e with
      | None => ([], None)
      | Some (w', o) => let '(tr, fin) := run ports w' r in (o :: tr, fin)
      end
  end.
