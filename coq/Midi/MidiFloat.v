(* C20 - the bijection and the callbacks: range and monotonicity, from the
   rounding facts collected in MidiSpec.rounding_ok *)
From Coq Require Import List ZArith Bool Lia QArith Qpower Qround Lqa.
From RtoscV Require Import Midi.MidiModel Midi.MidiSpec.
Import ListNotations.
Local Open Scope Z_scope.

Lemma two_ne0 : ~ (2 # 1 == 0)%Q.
Proof. discriminate. Qed.

Lemma pow2_pos : forall e, (0 < (2 # 1) ^ e)%Q.
Proof. intro e. apply Qpower_0_lt. reflexivity. Qed.

Lemma scale_exp : forall m ex e, e <= ex ->
  (inject_Z (m * 2 ^ (ex - e)) * (2 # 1) ^ e == inject_Z m * (2 # 1) ^ ex)%Q.
Proof.
  intros m ex e H.
  rewrite inject_Z_mult, Zpower_Qpower by lia.
  change (inject_Z 2) with (2 # 1).
  rewrite <- Qmult_assoc, <- Qpower_plus by exact two_ne0.
  replace (ex - e + e) with ex by lia. reflexivity.
Qed.

Lemma align_l : forall x y, let '(a, b, e) := dy_align x y in
  (inject_Z a * (2 # 1) ^ e == dy2Q x)%Q /\ (inject_Z b * (2 # 1) ^ e == dy2Q y)%Q.
Proof.
  intros [mx ex] [my ey]. unfold dy_align, dy2Q. cbn [fst snd].
  split; apply scale_exp; lia.
Qed.

Lemma dyadd_Q : forall x y, (dy2Q (dyadd x y) == dy2Q x + dy2Q y)%Q.
Proof.
  intros x y. pose proof (align_l x y) as H. unfold dyadd.
  destruct (dy_align x y) as [[a b] e]. destruct H as [Ha Hb].
  unfold dy2Q at 1. cbn [fst snd]. rewrite inject_Z_plus, <- Ha, <- Hb. ring.
Qed.

Lemma dysub_Q : forall x y, (dy2Q (dysub x y) == dy2Q x - dy2Q y)%Q.
Proof.
  intros x y. pose proof (align_l x y) as H. unfold dysub.
  destruct (dy_align x y) as [[a b] e]. destruct H as [Ha Hb].
  unfold dy2Q at 1. cbn [fst snd]. unfold Z.sub. rewrite inject_Z_plus, inject_Z_opp, <- Ha, <- Hb. ring.
Qed.

Lemma dymul_Q : forall x y, (dy2Q (dymul x y) == dy2Q x * dy2Q y)%Q.
Proof.
  intros [mx ex] [my ey]. unfold dymul, dy2Q. cbn [fst snd].
  rewrite inject_Z_mult, Qpower_plus by exact two_ne0. ring.
Qed.

Lemma dyleb_Q : forall x y, dyleb x y = true <-> (dy2Q x <= dy2Q y)%Q.
Proof.
  intros x y. pose proof (align_l x y) as H. unfold dyleb.
  destruct (dy_align x y) as [[a b] e]. destruct H as [Ha Hb].
  rewrite <- Ha, <- Hb. rewrite Z.leb_le. pose proof (pow2_pos e) as P.
  split; intro L.
  - apply Qmult_le_compat_r; [rewrite <- Zle_Qle; exact L | apply Qlt_le_weak; exact P].
  - rewrite Zle_Qle. apply Qmult_lt_0_le_reg_r with ((2 # 1) ^ e)%Q; assumption.
Qed.

Lemma dyeqb_Q : forall x y, dyeqb x y = true <-> (dy2Q x == dy2Q y)%Q.
Proof.
  intros x y. pose proof (align_l x y) as H. unfold dyeqb.
  destruct (dy_align x y) as [[a b] e]. destruct H as [Ha Hb].
  rewrite <- Ha, <- Hb. rewrite Z.eqb_eq. pose proof (pow2_pos e) as P.
  split; intro L.
  - subst. reflexivity.
  - apply Qmult_inj_r in L; [| intro Z0; rewrite Z0 in P; discriminate].
    unfold Qeq in L. cbn [Qnum Qden inject_Z] in L. lia.
Qed.

Lemma frac14_Q : forall x, (dy2Q (x, (-14)%Z) == inject_Z x * (1 # 16384))%Q.
Proof. intro x. unfold dy2Q. cbn [fst snd]. reflexivity. Qed.

(* (int)f is monotone and the integer part of the rational *)
Lemma dytrunc_Q : forall x,
  dytrunc x = if Qle_bool 0 (dy2Q x) then Qfloor (dy2Q x) else Qceiling (dy2Q x).
Proof.
  intros [m e]. unfold dytrunc.
  destruct (Z.leb_spec 0 e) as [He | He].
  - assert (E : (dy2Q (m, e) == inject_Z (m * 2 ^ e))%Q).
    { unfold dy2Q. cbn [fst snd]. rewrite inject_Z_mult, Zpower_Qpower by lia. reflexivity. }
    rewrite (Qfloor_comp _ _ E), (Qceiling_comp _ _ E), Qfloor_Z, Qceiling_Z.
    destruct (Qle_bool 0 (dy2Q (m, e))); reflexivity.
  - set (d := 2 ^ (- e)).
    assert (Hd : 0 < d) by (apply Z.pow_pos_nonneg; lia).
    assert (E : (dy2Q (m, e) == m # Z.to_pos d)%Q).
    { unfold dy2Q. cbn [fst snd].
      replace e with (- (- e)) at 1 by lia. rewrite Qpower_opp.
      rewrite <- (Zpower_Qpower 2 (- e)) by lia. fold d.
      rewrite (Qmake_Qdiv m (Z.to_pos d)). rewrite Z2Pos.id by lia. reflexivity. }
    assert (Hs : Qle_bool 0 (dy2Q (m, e)) = (0 <=? m)).
    { rewrite (Qleb_comp 0 0 (Qeq_refl 0) _ _ E)%Q. unfold Qle_bool. cbn [Qnum Qden]. rewrite Z.mul_1_r. reflexivity. }
    rewrite Hs, (Qfloor_comp _ _ E), (Qceiling_comp _ _ E).
    unfold Qceiling, Qfloor, Qopp. cbn [Qnum Qden]. rewrite Z2Pos.id by lia.
    destruct (Z.leb_spec 0 m) as [Hm | Hm].
    + apply Z.quot_div_nonneg; lia.
    + rewrite <- (Z.opp_involutive m) at 1. rewrite Z.quot_opp_l by lia.
      rewrite Z.quot_div_nonneg by lia. reflexivity.
Qed.

Lemma dytrunc_mono : forall x y, (dy2Q x <= dy2Q y)%Q -> dytrunc x <= dytrunc y.
Proof.
  intros x y L. rewrite !dytrunc_Q.
  destruct (Qle_bool 0 (dy2Q x)) eqn:Hx; destruct (Qle_bool 0 (dy2Q y)) eqn:Hy.
  - apply Qfloor_resp_le; exact L.
  - rewrite Qle_bool_iff in Hx. assert (~ (0 <= dy2Q y)%Q) by (rewrite <- Qle_bool_iff, Hy; discriminate).
    exfalso. apply H. apply Qle_trans with (dy2Q x); assumption.
  - (* x < 0 <= y *)
    assert (Hxn : ~ (0 <= dy2Q x)%Q) by (rewrite <- Qle_bool_iff, Hx; discriminate).
    rewrite Qle_bool_iff in Hy.
    apply Z.le_trans with 0.
    + change 0 with (Qceiling 0). apply Qceiling_resp_le. apply Qlt_le_weak, Qnot_le_lt; exact Hxn.
    + change 0 with (Qfloor 0). apply Qfloor_resp_le; exact Hy.
  - apply Qceiling_resp_le; exact L.
Qed.

Lemma dytrunc_eq : forall x y, (dy2Q x == dy2Q y)%Q -> dytrunc x = dytrunc y.
Proof.
  intros x y E. apply Z.le_antisymm; apply dytrunc_mono; rewrite E; apply Qle_refl.
Qed.

Definition dz : dy := (0, 0).

Section Bijection.
  Variables (rf rd : dy -> dy) (b : bij).
  Hypothesis R : rounding_ok rf rd b.
  Hypothesis Hle : (dy2Q (bmin b) <= dy2Q (bmax b))%Q.

  Let D := dysub (bmax b) (bmin b).
  Let d := rf D.

  Lemma d_nonneg : (0 <= dy2Q d)%Q.
  Proof.
    assert (Z0 : (dy2Q dz == 0)%Q) by reflexivity.
    rewrite <- (rf_zero _ _ _ R dz Z0).
    apply (rf_mono _ _ _ R). rewrite Z0. unfold D. rewrite dysub_Q. lra.
  Qed.

  Lemma bi_monotone : forall x1 x2, x1 <= x2 ->
    (dy2Q (bi_gen rf rd b x1) <= dy2Q (bi_gen rf rd b x2))%Q.
  Proof.
    intros x1 x2 H. unfold bi_gen. fold D. fold d.
    apply (rf_mono _ _ _ R), (rd_mono _ _ _ R).
    rewrite !dyadd_Q. apply Qplus_le_compat; [| apply Qle_refl].
    apply (rd_mono _ _ _ R). rewrite !dymul_Q, !frac14_Q.
    pose proof d_nonneg as Hd.
    assert (Hx : (inject_Z x1 <= inject_Z x2)%Q) by (rewrite <- Zle_Qle; exact H).
    nra.
  Qed.

  Lemma bi_range : forall x, 0 <= x < 16384 ->
    (dy2Q (bmin b) <= dy2Q (bi_gen rf rd b x) <= dy2Q (bmax b))%Q.
  Proof.
    intros x Hx. unfold bi_gen. fold D. fold d.
    set (p := dymul (x, -14) d).
    pose proof d_nonneg as Hd.
    pose proof (rf_err _ _ _ R) as E1. fold D in E1. fold d in E1.
    pose proof (rd_err _ _ _ R x Hx) as E2. fold D in E2. fold d in E2. fold p in E2.
    assert (HD : (dy2Q D == dy2Q (bmax b) - dy2Q (bmin b))%Q) by (unfold D; apply dysub_Q).
    assert (Hx0 : (inject_Z 0 <= inject_Z x)%Q) by (rewrite <- Zle_Qle; lia).
    change (inject_Z 0) with 0%Q in Hx0.
    assert (Hx1 : (inject_Z x <= inject_Z 16383)%Q) by (rewrite <- Zle_Qle; lia).
    change (inject_Z 16383) with (16383 # 1)%Q in Hx1.
    assert (Hp : (dy2Q p == inject_Z x * (1 # 16384) * dy2Q d)%Q)
      by (unfold p; rewrite dymul_Q, frac14_Q; reflexivity).
    assert (Hp0 : (0 <= dy2Q p)%Q) by (rewrite Hp; nra).
    assert (Z0 : (dy2Q dz == 0)%Q) by reflexivity.
    assert (Hr0 : (0 <= dy2Q (rd p))%Q).
    { rewrite <- (rd_zero _ _ _ R dz Z0). apply (rd_mono _ _ _ R). rewrite Z0. exact Hp0. }
    assert (Hr1 : (dy2Q (rd p) <= dy2Q D)%Q).
    { assert (Hpd : (dy2Q p <= (16383 # 16384) * dy2Q d)%Q) by (rewrite Hp; nra).
      assert (HD0 : (0 <= dy2Q D)%Q) by (rewrite HD; lra).
      (* (16383/16384)(1+2^-24)(1+2^-53) < 1 *)
      assert (Hc : (dy2Q p * (1 + (1 # 9007199254740992)) <= dy2Q D)%Q).
      { apply Qle_trans with ((16383 # 16384) * (dy2Q D * (1 + (1 # 16777216))) * (1 + (1 # 9007199254740992)))%Q.
        - nra.
        - nra. }
      lra. }
    set (s0 := dyadd (rd p) (bmin b)).
    assert (Hs0 : (dy2Q s0 == dy2Q (rd p) + dy2Q (bmin b))%Q) by (unfold s0; apply dyadd_Q).
    split.
    - apply Qle_trans with (dy2Q (rf (bmin b))).
      { rewrite (rf_min _ _ _ R (bmin b)) by reflexivity. apply Qle_refl. }
      apply (rf_mono _ _ _ R).
      apply Qle_trans with (dy2Q (rd (bmin b))).
      { rewrite (rd_min _ _ _ R (bmin b)) by reflexivity. apply Qle_refl. }
      apply (rd_mono _ _ _ R). rewrite Hs0. lra.
    - apply Qle_trans with (dy2Q (rf (bmax b))).
      2:{ rewrite (rf_max _ _ _ R (bmax b)) by reflexivity. apply Qle_refl. }
      apply (rf_mono _ _ _ R).
      apply Qle_trans with (dy2Q (rd (bmax b))).
      2:{ rewrite (rd_max _ _ _ R (bmax b)) by reflexivity. apply Qle_refl. }
      apply (rd_mono _ _ _ R). rewrite Hs0. lra.
  Qed.
End Bijection.

(* the 0..127 integer special case: 0x7f & (x >> 7) *)
Lemma special_val : forall x, 0 <= x < 16384 -> Z.land 127 (Z.shiftr x 7) = x / 128.
Proof.
  intros x H. rewrite Z.land_comm. change 127 with (Z.ones 7). rewrite Z.land_ones by lia.
  rewrite Z.shiftr_div_pow2 by lia. change (2 ^ 7) with 128.
  apply Z.mod_small. split; [apply Z.div_pos; lia | apply Z.div_lt_upper_bound; lia].
Qed.

(* every callback generateNewBijection builds: the value it sends lies within
   the port's range and grows with the 14-bit input *)
Theorem cb_range : forall rf rd p a x,
  rounding_ok rf rd {| bmin := pmin p; bmax := pmax p |} ->
  (dy2Q (pmin p) <= dy2Q (pmax p))%Q -> 0 <= x < 16384 ->
  maddr (cb_gen rf rd (mk_cb p a) x) = a /\
  mval_in_range p (mvalue (cb_gen rf rd (mk_cb p a) x)).
Proof.
  intros rf rd p a x R Hle Hx. unfold mk_cb.
  destruct (dyeqb (pmin p) (dy_of_Z 0) && dyeqb (pmax p) (dy_of_Z 127) && pint p) eqn:Hs.
  - apply andb_true_iff in Hs. destruct Hs as [Hs Hi]. apply andb_true_iff in Hs. destruct Hs as [H0 H127].
    apply dyeqb_Q in H0. apply dyeqb_Q in H127.
    cbn [cb_gen maddr mvalue mval_in_range]. split; [reflexivity |]. split; [exact Hi |].
    rewrite (dytrunc_eq _ _ H0), (dytrunc_eq _ _ H127), special_val by exact Hx.
    change (dytrunc (dy_of_Z 0)) with 0. change (dytrunc (dy_of_Z 127)) with 127.
    split; [apply Z.div_pos; lia |].
    assert (x / 128 < 128) by (apply Z.div_lt_upper_bound; lia). lia.
  - pose proof (bi_range rf rd _ R Hle x Hx) as [L U]. cbn [bmin bmax] in L, U.
    destruct (pint p) eqn:Hi; cbn [cb_gen maddr mvalue mval_in_range]; (split; [reflexivity |]); (split; [exact Hi |]).
    + split; apply dytrunc_mono; assumption.
    + split; assumption.
Qed.

Theorem cb_monotone : forall rf rd p a x1 x2,
  rounding_ok rf rd {| bmin := pmin p; bmax := pmax p |} ->
  (dy2Q (pmin p) <= dy2Q (pmax p))%Q -> 0 <= x1 -> x1 <= x2 -> x2 < 16384 ->
  mval_le (mvalue (cb_gen rf rd (mk_cb p a) x1)) (mvalue (cb_gen rf rd (mk_cb p a) x2)).
Proof.
  intros rf rd p a x1 x2 R Hle H1 H12 H2. unfold mk_cb.
  destruct (dyeqb (pmin p) (dy_of_Z 0) && dyeqb (pmax p) (dy_of_Z 127) && pint p).
  - cbn [cb_gen mvalue mval_le]. rewrite !special_val by lia. apply Z.div_le_mono; lia.
  - pose proof (bi_monotone rf rd _ R Hle x1 x2 H12) as M.
    destruct (pint p); cbn [cb_gen mvalue mval_le].
    + apply dytrunc_mono; exact M.
    + exact M.
Qed.

(* two of the facts rounding_ok asks of the executable rnd (the others -
   monotonicity and the relative error - need its characterisation as a
   nearest element of the format and are not proved) *)
Lemma rnd_exact : forall p emin m e, bitlen (Z.abs m) <= p -> emin <= e -> rnd p emin (m, e) = (m, e).
Proof.
  intros p emin m e Hb He. unfold rnd.
  destruct (Z.leb_spec (Z.max (e + bitlen (Z.abs m) - p) emin) e); [reflexivity | lia].
Qed.

Lemma rnd_zero : forall p emin e, fst (rnd p emin (0, e)) = 0.
Proof.
  intros p emin e. unfold rnd. cbn [Z.abs]. change (bitlen 0) with 0.
  destruct (Z.leb_spec (Z.max (e + 0 - p) emin) e) as [H | H]; [reflexivity |].
  set (k := Z.max (e + 0 - p) emin - e). assert (Hk : 0 < k) by (unfold k; lia).
  assert (P : 0 < 2 ^ k) by (apply Z.pow_pos_nonneg; lia).
  assert (Ph : 0 < 2 ^ (k - 1)) by (apply Z.pow_pos_nonneg; lia).
  rewrite Z.div_0_l, Z.mod_0_l by lia. cbn [fst].
  destruct (Z.ltb_spec (2 ^ (k - 1)) 0); [lia |].
  destruct (Z.eqb_spec 0 (2 ^ (k - 1))); [lia |]. reflexivity.
Qed.
