(* C20 - the bound of 32 controllers in C20_nocross_learn_partial,
   C20_nocross_crash_free_partial and C20_refines_spec_partial is tight:
   PendingQueue holds 32 ids; the 33rd controller offered at the same time is
   not remembered and is offered again - in a nocross history.  Needs more
   than 32 queued addresses, i.e. lies outside the property's quantifier
   (2..4 addresses): an observation, not a finding. *)
From Coq Require Import List ZArith Bool Lia.
From RtoscV Require Import Midi.MidiModel Midi.MidiSpec Midi.MidiProto Midi.MidiInv.
Import ListNotations.
Local Open Scope Z_scope.

Definition evokb (ports : list port) (e : event) : bool :=
  match e with
  | EMap a _ => match nthZ ports a with Some _ => true | None => false end
  | ECC p v ch n => (0 <=? cc_id p ch n) && (0 <=? v) && (v <? 128)
  | _ => true
  end.

Lemma evokb_ok : forall ports e, evokb ports e = true -> evok ports e.
Proof.
  intros ports e H. destruct e; cbn in *; auto.
  - destruct (nthZ ports a) as [p |]; [eauto | discriminate].
  - apply andb_true_iff in H. destruct H as [H H3]. apply andb_true_iff in H. destruct H as [H1 H2]. lia.
Qed.

Definition zseq (n : nat) : list Z := map Z.of_nat (seq 0 n).

Definition cap_ports : list port := repeat {| pint := false; pmin := (0, 0); pmax := (1, 0) |} 40.

(* 40 addresses queued and announced; controllers 0..33 arrive (34 offered at
   once); controller 32 arrives again; everything is delivered *)
Definition cap_history : list event :=
  map (fun a => EMap a true) (zseq 40) ++ repeat EDelR 40 ++
  map (fun i => ECC i 1 1 false) (zseq 34) ++ [ECC 32 2 1 false] ++
  repeat EDelN 35 ++ repeat EDelR 36.

Definition offers_of (id : Z) (tr : list (list obs)) : nat :=
  length (filter (fun r => existsb (fun o => match o with OU i => i =? id | _ => false end) r) tr).

Lemma capacity_refuted :
  exists tr fin,
    run cap_ports world0 cap_history = (tr, Some fin) /\
    Forall (evok cap_ports) cap_history /\
    nocross cap_history tr = true /\
    length (nodup Z.eq_dec (ccids cap_history)) = 34%nat /\
    (* controller 32 is offered twice and takes two queued addresses *)
    offers_of 32 tr = 2%nat /\
    assigned_targets 32 tr = [(32, true); (34, true)] /\
    (* with 32 at once nothing of the kind happens *)
    offers_of 31 tr = 1%nat /\ assigned_targets 31 tr = [(31, true)].
Proof.
  eexists. eexists. split; [vm_compute; reflexivity |].
  split.
  - apply Forall_forall. intros e He. apply evokb_ok.
    assert (F : forallb (evokb cap_ports) cap_history = true) by (vm_compute; reflexivity).
    rewrite forallb_forall in F. apply F. exact He.
  - vm_compute. repeat split; reflexivity.
Qed.
