(* C20 - the handshake: in a nocross history every midi-use-CC that reaches
   the non-realtime side finds a queued address and carries a controller that
   is in no mapping entry there (so no controller ever has two entries) *)
From Coq Require Import List ZArith Bool Lia.
From RtoscV Require Import Midi.MidiModel Midi.MidiSpec.
Import ListNotations.
Local Open Scope Z_scope.

(* ---- list update ----------------------------------------------------------- *)
Lemma upd_nat_spec : forall {A} (l : list A) i x, (i < length l)%nat ->
  exists l', upd_nat l i x = Some l' /\ length l' = length l /\
    forall k d, nth k l' d = if Nat.eqb k i then x else nth k l d.
Proof.
  induction l as [| h t IH]; intros i x Hi; simpl in Hi; [lia |].
  destruct i as [| i].
  - exists (x :: t). repeat split. intros [| k] d; reflexivity.
  - destruct (IH i x) as [t' [E [L N]]]; [lia |].
    exists (h :: t'). simpl. rewrite E. repeat split; [simpl; lia |].
    intros [| k] d; simpl; [reflexivity | apply N].
Qed.

Lemma updZ_spec : forall {A} (l : list A) i x, 0 <= i < zlen l ->
  exists l', updZ l i x = Some l' /\ length l' = length l /\
    forall k d, nth k l' d = if Nat.eqb k (Z.to_nat i) then x else nth k l d.
Proof.
  intros A l i x Hi. unfold updZ, zlen in *.
  destruct (Z.ltb_spec i 0); [lia |].
  apply upd_nat_spec. lia.
Qed.

(* ---- PendingQueue as a FIFO list ------------------------------------------- *)
Definition slot (q : pq) (i : Z) : Z := nth (Z.to_nat ((pos_r q + i) mod 32)) (vals q) (-1).

Record pq_rep (q : pq) (P : list Z) : Prop := {
  pr_len : length (vals q) = 32%nat;
  pr_r : 0 <= pos_r q < 32;
  pr_w : pos_w q = (pos_r q + zlen P) mod 32;
  pr_size : psize q = zlen P;
  pr_cap : zlen P <= 32;
  pr_slot : forall i, 0 <= i < 32 -> slot q i = nth (Z.to_nat i) P (-1)
}.

Lemma pq_rep0 : pq_rep pq0 [].
Proof.
  constructor; try reflexivity; try (cbn; lia).
  intros i Hi. unfold slot. cbn [pos_r vals pq0].
  assert (H : forall n, nth n (repeat (-1) 32) (-1) = -1).
  { intro n. destruct (Nat.ltb_spec n 32).
    - apply nth_repeat.
    - apply nth_overflow. rewrite repeat_length. exact H. }
  rewrite H. destruct (Z.to_nat i); reflexivity.
Qed.

Ltac zmod := Zify.zify; Z.div_mod_to_equations; lia.

Lemma pq_has_spec : forall q P x, pq_rep q P -> x <> -1 ->
  (pq_has q x = true <-> In x P).
Proof.
  intros q P x R Hx. unfold pq_has. rewrite existsb_exists. split.
  - intros [v [Hin Hv]]. apply Z.eqb_eq in Hv. subst v.
    destruct (In_nth _ _ (-1) Hin) as [j [Hj Hn]]. rewrite (pr_len _ _ R) in Hj.
    set (i := (Z.of_nat j - pos_r q) mod 32).
    pose proof (pr_r _ _ R) as Hr.
    assert (Hi : 0 <= i < 32) by (unfold i; zmod).
    pose proof (pr_slot _ _ R i Hi) as S. unfold slot in S.
    replace (Z.to_nat ((pos_r q + i) mod 32)) with j in S by (unfold i; zmod).
    rewrite Hn in S.
    destruct (Nat.ltb_spec (Z.to_nat i) (length P)) as [Hlt | Hge].
    + rewrite S. apply nth_In. exact Hlt.
    + rewrite nth_overflow in S by exact Hge. contradiction.
  - intro Hin. destruct (In_nth _ _ (-1) Hin) as [j [Hj Hn]].
    pose proof (pr_cap _ _ R) as Hc. unfold zlen in Hc.
    assert (Hi : 0 <= Z.of_nat j < 32) by lia.
    pose proof (pr_slot _ _ R _ Hi) as S. rewrite Nat2Z.id, Hn in S.
    exists x. split; [| apply Z.eqb_refl].
    rewrite <- S. unfold slot. apply nth_In. rewrite (pr_len _ _ R).
    pose proof (pr_r _ _ R). zmod.
Qed.

Lemma pq_insert_spec : forall q P x, pq_rep q P -> x <> -1 -> ~ In x P -> zlen P < 32 ->
  exists q', pq_insert q x = Some q' /\ pq_rep q' (P ++ [x]).
Proof.
  intros q P x R Hx Hn Hc. unfold pq_insert.
  destruct (pq_has q x) eqn:Hh.
  { apply (pq_has_spec q P x R Hx) in Hh. contradiction. }
  pose proof (pr_r _ _ R) as Hr. pose proof (pr_size _ _ R) as Hs.
  pose proof (pr_w _ _ R) as Hw. pose proof (pr_len _ _ R) as Hl.
  destruct (Z.ltb_spec 31 (psize q)); [lia |]. cbn [orb].
  destruct (updZ_spec (vals q) (pos_w q) x) as [vs [E [L N]]].
  { unfold zlen. rewrite Hl. rewrite Hw. zmod. }
  rewrite E. eexists. split; [reflexivity |].
  assert (HzP : 0 <= zlen P) by (unfold zlen; lia).
  constructor; cbn [vals pos_r pos_w psize].
  - lia.
  - exact Hr.
  - unfold zlen. rewrite app_length. cbn [length]. rewrite Hw. unfold zlen. zmod.
  - unfold zlen. rewrite app_length. cbn [length]. unfold zlen in Hs. lia.
  - unfold zlen. rewrite app_length. cbn [length]. unfold zlen in Hc. lia.
  - intros i Hi. unfold slot. cbn [vals pos_r]. rewrite N.
    pose proof (pr_slot _ _ R i Hi) as S. unfold slot in S.
    destruct (Nat.eqb_spec (Z.to_nat ((pos_r q + i) mod 32)) (Z.to_nat (pos_w q))) as [Eq | Ne].
    + assert (i = zlen P) by (rewrite Hw in Eq; zmod). subst i.
      unfold zlen. rewrite Nat2Z.id, app_nth2 by lia. rewrite Nat.sub_diag. reflexivity.
    + rewrite S. assert (i <> zlen P) by (intro; subst i; apply Ne; rewrite Hw; reflexivity).
      unfold zlen in *.
      destruct (Nat.ltb_spec (Z.to_nat i) (length P)).
      * rewrite app_nth1 by assumption. reflexivity.
      * rewrite !nth_overflow; try reflexivity; try assumption.
        rewrite app_length. cbn [length]. lia.
Qed.

Lemma pq_pop_spec : forall q x P, pq_rep q (x :: P) ->
  exists q', pq_pop q = Some q' /\ pq_rep q' P.
Proof.
  intros q x P R. unfold pq_pop.
  pose proof (pr_r _ _ R) as Hr. pose proof (pr_size _ _ R) as Hs.
  pose proof (pr_w _ _ R) as Hw. pose proof (pr_len _ _ R) as Hl.
  pose proof (pr_cap _ _ R) as Hc.
  unfold zlen in Hs, Hw, Hc. cbn [length] in Hs, Hw, Hc.
  destruct (Z.eqb_spec (psize q) 0); [lia |].
  destruct (updZ_spec (vals q) (pos_r q) (-1)) as [vs [E [L N]]].
  { unfold zlen. rewrite Hl. lia. }
  rewrite E. eexists. split; [reflexivity |].
  constructor; cbn [vals pos_r pos_w psize]; unfold zlen.
  - lia.
  - zmod.
  - rewrite Hw. zmod.
  - lia.
  - lia.
  - intros i Hi. unfold slot. cbn [vals pos_r]. rewrite N.
    destruct (Nat.eqb_spec (Z.to_nat (((1 + pos_r q) mod 32 + i) mod 32)) (Z.to_nat (pos_r q))) as [Eq | Ne].
    + assert (i = 31) by zmod. subst i.
      rewrite nth_overflow; [reflexivity | lia].
    + assert (Hi1 : 0 <= i + 1 < 32) by zmod.
      pose proof (pr_slot _ _ R (i + 1) Hi1) as HS. unfold slot in HS.
      replace (((1 + pos_r q) mod 32 + i) mod 32) with ((pos_r q + (i + 1)) mod 32) by zmod.
      rewrite HS. replace (Z.to_nat (i + 1)) with (S (Z.to_nat i)) by lia. reflexivity.
Qed.

Lemma pq_pop_nil : forall q, pq_rep q [] -> pq_pop q = Some q.
Proof.
  intros q R. unfold pq_pop. rewrite (pr_size _ _ R). reflexivity.
Qed.

(* ---- what the non-realtime operations do to the controller ids ------------- *)
Definition mids (m : list mapent) : list Z := map me_id m.
Definition omap (o : option store) : list mapent := match o with Some s => mapping s | None => [] end.

Definition keep (id : Z) (t : mapent) : bool := negb (me_id t =? id).

Lemma filter_keeps_most : forall id (m : list mapent), NoDup (mids m) ->
  (length m <= S (length (filter (keep id) m)))%nat.
Proof.
  induction m as [| t r IH]; intro N; [simpl; lia |].
  inversion N as [| ? ? Hn Nr]; subst. cbn [filter]. unfold keep at 1.
  destruct (Z.eqb_spec (me_id t) id) as [E | E]; cbn [negb length].
  - assert (F : filter (keep id) r = r).
    { clear IH N Nr. induction r as [| u r IH]; [reflexivity |].
      cbn [filter]. unfold keep at 1. destruct (Z.eqb_spec (me_id u) id) as [E2 | E2].
      - exfalso. apply Hn. left. congruence.
      - cbn [negb]. f_equal. apply IH. intro H. apply Hn. right. exact H. }
    rewrite F. lia.
  - specialize (IH Nr). lia.
Qed.

Lemma mids_filter_incl : forall f (m : list mapent), incl (mids (filter f m)) (mids m).
Proof.
  intros f m x H. unfold mids in *. apply in_map_iff in H. destruct H as [t [E I]].
  apply filter_In in I. apply in_map_iff. exists t. tauto.
Qed.

Lemma mids_filter_nodup : forall f (m : list mapent), NoDup (mids m) -> NoDup (mids (filter f m)).
Proof.
  induction m as [| t r IH]; intro N; [constructor |].
  inversion N as [| ? ? Hn Nr]; subst. cbn [filter]. destruct (f t).
  - cbn [mids map]. constructor; [| apply IH; exact Nr].
    intro H. apply Hn. apply (mids_filter_incl f r). exact H.
  - apply IH; exact Nr.
Qed.

Lemma killMap_fact : forall id s s', killMap id s = Some s' -> NoDup (mids (mapping s)) ->
  incl (mids (mapping s')) (mids (mapping s)) /\ NoDup (mids (mapping s')).
Proof.
  intros id s s' H N. unfold killMap in H.
  pose proof (filter_keeps_most id (mapping s) N) as K.
  destruct (mapping s) as [| t rest] eqn:E; [discriminate |].
  change (fun t0 : mapent => negb (me_id t0 =? id)) with (keep id) in H.
  set (kept := filter (keep id) (t :: rest)) in *.
  destruct (Nat.leb_spec (length kept) (length rest)) as [L | L]; [| discriminate].
  inversion H; subst s'; clear H. cbn [mapping].
  cbn [length] in K.
  replace (length rest - length kept)%nat with 0%nat by lia. cbn [repeat]. rewrite app_nil_r.
  split; [apply mids_filter_incl | apply mids_filter_nodup; exact N].
Qed.

Definition storage_step (o : option store) (out : list rmsg) (o' : option store) : Prop :=
  (out = [] /\ o' = o) \/
  (exists s', out = [RBind s' (-1)] /\ o' = Some s' /\
     incl (mids (mapping s')) (mids (omap o)) /\ NoDup (mids (mapping s'))).

Lemma unmap_fact : forall n a c n' out, nrt_unmap n a c = Some (n', out) ->
  NoDup (mids (omap (nstorage n))) ->
  learnQ n' = learnQ n /\ storage_step (nstorage n) out (nstorage n').
Proof.
  intros n a c n' out H N. unfold nrt_unmap in H.
  destruct (inv_find a (inv_map n)) as [im |].
  2:{ inversion H; subst. split; [reflexivity | left; auto]. }
  destruct ((if c then im_co im else im_fi im) =? -1).
  { inversion H; subst. split; [reflexivity | left; auto]. }
  destruct (nstorage n) as [s |] eqn:Es; [| discriminate].
  destruct (killMap _ (clone_store s)) as [s' |] eqn:K; [| discriminate].
  inversion H; subst. cbn [learnQ nstorage]. split; [reflexivity |].
  right. exists s'. repeat split; try reflexivity.
  all: apply killMap_fact in K; cbn [clone_store mapping omap] in *; tauto.
Qed.

Lemma map_fact : forall n a c n' out, nrt_map n a c = Some (n', out) ->
  NoDup (mids (omap (nstorage n))) ->
  (n' = n /\ out = []) \/
  (exists out0, out = out0 ++ [RWatch] /\ learnQ n' = learnQ n ++ [(a, c)] /\
     storage_step (nstorage n) out0 (nstorage n')).
Proof.
  intros n a c n' out H N. unfold nrt_map in H.
  destruct (qmem a c (learnQ n)).
  { inversion H; subst. left; auto. }
  destruct (nrt_unmap n a c) as [[n1 out0] |] eqn:U; [| discriminate].
  inversion H; subst. right. exists out0.
  destruct (unmap_fact _ _ _ _ _ U N) as [Q S]. cbn [learnQ nstorage].
  rewrite Q. auto.
Qed.

Lemma find_map_none : forall id m, find_map id m = None <-> ~ In id (mids m).
Proof.
  induction m as [| t r IH]; [simpl; tauto |].
  cbn [find_map mids map In]. destruct (Z.eqb_spec (me_id t) id).
  - split; [discriminate | intro H; exfalso; apply H; left; assumption].
  - fold (mids r). rewrite IH. tauto.
Qed.

Lemma mids_app : forall a b, mids (a ++ b) = mids a ++ mids b.
Proof. intros. unfold mids. apply map_app. Qed.

Lemma NoDup_snoc : forall (l : list Z) x, NoDup l -> ~ In x l -> NoDup (l ++ [x]).
Proof.
  induction l as [| y l IH]; intros x N F; cbn.
  - constructor; [tauto | constructor].
  - inversion N; subst. constructor.
    + rewrite in_app_iff. cbn. intros [H | [H | []]]; [tauto | subst; apply F; left; reflexivity].
    + apply IH; [assumption | intro; apply F; right; assumption].
Qed.

Lemma useFreeID_fact : forall ports n id a c q n' out,
  learnQ n = (a, c) :: q ->
  nrt_useFreeID ports n id = Some (n', out) ->
  ~ In id (mids (omap (nstorage n))) -> NoDup (mids (omap (nstorage n))) ->
  exists s', out = [RBind s' id] /\ nstorage n' = Some s' /\ learnQ n' = q /\
    incl (mids (mapping s')) (id :: mids (omap (nstorage n))) /\ NoDup (mids (mapping s')).
Proof.
  intros ports n id a c q n' out Q H F N. unfold nrt_useFreeID in H. rewrite Q in H.
  destruct (nthZ ports a) as [p |]; [| discriminate].
  set (pre := match inv_find a (inv_map n) with
              | Some _ => match nstorage n with Some s => Some (clone_store s, inv_map n) | None => None end
              | None => _ end) in H.
  assert (Hpre : forall ns inv1, pre = Some (ns, inv1) -> mapping ns = omap (nstorage n)).
  { intros ns inv1 E. unfold pre in E. destruct (inv_find a (inv_map n)).
    - destruct (nstorage n) as [s |]; [| discriminate]. inversion E; subst. reflexivity.
    - inversion E; subst. unfold gen_new. destruct (nstorage n); reflexivity. }
  destruct pre as [[ns inv1] |]; [| discriminate].
  specialize (Hpre ns inv1 eq_refl).
  destruct (inv_find a inv1) as [im |]; [| discriminate].
  set (ns1 := {| mapping := mapping ns ++ [(id, c, im_loc im)]; callbacks := callbacks ns; values := values ns |}) in H.
  assert (N1 : NoDup (mids (mapping ns1))).
  { cbn [ns1 mapping]. rewrite mids_app, Hpre. cbn [mids map me_id fst].
    apply NoDup_snoc; assumption. }
  assert (I1 : incl (mids (mapping ns1)) (id :: mids (omap (nstorage n)))).
  { cbn [ns1 mapping]. rewrite mids_app, Hpre. cbn [mids map me_id fst].
    intros x Hx. apply in_app_iff in Hx. destruct Hx as [Hx | [Hx | []]]; [right; exact Hx | left; exact Hx]. }
  set (killed := if c then _ else _) in H.
  assert (HK : forall ns2, killed = Some ns2 ->
            incl (mids (mapping ns2)) (mids (mapping ns1)) /\ NoDup (mids (mapping ns2))).
  { intros ns2 E. unfold killed in E. destruct c.
    - destruct (im_co im =? -1); [inversion E; subst; split; [apply incl_refl | exact N1] |].
      apply killMap_fact in E; assumption.
    - destruct (im_fi im =? -1); [inversion E; subst; split; [apply incl_refl | exact N1] |].
      apply killMap_fact in E; assumption. }
  destruct killed as [ns2 |]; [| discriminate].
  destruct (HK ns2 eq_refl) as [I2 N2].
  inversion H; subst. exists ns2. cbn [nstorage learnQ].
  repeat split; try reflexivity; try assumption.
  eapply incl_tran; eassumption.
Qed.

(* no address waits: the answer is the unchanged mapping *)
Lemma useFreeID_empty : forall ports n id, learnQ n = [] ->
  exists s', nrt_useFreeID ports n id =
             Some ({| nstorage := Some s'; inv_map := inv_map n; learnQ := [] |}, [RBind s' id]) /\
             mapping s' = omap (nstorage n).
Proof.
  intros ports n id Q. unfold nrt_useFreeID. rewrite Q.
  eexists. split; [reflexivity |]. destruct (nstorage n); reflexivity.
Qed.

(* ---- what the realtime operations do --------------------------------------- *)
Lemma store_handleCC_mapping : forall s id v s' m, store_handleCC s id v = Some (s', m) ->
  mapping s' = mapping s /\ (m = None -> ~ In id (mids (mapping s))).
Proof.
  intros s id v s' m H. unfold store_handleCC in H.
  destruct (find_map id (mapping s)) as [t |] eqn:F.
  - destruct (nthZ (values s) (me_ind t)); [| discriminate].
    destruct (nthZ (callbacks s) (me_ind t)); [| discriminate].
    destruct (updZ _ _ _); [| discriminate].
    inversion H; subst. split; [reflexivity | discriminate].
  - inversion H; subst. split; [reflexivity |]. intros _. apply find_map_none. exact F.
Qed.

Lemma handleCC_fact : forall r id v r' m used, rt_handleCC r id v = Some (r', m, used) ->
  omap (rstorage r') = omap (rstorage r) /\
  (used = false -> pending r' = pending r /\ watch r' = watch r) /\
  (used = true -> m = None /\ ~ In id (mids (omap (rstorage r))) /\ pq_has (pending r) id = false /\
                  watch r <> 0 /\ pq_insert (pending r) id = Some (pending r') /\ watch r' = watch r - 1).
Proof.
  intros r id v r' m used H. unfold rt_handleCC in H.
  set (handled := match rstorage r with None => Some (None, None) | Some s => _ end) in H.
  assert (HH : forall st' mm, handled = Some (st', mm) ->
            omap st' = omap (rstorage r) /\ (mm = None -> ~ In id (mids (omap (rstorage r))))).
  { intros st' mm E. unfold handled in E. destruct (rstorage r) as [s |].
    - destruct (store_handleCC s id v) as [[s' m'] |] eqn:S; [| discriminate].
      inversion E; subst. apply store_handleCC_mapping in S. cbn [omap]. tauto.
    - inversion E; subst. cbn. tauto. }
  destruct handled as [[st' [mm |]] |]; [| | discriminate].
  - inversion H; subst. destruct (HH _ _ eq_refl) as [M _]. cbn [rstorage pending watch].
    repeat split; try assumption; try reflexivity; discriminate.
  - destruct (HH _ _ eq_refl) as [M Nn]. specialize (Nn eq_refl).
    destruct (pq_has (pending r) id) eqn:Hh; cbn [negb andb] in H.
    { inversion H; subst. cbn [rstorage pending watch]. repeat split; try assumption; try reflexivity; discriminate. }
    destruct (Z.eqb_spec (watch r) 0); cbn [negb] in H.
    { inversion H; subst. cbn [rstorage pending watch]. repeat split; try assumption; try reflexivity; discriminate. }
    destruct (pq_insert (pending r) id) as [p' |] eqn:I; [| discriminate].
    inversion H; subst. cbn [rstorage pending watch].
    repeat split; try assumption; try reflexivity; try discriminate.
Qed.

Lemma cloneValues_mapping : forall a b c, cloneValues a b = Some c -> mapping c = mapping a.
Proof.
  intros a b c H. unfold cloneValues in H. destruct (clone_outer _ _ _); [| discriminate].
  inversion H; reflexivity.
Qed.

Lemma deliver_bind_fact : forall r ns ans r', rt_deliver r (RBind ns ans) = Some r' ->
  omap (rstorage r') = mapping ns /\
  (if ans =? -1 then Some (pending r) else pq_pop (pending r)) = Some (pending r') /\ watch r' = watch r.
Proof.
  intros r ns ans r' H. cbn [rt_deliver] in H.
  destruct (if ans =? -1 then Some (pending r) else pq_pop (pending r)) as [p' |]; [| discriminate].
  destruct (rstorage r) as [old |].
  - destruct (cloneValues ns old) as [ns' |] eqn:C; [| discriminate].
    inversion H; subst. cbn [rstorage pending watch omap]. apply cloneValues_mapping in C. auto.
  - inversion H; subst. cbn. auto.
Qed.

(* ---- the snapshots in flight ------------------------------------------------ *)
(* chain prev ch tg A: ch/tg are the nRT->RT queue and its tags; every bind's
   controller ids are those of the snapshot before it (prev for the first),
   plus - for an answering bind - the one controller it answers; A lists the
   answered controllers in order *)
Inductive chain : list mapent -> list rmsg -> list tag -> list Z -> Prop :=
| c_nil prev : chain prev [] [] []
| c_w prev ch tg A : chain prev ch tg A -> chain prev (RWatch :: ch) (TW :: tg) A
| c_r prev ch tg A : chain prev ch tg A -> chain prev (RUnwatch :: ch) (TR :: tg) A
| c_f prev s ch tg A : incl (mids (mapping s)) (mids prev) -> NoDup (mids (mapping s)) ->
    chain (mapping s) ch tg A -> chain prev (RBind s (-1) :: ch) (TBf :: tg) A
| c_a prev s id ch tg A : id <> -1 -> incl (mids (mapping s)) (id :: mids prev) -> NoDup (mids (mapping s)) ->
    chain (mapping s) ch tg A -> chain prev (RBind s id :: ch) (TBa :: tg) (id :: A).

Fixpoint lastm (prev : list mapent) (ch : list rmsg) : list mapent :=
  match ch with
  | [] => prev
  | RBind s _ :: r => lastm (mapping s) r
  | _ :: r => lastm prev r
  end.

Lemma lastm_app : forall a prev b, lastm prev (a ++ b) = lastm (lastm prev a) b.
Proof. induction a as [| m a IH]; intros; [reflexivity |]. destruct m; cbn; apply IH. Qed.

Lemma chain_last_incl : forall prev ch tg A, chain prev ch tg A ->
  incl (mids (lastm prev ch)) (mids prev ++ A).
Proof.
  induction 1; cbn [lastm].
  - rewrite app_nil_r. apply incl_refl.
  - assumption.
  - assumption.
  - intros x Hx. apply IHchain in Hx. apply in_app_iff in Hx. apply in_app_iff.
    destruct Hx; [left; auto | right; assumption].
  - intros x Hx. apply IHchain in Hx. apply in_app_iff in Hx. apply in_app_iff.
    destruct Hx as [Hx | Hx]; [| right; right; assumption].
    apply H0 in Hx. destruct Hx; [right; left; assumption | left; assumption].
Qed.

Lemma chain_last_nodup : forall prev ch tg A, chain prev ch tg A -> NoDup (mids prev) ->
  NoDup (mids (lastm prev ch)).
Proof. induction 1; cbn [lastm]; auto. Qed.

Lemma chain_app : forall prev ch tg A m t A',
  chain prev ch tg A ->
  (forall p, chain p [m] [t] A' -> True) ->
  chain (lastm prev ch) [m] [t] A' -> chain prev (ch ++ [m]) (tg ++ [t]) (A ++ A').
Proof.
  intros prev ch tg A m t A' C _. induction C; intro L; cbn [app lastm] in *.
  - exact L.
  - constructor; auto.
  - constructor; auto.
  - constructor; auto.
  - constructor; auto.
Qed.

Lemma chain_len : forall prev ch tg A, chain prev ch tg A -> length tg = length ch.
Proof. induction 1; cbn; auto. Qed.

(* ---- the watch count as the deliveries will change it ----------------------- *)
Fixpoint wsim (w : Z) (tg : list tag) : option Z :=
  match tg with
  | [] => Some w
  | TW :: r => wsim (w + 1) r
  | TR :: r => if 0 <? w then wsim (w - 1) r else None
  | _ :: r => wsim w r
  end.

Lemma wsim_app : forall a w b, wsim w (a ++ b) = match wsim w a with Some k => wsim k b | None => None end.
Proof.
  induction a as [| t a IH]; intros; [reflexivity |].
  destruct t; cbn [app wsim]; try apply IH. destruct (0 <? w); [apply IH | reflexivity].
Qed.

Lemma wsim_nonneg : forall tg w k, wsim w tg = Some k -> 0 <= w -> 0 <= k.
Proof.
  induction tg as [| t tg IH]; intros w k H Hw; cbn [wsim] in H.
  - inversion H; lia.
  - destruct t; try (eapply IH; [eassumption | lia]).
    destruct (Z.ltb_spec 0 w); [| discriminate]. eapply IH; [eassumption | lia].
Qed.

Lemma wsim_shift : forall tg w k d, ~ In TR tg -> wsim w tg = Some k -> wsim (w + d) tg = Some (k + d).
Proof.
  induction tg as [| t tg IH]; intros w k d N H; cbn [wsim] in *.
  - inversion H; reflexivity.
  - destruct t.
    + replace (w + d + 1) with (w + 1 + d) by lia. apply IH; [intro; apply N; right; assumption | exact H].
    + exfalso. apply N. left. reflexivity.
    + apply IH; [intro; apply N; right; assumption | exact H].
    + apply IH; [intro; apply N; right; assumption | exact H].
Qed.

Lemma wsim_TRs : forall {X} (q : list X) k, zlen q <= k ->
  wsim k (map (fun _ => TR) q) = Some (k - zlen q).
Proof.
  induction q as [| x q IH]; intros k H; unfold zlen in *; cbn [map wsim length] in *.
  - f_equal. lia.
  - destruct (Z.ltb_spec 0 k); [| lia]. rewrite IH by lia. f_equal. lia.
Qed.

(* every remove-watch is followed by a foreign bind (clear sends them so) *)
Fixpoint trok (tg : list tag) : bool :=
  match tg with
  | [] => true
  | TR :: r => existsb is_TBf r && trok r
  | _ :: r => trok r
  end.

Lemma trok_in : forall tg, trok tg = true -> In TR tg -> existsb is_TBf tg = true.
Proof.
  induction tg as [| t tg IH]; intros T I; [destruct I |].
  destruct t; cbn [trok existsb is_TBf orb] in *.
  - destruct I as [I | I]; [discriminate | auto].
  - apply andb_true_iff in T. tauto.
  - reflexivity.
  - destruct I as [I | I]; [discriminate | auto].
Qed.

Lemma trok_tail : forall t tg, trok (t :: tg) = true -> trok tg = true.
Proof. intros t tg H. destruct t; cbn [trok] in H; try assumption. apply andb_true_iff in H. tauto. Qed.

Lemma trok_app : forall a b, trok a = true -> trok b = true -> trok (a ++ b) = true.
Proof.
  induction a as [| t a IH]; intros b Ha Hb; [exact Hb |].
  destruct t; cbn [app trok] in *; auto.
  apply andb_true_iff in Ha. destruct Ha as [E T]. apply andb_true_iff. split; [| auto].
  rewrite existsb_app, E. reflexivity.
Qed.

Lemma trok_TRs_f : forall {X} (q : list X), trok (map (fun _ => TR) q ++ [TBf]) = true.
Proof.
  induction q as [| x q IH]; [reflexivity |].
  cbn [map app trok]. rewrite IH, existsb_app. cbn. rewrite orb_true_r. reflexivity.
Qed.

(* no answering bind behind a foreign one *)
Fixpoint baf (tg : list tag) : bool :=
  match tg with
  | [] => true
  | TBf :: r => negb (existsb is_TBa r) && baf r
  | _ :: r => baf r
  end.

Lemma baf_tail : forall t tg, baf (t :: tg) = true -> baf tg = true.
Proof. intros t tg H. destruct t; cbn [baf] in H; try assumption. apply andb_true_iff in H. tauto. Qed.

Lemma baf_app : forall a b, baf a = true -> baf b = true ->
  (existsb is_TBf a = true -> existsb is_TBa b = false) -> baf (a ++ b) = true.
Proof.
  induction a as [| t a IH]; intros b Ha Hb Hx; [exact Hb |].
  destruct t; cbn [app baf existsb is_TBf orb] in *; auto.
  apply andb_true_iff in Ha. destruct Ha as [E T]. apply andb_true_iff. split.
  - rewrite existsb_app. apply negb_true_iff in E. rewrite E, (Hx eq_refl). reflexivity.
  - apply IH; auto.
Qed.

Lemma existsb_TBa_TRs : forall {X} (q : list X) t, is_TBa t = false ->
  existsb is_TBa (map (fun _ => TR) q ++ [t]) = false.
Proof. induction q as [| x q IH]; intros t Ht; cbn; [rewrite Ht; reflexivity | apply IH; exact Ht]. Qed.

Lemma baf_TRs_f : forall {X} (q : list X), baf (map (fun _ => TR) q ++ [TBf]) = true.
Proof. induction q as [| x q IH]; [reflexivity | exact IH]. Qed.

Lemma chain_count : forall prev ch tg A, chain prev ch tg A -> zlen A = count_TBa tg.
Proof.
  unfold zlen, count_TBa. induction 1; cbn [filter is_TBa length]; try assumption; try reflexivity.
  rewrite !Nat2Z.inj_succ. f_equal. assumption.
Qed.

Lemma chain_noTBa : forall prev ch tg A, chain prev ch tg A -> existsb is_TBa tg = false -> A = [].
Proof. induction 1; cbn [existsb is_TBa orb]; intro E; auto; discriminate. Qed.

(* ---- the invariant ----------------------------------------------------------- *)
Section Handshake.
  Variable U : list Z.                        (* the controllers of the history *)

  Record GI (nst : option store) (lq : list (Z * bool)) (r : rt) (cn : list Z) (cr : list rmsg)
            (pend : Z) (tg : list tag) (P A : list Z) : Prop := {
    g_rep : pq_rep (pending r) P;
    g_pend : pend = zlen P;
    g_P : P = A ++ cn;
    g_nodup : NoDup P;
    g_pos : Forall (fun x => 0 <= x) P;
    g_inU : incl P U;
    g_chain : chain (omap (rstorage r)) cr tg A;
    g_rnodup : NoDup (mids (omap (rstorage r)));
    g_last : omap nst = lastm (omap (rstorage r)) cr;
    g_disj : forall x, In x (mids (omap (rstorage r))) -> ~ In x P;
    g_quiet : existsb is_TBf tg = true -> cn = [];
    g_baf : baf tg = true;
    g_watch : wsim (watch r) tg = Some (zlen lq - zlen cn);
    g_trok : trok tg = true;
    g_wpos : 0 <= watch r
  }.

  (* P: the pending controllers, oldest first *)
  Definition GP (w : world) (pend : Z) (tg : list tag) (P : list Z) : Prop :=
    exists A, GI (nstorage (wn w)) (learnQ (wn w)) (wr w) (chN w) (chR w) pend tg P A.

  Definition G (w : world) (pend : Z) (tg : list tag) : Prop :=
    exists P, GP w pend tg P.

  Lemma G0 : G world0 0 [].
  Proof.
    exists [], []. constructor; cbn; try apply pq_rep0; try constructor; try reflexivity; try lia; try tauto.
    intros x [].
  Qed.

  Lemma GI_nst_nodup : forall nst lq r cn cr pend tg P A, GI nst lq r cn cr pend tg P A ->
    NoDup (mids (omap nst)).
  Proof.
    intros. rewrite (g_last _ _ _ _ _ _ _ _ _ H).
    eapply chain_last_nodup; [apply (g_chain _ _ _ _ _ _ _ _ _ H) | apply (g_rnodup _ _ _ _ _ _ _ _ _ H)].
  Qed.

  (* a foreign bind is appended while nothing is pending *)
  Lemma GI_bind_f : forall nst lq r cn cr pend tg P A s,
    GI nst lq r cn cr pend tg P A -> cn = [] ->
    incl (mids (mapping s)) (mids (omap nst)) -> NoDup (mids (mapping s)) ->
    GI (Some s) lq r cn (cr ++ [RBind s (-1)]) pend (tg ++ [TBf]) P A.
  Proof.
    intros nst lq r cn cr pend tg P A s I HP Hi Hn. destruct I.
    constructor; try assumption.
    - rewrite <- (app_nil_r A). apply chain_app; [assumption | auto |].
      constructor; [rewrite <- g_last0; assumption | assumption | constructor].
    - rewrite lastm_app. reflexivity.
    - intros _. exact HP.
    - apply baf_app; [assumption | reflexivity | intros _; reflexivity].
    - rewrite wsim_app, g_watch0. reflexivity.
    - apply trok_app; [assumption | reflexivity].
  Qed.

  Lemma GI_watch : forall nst lq r cn cr pend tg P A x,
    GI nst lq r cn cr pend tg P A ->
    GI nst (lq ++ [x]) r cn (cr ++ [RWatch]) pend (tg ++ [TW]) P A.
  Proof.
    intros nst lq r cn cr pend tg P A x I. destruct I.
    constructor; try assumption.
    - rewrite <- (app_nil_r A). apply chain_app; [assumption | auto |]. repeat constructor.
    - rewrite lastm_app. assumption.
    - rewrite existsb_app. cbn. rewrite orb_false_r. assumption.
    - apply baf_app; [assumption | reflexivity | intros _; reflexivity].
    - rewrite wsim_app, g_watch0. cbn [wsim]. f_equal. unfold zlen. rewrite app_length. cbn. lia.
    - apply trok_app; [assumption | reflexivity].
  Qed.

  Lemma chain_app_TRs : forall {X} (q : list X) prev ch tg A, chain prev ch tg A ->
    chain prev (ch ++ map (fun _ => RUnwatch) q) (tg ++ map (fun _ => TR) q) A.
  Proof.
    induction q as [| x q IH]; intros; cbn [map]; [rewrite !app_nil_r; assumption |].
    change (RUnwatch :: map (fun _ => RUnwatch) q) with ([RUnwatch] ++ map (fun _ : X => RUnwatch) q).
    change (TR :: map (fun _ => TR) q) with ([TR] ++ map (fun _ : X => TR) q).
    rewrite !app_assoc. apply IH. rewrite <- (app_nil_r A). apply chain_app; [assumption | auto |].
    repeat constructor.
  Qed.

  Lemma lastm_TRs : forall {X} (q : list X) prev, lastm prev (map (fun _ => RUnwatch) q) = prev.
  Proof. induction q; intros; cbn; auto. Qed.

  Lemma GI_clear : forall nst lq r cn cr pend tg P A,
    GI nst lq r cn cr pend tg P A -> cn = [] ->
    GI (Some empty_store) [] r cn (cr ++ map (fun _ => RUnwatch) lq ++ [RBind empty_store (-1)])
       pend (tg ++ map (fun _ => TR) lq ++ [TBf]) P A.
  Proof.
    intros nst lq r cn cr pend tg P A I HP. destruct I.
    constructor; try assumption.
    - rewrite !app_assoc. rewrite <- (app_nil_r A). apply chain_app; [apply chain_app_TRs; assumption | auto |].
      constructor; [intros x [] | constructor | constructor].
    - rewrite !app_assoc, lastm_app. reflexivity.
    - intros _. exact HP.
    - apply baf_app; [assumption | apply baf_TRs_f | intros _; apply existsb_TBa_TRs; reflexivity].
    - rewrite wsim_app, g_watch0. subst cn. cbn [zlen length]. rewrite Z.sub_0_r.
      rewrite wsim_app, wsim_TRs by lia. cbn [wsim]. f_equal. unfold zlen. cbn. lia.
    - apply trok_app; [assumption | apply trok_TRs_f].
  Qed.

  (* as many pending controllers as answering binds in flight: no midi-use-CC is under way *)
  Lemma GI_cn_nil : forall nst lq r cn cr pend tg P A,
    GI nst lq r cn cr pend tg P A -> pend = count_TBa tg -> cn = [].
  Proof.
    intros nst lq r cn cr pend tg P A I E. destruct I.
    pose proof (chain_count _ _ _ _ g_chain0) as C. subst P. unfold zlen in *.
    rewrite app_length in g_pend0. destruct cn; [reflexivity | cbn [length] in g_pend0; lia].
  Qed.
End Handshake.

(* ---- one step of the quiescence predicate ------------------------------------ *)
Definition qstep (pend : Z) (ch : list tag) (e : event) (r : list obs) : option (Z * list tag) :=
  match e with
  | EMap _ _ | EUnmap _ _ | EClear =>
      if existsb is_OB r && negb (pend =? count_TBa ch) then None else Some (pend, ch ++ op_tags r)
  | ECC _ _ _ _ =>
      if existsb is_OU r then (if existsb is_TBf ch then None else Some (pend + 1, ch))
      else Some (pend, ch)
  | EDelN => Some (pend, ch ++ ans_tags r)
  | EDelR => match ch with
             | [] => Some (pend, ch)
             | t :: ch' => Some ((if is_TBa t && (0 <? pend) then pend - 1 else pend), ch')
             end
  end.

Lemma nocross_from_step : forall pend ch e es r rs,
  nocross_from pend ch (e :: es) (r :: rs) =
  match qstep pend ch e r with Some (p', c') => nocross_from p' c' es rs | None => false end.
Proof.
  intros. destruct e; cbn [nocross_from qstep].
  1-3: destruct (existsb is_OB r && negb (pend =? count_TBa ch)); reflexivity.
  - destruct (existsb is_OU r); [destruct (existsb is_TBf ch) |]; reflexivity.
  - reflexivity.
  - destruct ch; reflexivity.
Qed.

(* ... and of the pending set the records imply (MidiSpec.pending_from) *)
Definition ou_ids (r : list obs) : list Z := flat_map (fun o => match o with OU i => [i] | _ => [] end) r.

Definition pstep (P : list Z) (ch : list tag) (e : event) (r : list obs) : list Z :=
  match e with
  | ECC _ _ _ _ => P ++ ou_ids r
  | EDelR => match ch with t :: _ => if is_TBa t then tl P else P | [] => P end
  | _ => P
  end.

Lemma pending_from_step : forall pend P ch e es r rs p' c',
  qstep pend ch e r = Some (p', c') ->
  pending_from P ch (e :: es) (r :: rs) = pending_from (pstep P ch e r) c' es rs.
Proof.
  intros pend P ch e es r rs p' c' Q. destruct e; cbn [pending_from pstep qstep] in *.
  1-3: destruct (existsb is_OB r && negb (pend =? count_TBa ch)); [discriminate | inversion Q; reflexivity].
  - destruct (existsb is_OU r); [destruct (existsb is_TBf ch); [discriminate |] |]; inversion Q; reflexivity.
  - inversion Q; reflexivity.
  - destruct ch; inversion Q; reflexivity.
Qed.

Lemma ou_ids_cc : forall (m : option msg) (used : bool) id,
  ou_ids (match m with Some x => [OM x] | None => [] end ++ (if used then [OU id] else [])) =
  if used then [id] else [].
Proof. intros. destruct m, used; reflexivity. Qed.

Definition out_tags (out : list rmsg) : list tag :=
  map (fun m => match m with RWatch => TW | RUnwatch => TR | RBind _ _ => TBf end) out.

Lemma op_tags_out : forall out, op_tags (map obs_of_rmsg out) = out_tags out.
Proof. induction out as [| m out IH]; [reflexivity |]. destruct m; cbn; f_equal; apply IH. Qed.

Lemma op_tags_clear : forall {X} (q : list X),
  op_tags (map obs_of_rmsg (map (fun _ => RUnwatch) q) ++ [OB]) = map (fun _ => TR) q ++ [TBf].
Proof. induction q as [| x q IH]; [reflexivity |]. cbn. f_equal. exact IH. Qed.

Definition ev_ok (U : list Z) (e : event) : Prop :=
  match e with
  | ECC p _ ch n => In (cc_id p ch n) U /\ 0 <= cc_id p ch n
  | _ => True
  end.

(* what the theorem promises at each event *)
Definition pre_ok (w : world) (e : event) : Prop :=
  NoDup (mids (omap (nstorage (wn w)))) /\ NoDup (mids (omap (rstorage (wr w)))) /\
  match e, chN w with
  | EDelN, id :: _ =>
      learnQ (wn w) <> [] /\ ~ In id (mids (omap (nstorage (wn w))))
  | _, _ => True
  end.

Section Step.
  Variable U : list Z.
  Hypothesis U_nodup : NoDup U.
  Hypothesis U_small : (length U <= 32)%nat.
  Variable ports : list port.

  Lemma G_op : forall nst lq r cn cr pend tg P A nst' out,
    GI U nst lq r cn cr pend tg P A ->
    storage_step nst out nst' ->
    (existsb is_OB (map obs_of_rmsg out) && negb (pend =? count_TBa tg) = false) ->
    GI U nst' lq r cn (cr ++ out) pend (tg ++ out_tags out) P A.
  Proof.
    intros nst lq r cn cr pend tg P A nst' out I S Q.
    destruct S as [[-> ->] | [s' [-> [-> [Hi Hn]]]]].
    - cbn. rewrite !app_nil_r. exact I.
    - cbn [map obs_of_rmsg existsb is_OB orb andb] in Q.
      destruct (Z.eqb_spec pend (count_TBa tg)) as [E | E]; [| discriminate].
      apply GI_bind_f with (nst := nst); try assumption.
      eapply GI_cn_nil; eassumption.
  Qed.

  Lemma existsb_OB_app : forall a b, existsb is_OB (map obs_of_rmsg (a ++ b)) =
    existsb is_OB (map obs_of_rmsg a) || existsb is_OB (map obs_of_rmsg b).
  Proof. intros. rewrite map_app, existsb_app. reflexivity. Qed.

  Lemma GP_step : forall w pend tg P e w' r p' tg',
    GP U w pend tg P -> ev_ok U e ->
    step ports w e = Some (w', r) -> qstep pend tg e r = Some (p', tg') ->
    pre_ok w e /\ GP U w' p' tg' (pstep P tg e r).
  Proof.
    intros w pend tg P e w' r p' tg' [A I] Hev Hs Hq.
    pose proof (GI_nst_nodup _ _ _ _ _ _ _ _ _ _ I) as Nn.
    pose proof (g_rnodup _ _ _ _ _ _ _ _ _ _ I) as Nr.
    destruct e; cbn [step] in Hs; cbn [qstep] in Hq; cbn [pstep].
    - (* map *)
      split; [repeat split; assumption |].
      unfold nrt_result in Hs. destruct (nrt_map (wn w) a c) as [[n' out] |] eqn:M; [| discriminate].
      inversion Hs; subst w' r; clear Hs. cbn [app] in Hq.
      destruct (existsb is_OB (map obs_of_rmsg out) && negb (pend =? count_TBa tg)) eqn:Q; [discriminate |].
      inversion Hq; subst p' tg'; clear Hq. rewrite op_tags_out.
      exists A. cbn [wn wr chN chR].
      destruct (map_fact _ _ _ _ _ M Nn) as [[-> ->] | [out0 [-> [LQ S]]]].
      + cbn. rewrite !app_nil_r. exact I.
      + rewrite LQ. unfold out_tags. rewrite map_app, !app_assoc. cbn [map].
        apply GI_watch. apply G_op with (nst := nstorage (wn w)); try assumption.
        rewrite existsb_OB_app in Q. apply andb_false_iff in Q. apply andb_false_iff.
        destruct Q as [Q | Q]; [left; apply orb_false_iff in Q; tauto | right; exact Q].
    - (* unMap *)
      split; [repeat split; assumption |].
      unfold nrt_result in Hs. destruct (nrt_unmap (wn w) a c) as [[n' out] |] eqn:M; [| discriminate].
      inversion Hs; subst w' r; clear Hs. cbn [app] in Hq.
      destruct (existsb is_OB (map obs_of_rmsg out) && negb (pend =? count_TBa tg)) eqn:Q; [discriminate |].
      inversion Hq; subst p' tg'; clear Hq. rewrite op_tags_out.
      exists A. cbn [wn wr chN chR].
      destruct (unmap_fact _ _ _ _ _ M Nn) as [LQ S]. rewrite LQ.
      apply G_op with (nst := nstorage (wn w)); assumption.
    - (* clear *)
      split; [repeat split; assumption |].
      cbn [nrt_clear nrt_result] in Hs. inversion Hs; subst w' r; clear Hs. cbn [app] in Hq.
      rewrite map_app, existsb_app in Hq. cbn [map obs_of_rmsg existsb is_OB] in Hq.
      rewrite orb_true_r in Hq. cbn [andb] in Hq.
      destruct (Z.eqb_spec pend (count_TBa tg)) as [E | E]; [| discriminate]. cbn [negb] in Hq.
      inversion Hq; subst p' tg'; clear Hq.
      rewrite op_tags_clear.
      exists A. cbn [wn wr chN chR nstorage learnQ].
      apply GI_clear with (nst := nstorage (wn w)); try assumption.
      eapply GI_cn_nil; eassumption.
    - (* CC *)
      split; [repeat split; assumption |].
      destruct Hev as [HU Hpos]. set (id := cc_id par chan nrpn) in *.
      destruct (rt_handleCC (wr w) id val) as [[[r' m] used] |] eqn:H; [| discriminate].
      inversion Hs; subst w' r; clear Hs.
      destruct (handleCC_fact _ _ _ _ _ _ H) as [Hm [Hf Ht]].
      assert (EU : existsb is_OU (match m with Some x => [OM x] | None => [] end ++ (if used then [OU id] else [])) = used).
      { destruct m, used; reflexivity. }
      rewrite EU in Hq. rewrite ou_ids_cc. destruct used.
      + destruct (Ht eq_refl) as [-> [Hnot [Hhas [Hw0 [Hins Hw]]]]].
        destruct (existsb is_TBf tg) eqn:ETB; [discriminate |].
        inversion Hq; subst p' tg'; clear Hq.
        destruct I.
        assert (HnP : ~ In id P).
        { intro Hin. apply (pq_has_spec _ _ id g_rep0) in Hin; [congruence | lia]. }
        assert (Hcap : zlen P < 32).
        { assert (N2 : NoDup (id :: P)) by (constructor; assumption).
          assert (I2 : incl (id :: P) U) by (intros x [-> | Hx]; [assumption | apply g_inU0; assumption]).
          pose proof (NoDup_incl_length N2 I2) as L. cbn [length] in L. unfold zlen. lia. }
        destruct (pq_insert_spec _ _ id g_rep0) as [q' [Eq Rq]]; try assumption; try lia.
        rewrite Hins in Eq. inversion Eq; subst q'; clear Eq.
        exists A. cbn [wn wr chN chR].
        constructor.
        * assumption.
        * unfold zlen in *. rewrite app_length. cbn. lia.
        * rewrite g_P0, app_assoc. reflexivity.
        * apply NoDup_snoc; assumption.
        * apply Forall_app. split; [assumption | constructor; [exact Hpos | constructor]].
        * apply incl_app; [assumption | intros x [-> | []]; assumption].
        * rewrite Hm. assumption.
        * rewrite Hm. assumption.
        * rewrite Hm. assumption.
        * rewrite Hm. intros x Hx Hin. apply in_app_iff in Hin. destruct Hin as [Hin | [-> | []]].
          -- eapply g_disj0; eassumption.
          -- apply Hnot. exact Hx.
        * intro. congruence.
        * assumption.
        * rewrite Hw. assert (NTR : ~ In TR tg).
          { intro HTR. apply (trok_in _ g_trok0) in HTR. congruence. }
          replace (watch (wr w) - 1) with (watch (wr w) + -1) by lia.
          rewrite (wsim_shift tg (watch (wr w)) _ (-1) NTR g_watch0). f_equal.
          unfold zlen. rewrite app_length. cbn. lia.
        * assumption.
        * lia.
      + destruct (Hf eq_refl) as [Hp Hw]. inversion Hq; subst p' tg'; clear Hq.
        rewrite app_nil_r. exists A. cbn [wn wr chN chR]. destruct I.
        constructor; try assumption; try (rewrite Hm; assumption); try (rewrite Hp; assumption);
          try (rewrite Hw; assumption).
    - (* deliver to nRT *)
      inversion Hq; subst p' tg'; clear Hq. unfold pre_ok.
      destruct (chN w) as [| id rest] eqn:EN.
      + split; [repeat split; assumption |].
        inversion Hs; subst w' r; clear Hs. cbn [ans_tags flat_map app]. rewrite app_nil_r.
        exists A. rewrite EN. exact I.
      + destruct I.
        assert (HinP : In id P) by (rewrite g_P0; apply in_app_iff; right; left; reflexivity).
        assert (Fresh : ~ In id (mids (omap (nstorage (wn w))))).
        { rewrite g_last0. intro Hin. apply (chain_last_incl _ _ _ _ g_chain0) in Hin.
          apply in_app_iff in Hin. destruct Hin as [Hin | Hin].
          - eapply g_disj0; eassumption.
          - rewrite g_P0 in g_nodup0. apply NoDup_remove_2 in g_nodup0.
            apply g_nodup0. apply in_app_iff. left. exact Hin. }
        assert (HQ : learnQ (wn w) <> []).
        { pose proof (wsim_nonneg _ _ _ g_watch0 g_wpos0) as K. intro E. rewrite E in K.
          unfold zlen in K. cbn [length] in K. lia. }
        split; [repeat split; assumption |].
        destruct (learnQ (wn w)) as [| [a c] q] eqn:LQ; [congruence |].
        unfold nrt_result in Hs.
        destruct (nrt_useFreeID ports (wn w) id) as [[n' out] |] eqn:UF; [| discriminate].
        inversion Hs; subst w' r; clear Hs.
        destruct (useFreeID_fact _ _ _ _ _ _ _ _ LQ UF Fresh Nn) as [s' [-> [Hst [Hlq [Hincl Hnd]]]]].
        cbn [map obs_of_rmsg app ans_tags flat_map hd_error].
        exists (A ++ [id]). cbn [wn wr chN chR]. rewrite Hst, Hlq.
        constructor; try assumption.
        * rewrite g_P0, <- app_assoc. reflexivity.
        * apply chain_app; [assumption | auto |].
          assert (Hid : id <> -1).
          { pose proof g_pos0 as Gp. rewrite Forall_forall in Gp. specialize (Gp _ HinP). lia. }
          constructor; [exact Hid | rewrite <- g_last0; assumption | assumption | constructor].
        * rewrite lastm_app. reflexivity.
        * rewrite existsb_app. cbn. rewrite orb_false_r. intro E. apply g_quiet0 in E. discriminate.
        * apply baf_app; [assumption | reflexivity | intro E; apply g_quiet0 in E; discriminate].
        * rewrite wsim_app, g_watch0. cbn [wsim]. f_equal. unfold zlen. cbn [length]. lia.
        * apply trok_app; [assumption | reflexivity].
    - (* deliver to RT *)
      split; [repeat split; assumption |].
      destruct I. subst P.
      destruct (chR w) as [| m rest] eqn:ER.
      + assert (HH : tg = [] /\ A = []) by (inversion g_chain0; auto). destruct HH as [-> ->].
        inversion Hs; subst w' r; clear Hs.
        inversion Hq; subst p' tg'; clear Hq.
        exists []. rewrite ER. constructor; try assumption. reflexivity.
      + destruct (rt_deliver (wr w) m) as [r' |] eqn:D; [| discriminate].
        inversion Hs; subst w' r; clear Hs. cbn [wn wr chN chR].
        inversion g_chain0 as [| ? ? tgr ? C | ? ? tgr ? C | ? s ? tgr ? Hi Hn C | ? s id ? tgr A' Hid Hi Hn C]; subst.
        * (* add-watch *)
          inversion Hq; subst p' tg'; clear Hq. cbn [is_TBa andb].
          cbn [rt_deliver] in D. inversion D; subst r'; clear D.
          exists A. cbn [rstorage pending watch] in *.
          constructor; try assumption; cbn [wn wr chN chR rstorage pending watch]; try assumption; try lia; try reflexivity.
        * (* remove-watch *)
          inversion Hq; subst p' tg'; clear Hq. cbn [is_TBa andb].
          cbn [rt_deliver] in D. inversion D; subst r'; clear D.
          cbn [wsim] in g_watch0. destruct (Z.ltb_spec 0 (watch (wr w))) as [Hw | Hw]; [| discriminate].
          exists A. cbn [rstorage pending watch] in *.
          constructor; try assumption; cbn [wn wr chN chR rstorage pending watch]; try assumption; try reflexivity.
          -- destruct (Z.eqb_spec (watch (wr w)) 0); [lia | assumption].
          -- eapply trok_tail; eassumption.
          -- destruct (Z.eqb_spec (watch (wr w)) 0); lia.
        * (* foreign bind: nothing is pending *)
          assert (HN : chN w = []) by (apply g_quiet0; reflexivity).
          assert (HA : A = []).
          { apply (chain_noTBa _ _ _ _ C). pose proof g_baf0 as Bf. cbn [baf] in Bf.
            apply andb_true_iff in Bf. destruct Bf as [E _]. apply negb_true_iff in E. exact E. }
          subst A.
          inversion Hq; subst p' tg'; clear Hq.
          destruct (deliver_bind_fact _ _ _ _ D) as [Hm [Hpop Hw]].
          rewrite HN in *. cbn [app] in *.
          cbn [Z.eqb Pos.eqb Z.opp] in Hpop. inversion Hpop as [Hp].
          cbn [zlen length Z.of_nat]. cbn [is_TBa andb].
          exists []. cbn [wn wr chN chR]. cbn [lastm] in g_last0. cbn [wsim] in g_watch0.
          constructor; try assumption; try (rewrite <- Hp; assumption); try (rewrite Hm; assumption);
            try (rewrite Hw; assumption); try reflexivity;
            try (intros x _ []); try (eapply trok_tail; eassumption); try (intros _; reflexivity);
            try (eapply baf_tail; eassumption).
        * (* answering bind: its controller is the oldest pending one *)
          destruct (deliver_bind_fact _ _ _ _ D) as [Hm [Hpop Hw]].
          cbn [app] in *.
          destruct (Z.eqb_spec id (-1)) as [E1 | _]; [contradiction |].
          destruct (pq_pop_spec _ _ _ g_rep0) as [q' [Eq Rq]]. rewrite Hpop in Eq. inversion Eq; subst q'; clear Eq.
          assert (Hz : 0 <? zlen (id :: A' ++ chN w) = true) by (unfold zlen; cbn [length]; apply Z.ltb_lt; lia).
          rewrite Hz in Hq. cbn [is_TBa andb] in Hq.
          replace (zlen (id :: A' ++ chN w) - 1) with (zlen (A' ++ chN w)) in Hq
            by (unfold zlen; cbn [length]; lia).
          inversion Hq; subst p' tg'; clear Hq.
          inversion g_nodup0 as [| ? ? Hni Nd]; subst.
          exists A'. cbn [wn wr chN chR]. cbn [lastm] in g_last0. cbn [wsim] in g_watch0.
          constructor; try assumption; try (rewrite Hm; assumption); try (rewrite Hw; assumption); try reflexivity.
          -- inversion g_pos0; assumption.
          -- intros x Hx. apply g_inU0. right. exact Hx.
          -- rewrite Hm. intros x Hx Hin. apply Hi in Hx. destruct Hx as [<- | Hx].
             ++ contradiction.
             ++ apply (g_disj0 x Hx). right. exact Hin.
  Qed.

  Lemma G_step : forall w pend tg e w' r p' tg',
    G U w pend tg -> ev_ok U e ->
    step ports w e = Some (w', r) -> qstep pend tg e r = Some (p', tg') ->
    pre_ok w e /\ G U w' p' tg'.
  Proof.
    intros w pend tg e w' r p' tg' [P HG] Hev Hs Hq.
    destruct (GP_step _ _ _ _ _ _ _ _ _ HG Hev Hs Hq) as [Hpre HG'].
    split; [exact Hpre | eexists; exact HG'].
  Qed.
End Step.

Lemma G_pre : forall U w pend tg e, G U w pend tg -> pre_ok w e.
Proof.
  intros U w pend tg e [P [A I]].
  pose proof (GI_nst_nodup _ _ _ _ _ _ _ _ _ _ I) as Nn.
  pose proof (g_rnodup _ _ _ _ _ _ _ _ _ _ I) as Nr.
  unfold pre_ok. split; [assumption |]. split; [assumption |].
  destruct e; try exact Logic.I.
  destruct (chN w) as [| id rest] eqn:EN; [exact Logic.I |].
  destruct I.
  assert (HinP : In id P) by (rewrite g_P0; apply in_app_iff; right; left; reflexivity).
  split.
  - pose proof (wsim_nonneg _ _ _ g_watch0 g_wpos0) as K. intro E. rewrite E in K.
    unfold zlen in K. cbn [length] in K. lia.
  - rewrite g_last0. intro Hin. apply (chain_last_incl _ _ _ _ g_chain0) in Hin.
    apply in_app_iff in Hin. destruct Hin as [Hin | Hin].
    + eapply g_disj0; eassumption.
    + rewrite g_P0 in g_nodup0. apply NoDup_remove_2 in g_nodup0.
      apply g_nodup0. apply in_app_iff. left. exact Hin.
Qed.

(* ---- the statement over histories -------------------------------------------- *)
Fixpoint fresh_run (ports : list port) (w : world) (evs : list event) : Prop :=
  match evs with
  | [] => True
  | e :: r => pre_ok w e /\
              match step ports w e with
              | Some (w', _) => fresh_run ports w' r
              | None => True
              end
  end.

Definition ccids (evs : list event) : list Z :=
  flat_map (fun e => match e with ECC p _ ch n => [cc_id p ch n] | _ => [] end) evs.

Lemma G_run : forall U ports, (length U <= 32)%nat ->
  forall evs w pend tg tr fin,
  G U w pend tg -> Forall (ev_ok U) evs ->
  run ports w evs = (tr, fin) -> nocross_from pend tg evs tr = true ->
  fresh_run ports w evs.
Proof.
  intros U ports US. induction evs as [| e es IH]; intros w pend tg tr fin HG Hev Hr Hq; [exact Logic.I |].
  cbn [fresh_run]. split; [eapply G_pre; eassumption |].
  cbn [run] in Hr. destruct (step ports w e) as [[w' o] |] eqn:S; [| exact Logic.I].
  destruct (run ports w' es) as [tr' fin'] eqn:R. inversion Hr; subst tr fin; clear Hr.
  rewrite nocross_from_step in Hq.
  destruct (qstep pend tg e o) as [[p' tg'] |] eqn:Q; [| discriminate].
  inversion Hev; subst.
  destruct (G_step U US ports _ _ _ _ _ _ _ _ HG H1 S Q) as [_ HG'].
  eapply IH; eassumption.
Qed.

Lemma ev_ok_all : forall U evs, incl (ccids evs) U -> Forall (fun x => 0 <= x) (ccids evs) ->
  Forall (ev_ok U) evs.
Proof.
  induction evs as [| e es IH]; intros Hi Hp; [constructor |].
  destruct e; cbn [ccids flat_map app] in *;
    try (constructor; [exact Logic.I | apply IH; assumption]).
  inversion Hp; subst. constructor.
  - split; [apply Hi; left; reflexivity | assumption].
  - apply IH; [intros x Hx; apply Hi; right; exact Hx | assumption].
Qed.

(* the pending set along a nocross history is the one the records imply *)
Lemma GP_run : forall U ports, (length U <= 32)%nat ->
  forall evs w pend tg P tr w',
  GP U w pend tg P -> Forall (ev_ok U) evs ->
  run ports w evs = (tr, Some w') -> nocross_from pend tg evs tr = true ->
  exists pend' tg', GP U w' pend' tg' (pending_from P tg evs tr).
Proof.
  intros U ports US. induction evs as [| e es IH]; intros w pend tg P tr w2 HG Hev Hr Hq.
  - cbn [run] in Hr. inversion Hr; subst tr w2. exists pend, tg. exact HG.
  - cbn [run] in Hr. destruct (step ports w e) as [[w' o] |] eqn:S; [| discriminate].
    destruct (run ports w' es) as [tr' fin'] eqn:R. inversion Hr; subst tr fin'; clear Hr.
    rewrite nocross_from_step in Hq.
    destruct (qstep pend tg e o) as [[p' tg'] |] eqn:Q; [| discriminate].
    inversion Hev; subst.
    destruct (GP_step U US ports _ _ _ _ _ _ _ _ _ HG H1 S Q) as [_ HG'].
    rewrite (pending_from_step _ _ _ _ _ _ _ _ _ Q).
    eapply IH; eassumption.
Qed.

Lemma filter_len_le : forall {X} (f : X -> bool) (l : list X), (length (filter f l) <= length l)%nat.
Proof. induction l as [| x l IH]; cbn [filter length]; [lia |]. destruct (f x); cbn [length]; lia. Qed.

Lemma GP0 : forall U, GP U world0 0 [] [].
Proof.
  intro U. exists []. constructor; cbn; try apply pq_rep0; try constructor; try reflexivity; try lia; try tauto.
  intros x [].
Qed.

(* In a nocross history over at most 32 distinct controllers the realtime
   side's pending ring holds, oldest first, exactly the controllers the
   records imply (MidiSpec.pending_of - what the classifier of the run-time
   check computes): each once, and they are the controllers whose answering
   bind is on its way (A, at most one per message in the queue) followed by
   those whose midi-use-CC is on its way - the controllers "whose answer is
   outstanding".  The class bind-crosses-use-cc is: this fails for the
   controller concerned. *)
Theorem nocross_pending : forall ports evs tr w U,
  (length U <= 32)%nat -> incl (ccids evs) U -> Forall (fun x => 0 <= x) (ccids evs) ->
  run ports world0 evs = (tr, Some w) -> nocross evs tr = true ->
  pq_rep (pending (wr w)) (pending_of evs tr) /\ NoDup (pending_of evs tr) /\
  exists A, pending_of evs tr = A ++ chN w /\ (length A <= length (chR w))%nat.
Proof.
  intros ports evs tr w U US Hi Hp Hr Hq.
  destruct (GP_run U ports US evs world0 0 [] [] tr w (GP0 U) (ev_ok_all _ _ Hi Hp) Hr Hq)
    as [pend' [tg' [A I]]].
  fold (pending_of evs tr) in I. destruct I.
  split; [assumption |]. split; [assumption |].
  exists A. split; [assumption |].
  rewrite <- (chain_len _ _ _ _ g_chain0).
  pose proof (chain_count _ _ _ _ g_chain0) as C. unfold zlen, count_TBa in C.
  apply Nat2Z.inj in C. rewrite C. apply filter_len_le.
Qed.

(* In a nocross history over at most 32 distinct controllers: whenever a
   midi-use-CC <id> is delivered to the non-realtime side, an address is
   queued and id occurs in no entry of the current snapshot; no snapshot on
   either side ever holds a controller twice. *)
Theorem nocross_fresh : forall ports evs tr fin U,
  (length U <= 32)%nat -> incl (ccids evs) U -> Forall (fun x => 0 <= x) (ccids evs) ->
  run ports world0 evs = (tr, fin) -> nocross evs tr = true ->
  fresh_run ports world0 evs.
Proof.
  intros ports evs tr fin U US Hi Hp Hr Hq.
  eapply G_run; try eassumption.
  - apply G0.
  - apply ev_ok_all; assumption.
Qed.

(* the hypotheses are satisfiable by a history with two learns, a fine
   controller and an unMap *)
Lemma nocross_fresh_nonvacuous :
  exists ports evs tr fin U,
    (length U <= 32)%nat /\ incl (ccids evs) U /\ Forall (fun x => 0 <= x) (ccids evs) /\
    run ports world0 evs = (tr, Some fin) /\ nocross evs tr = true /\
    assigned_targets 5 tr = [(1, true)] /\ assigned_targets 6 tr = [(1, false)].
Proof.
  exists [ {| pint := true;  pmin := (0, 0);  pmax := (127, 0) |};
           {| pint := false; pmin := (0, 0);  pmax := (1, 0) |} ].
  exists [ EMap 1 true; EDelR; ECC 5 64 1 false; EDelN; EDelR; ECC 5 127 1 false;
           EMap 1 false; EDelR; ECC 6 3 1 false; EDelN; EDelR; ECC 6 5 1 false;
           EUnmap 1 true; EDelR; ECC 5 1 1 false ].
  eexists. eexists. exists [5; 6].
  split; [cbn; lia |].
  split; [vm_compute; intros x H; tauto |].
  split; [vm_compute; repeat constructor; discriminate |].
  split; [vm_compute; reflexivity |].
  vm_compute. repeat split; reflexivity.
Qed.
