(* C20 - computed histories around the side condition nocross (MidiSpec):
   what it admits beyond the earlier `quiescent`, and a crossing the code
   happens to survive (nocross is sufficient, not necessary). *)
From Coq Require Import List ZArith Bool.
From RtoscV Require Import Midi.MidiModel Midi.MidiSpec.
Import ListNotations.
Local Open Scope Z_scope.

Definition cross_ports : list port :=
  [ {| pint := true;  pmin := (0, 0);  pmax := (127, 0) |};
    {| pint := false; pmin := (0, 0);  pmax := (1, 0) |} ].

(* p1 is bound to controller 6; p0 is queued, controller 5 is offered and
   answered; while that answer is still on its way (5 is pending on the
   realtime side) unMap p1 sends its bind.  The bind does not cross the
   midi-use-CC: the answer is ahead of it in the queue. *)
Definition answered_pending_history : list event :=
  [ EMap 1 true; EDelR; ECC 6 3 1 false; EDelN; EDelR;
    EMap 0 true; EDelR; ECC 5 64 1 false; EDelN;
    EUnmap 1 true;
    EDelR; EDelR; ECC 5 65 1 false; ECC 6 4 1 false ].

Lemma nocross_wider_example :
  exists tr fin w9,
    run cross_ports world0 answered_pending_history = (tr, Some fin) /\
    nocross answered_pending_history tr = true /\
    tr = arun cross_ports astate0 answered_pending_history /\
    (* the bind of unMap is sent while controller 5 is pending *)
    snd (run cross_ports world0 (firstn 9 answered_pending_history)) = Some w9 /\
    psize (pending (wr w9)) = 1 /\
    pending_of (firstn 9 answered_pending_history) (firstn 9 tr) = [5] /\
    nth_error tr 9 = Some [OB] /\
    (* 5 drives p0, 6 drives nothing any more *)
    assigned_targets 5 tr = [(0, true)] /\
    option_map msgs_of (nth_error tr 12) = Some [ {| maddr := 0; mvalue := VInt 65 |} ] /\
    nth_error tr 13 = Some [].
Proof.
  eexists. eexists. eexists.
  split; [vm_compute; reflexivity |].
  split; [vm_compute; reflexivity |].
  split; [vm_compute; reflexivity |].
  split; [vm_compute; reflexivity |].
  vm_compute. repeat split; reflexivity.
Qed.

(* clear() between the two halves' messages: p0 is queued and watched,
   controller 5 uses the watch up, clear() runs before the non-realtime side
   has seen the midi-use-CC.  The bind of clear() crosses it (nocross = false).
   The midi-use-CC finds no address and is answered with the unchanged
   mapping, which releases 5; the remove-watch meets a watch count of 0.
   Afterwards p1 is learned by controller 6 as it should be.  (Before the D19
   fix it was the bind of clear() that happened to release 5.) *)
Definition clear_cross_history : list event :=
  [ EMap 0 true; EDelR; ECC 5 64 1 false; EClear; EDelN; EDelR; EDelR; EDelR;
    EMap 1 true; EDelR; ECC 6 1 1 false; EDelN; EDelR; ECC 6 127 1 false; ECC 5 3 1 false ].

Lemma clear_cross_survives :
  exists tr fin,
    run cross_ports world0 clear_cross_history = (tr, Some fin) /\
    nocross clear_cross_history tr = false /\
    tr = arun cross_ports astate0 clear_cross_history /\
    nth_error tr 4 = Some [OA 5 None; OB] /\
    watch (wr fin) = 0 /\ psize (pending (wr fin)) = 0 /\
    assigned_targets 6 tr = [(1, true)] /\
    option_map msgs_of (nth_error tr 13) = Some [ {| maddr := 1; mvalue := VFloat (bi_float {| bmin := (0, 0); bmax := (1, 0) |} (127 * 128)) |} ].
Proof.
  eexists. eexists.
  split; [vm_compute; reflexivity |].
  split; [vm_compute; reflexivity |].
  split; [vm_compute; reflexivity |].
  vm_compute. repeat split; reflexivity.
Qed.
