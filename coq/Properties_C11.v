(* C11 - The scanner accepts the documented text syntax and canonicalises it.
   Only the property theorems.  Sentences (Pretty/Grammar.v): words = (value,
   spelling, following white space); the modelled fragment has the spellings
   the printer can produce (any option record, any column - i.e. every way of
   splitting a string into concatenated pieces) for the values of
   PrettyProofs.good_val, separated by arbitrary non-empty white space
   (blanks, tabs, line breaks).  The widened grammar (Grammar.v: gtok, gword;
   theorems C11_grammar_...) adds alternative integer spellings - the suffix i,
   hexadecimal literals plain and with the suffixes i and h - decimal floating
   point literals without exact value, and comments between the words.  NxA, ranges and arrays as text forms: C10_mixed_reads_partial
   (Properties_C10.v).  Octal / zero-prefixed integers, exponent forms and a comment after the
   last word are tied to the code by the correspondence run and the Spec
   oracle only (notes/C11.md). *)
From Coq Require Import List ZArith.
From RtoscV Require Import Pretty.Tok Pretty.FloatFmt Pretty.FloatArith Pretty.FloatRangeProofs Pretty.PrintModel Pretty.ScanModel Pretty.FloatRangeWitness
  Pretty.Grammar Pretty.PrettyProofs Pretty.RunProofs Pretty.GrammarProofs Pretty.TimeNowProofs.
Import ListNotations.
Local Open Scope Z_scope.

(* checker count = number of values the scanner writes = length of the
   sentence; the whole text is consumed; the values are the denotation *)
Theorem C11_agree_denotes_partial : forall (dec2f dec2d : list Z -> Z) s T,
  Forall wf_word s -> spell s = Some T ->
  count_printed_arg_vals dec2f dec2d T = Ok (true, Z.of_nat (length s)) /\
  scan_arg_vals dec2f dec2d T (Z.of_nat (length s)) = Ok (denote s, []).
Proof. exact sentences_agree. Qed.

(* the two recognisers take the same branch on every token of the fragment:
   one statement about both (the simulation lemma), whatever follows *)
Theorem C11_simulation_partial : forall (dec2f dec2d : list Z -> Z) o v cols t w c,
  good_val v -> print_scalar o v cols = Some (t, w, c) ->
  forall rest, rest_ok rest ->
    (forall f ll fe ib, skip_next dec2f dec2d (S f) (t ++ rest) ll fe ib = Ok (rest, 1, av_type v)) /\
    (forall f before nb fe, scan_arg_val dec2f dec2d (S f) (t ++ rest) before nb fe = Ok ([v], rest)).
Proof. exact (fun a b o v cols t w c Hg Hp => proj1 (proj1 (scalar_tok a b o v cols t w c Hg Hp))). Qed.

(* sentences that differ only in white space (and in where strings are split) *)
Theorem C11_ws_invariant_partial : forall (dec2f dec2d : list Z -> Z) s1 s2 T1 T2,
  Forall wf_word s1 -> Forall wf_word s2 -> denote s1 = denote s2 ->
  spell s1 = Some T1 -> spell s2 = Some T2 ->
  scan_arg_vals dec2f dec2d T1 (Z.of_nat (length s1)) =
  scan_arg_vals dec2f dec2d T2 (Z.of_nat (length s2)).
Proof. exact sentences_ws_invariant. Qed.

(* printing the scanned values (any options) and scanning again *)
Theorem C11_reprint_partial : forall (dec2f dec2d : list Z -> Z) s T o T' w,
  compress o = false ->
  Forall wf_word s -> spell s = Some T ->
  print_arg_vals o (denote s) 0 = Some (T', w) ->
  scan_arg_vals dec2f dec2d T' (Z.of_nat (length s)) = scan_arg_vals dec2f dec2d T (Z.of_nat (length s)).
Proof. exact sentences_reprint. Qed.

(* NxA repetitions: sentences whose elements are values or "NxV" *)
Theorem C11_repetitions_agree_partial : forall (dec2f dec2d : list Z -> Z) n v t,
  1 <= n < 2 ^ 31 -> tokof dec2f dec2d v t ->
  elof dec2f dec2d [VRep n 0; v] (dec_nat n ++ 120 :: t).
Proof. exact elof_rep. Qed.

Theorem C11_elements_agree_partial : forall (dec2f dec2d : list Z -> Z) els T,
  elang dec2f dec2d els T ->
  count_printed_arg_vals dec2f dec2d T = Ok (true, total_slots els) /\
  scan_arg_vals dec2f dec2d T (total_slots els) = Ok (concat els, []).
Proof. exact elements_agree. Qed.

Theorem C11_elements_nonvacuous : forall (dec2f dec2d : list Z -> Z),
  elang dec2f dec2d [[VRep 5 0; VI 7]; [VT]] (dec_nat 5 ++ 120 :: print_d 7 ++ [32] ++ kw_true).
Proof. exact ex_elements. Qed.

Theorem C11_nonvacuous :
  Forall wf_word ex_sentence /\ exists T, spell ex_sentence = Some T.
Proof. exact ex_sentence_wf. Qed.

(* THE WIDENED GRAMMAR.  A word is a token - a value in the printer's spelling
   (GPrinted: decimal integers, "12h", characters with their escapes, true false
   nil inf, strings, ...), a decimal integer with the suffix i (GDecI), or a
   hexadecimal literal given by its digits, plain or with the suffix i or h
   (GHex; its value is positional, a 32-bit literal above 0x7fffffff denotes the
   negative number of that bit pattern), or a decimal floating point literal
   "[-]digits.digits" without exact value, plain or with the suffix f or d
   (GFlt; its value is what libc gives the literal: the oracles dec2f / dec2d) -
   followed by non-empty white space and
   any number of comments ("%" ... line break, each followed by more white space).
   For every well-formed sentence the checker accepts with the number of words,
   the scanner writes the denotation and consumes the whole text. *)
Theorem C11_grammar_agree_denotes_partial : forall (dec2f dec2d : list Z -> Z) s T,
  Forall wf_gword s -> gspell s = Some T ->
  count_printed_arg_vals dec2f dec2d T = Ok (true, Z.of_nat (length s)) /\
  scan_arg_vals dec2f dec2d T (Z.of_nat (length s)) = Ok (gdenote dec2f dec2d s, []).
Proof. exact gsentences_agree. Qed.

(* every token of the widened grammar is read alike by both recognisers,
   whatever follows (end, white space, a bracket) *)
Theorem C11_grammar_simulation_partial : forall (dec2f dec2d : list Z -> Z) g t,
  wf_gtok g -> gtok_text g = Some t ->
  forall rest, rest_ok rest ->
    (forall f ll fe ib, skip_next dec2f dec2d (S f) (t ++ rest) ll fe ib = Ok (rest, 1, av_type (gtok_val dec2f dec2d g))) /\
    (forall f before nb fe, scan_arg_val dec2f dec2d (S f) (t ++ rest) before nb fe = Ok ([gtok_val dec2f dec2d g], rest)).
Proof. exact (fun a b g t Hw Ht => proj1 (gtok_tokof a b g t Hw Ht)). Qed.

(* texts that differ only in white space and comments scan to equal values *)
Theorem C11_grammar_ws_invariant_partial : forall (dec2f dec2d : list Z -> Z) s1 s2 T1 T2,
  Forall wf_gword s1 -> Forall wf_gword s2 -> gdenote dec2f dec2d s1 = gdenote dec2f dec2d s2 ->
  gspell s1 = Some T1 -> gspell s2 = Some T2 ->
  scan_arg_vals dec2f dec2d T1 (Z.of_nat (length s1)) = scan_arg_vals dec2f dec2d T2 (Z.of_nat (length s2)).
Proof. exact gsentences_ws_invariant. Qed.

(* non-vacuity: "0x1fi % a" line break "-12i" tab "0xffffffff" line break "-0.25f true" denotes 31 -12 -1
   the float of "-0.25" true *)
Theorem C11_grammar_nonvacuous : forall (dec2f dec2d : list Z -> Z),
  Forall wf_gword ex_gsentence /\
  gspell ex_gsentence = Some [48; 120; 49; 102; 105; 32; 37; 32; 97; 10; 45; 49; 50; 105; 9;
                              48; 120; 102; 102; 102; 102; 102; 102; 102; 102; 10;
                              45; 48; 46; 50; 53; 102; 32; 116; 114; 117; 101] /\
  gdenote dec2f dec2d ex_gsentence = [VI 31; VI (-12); VI (-1); VFl (dec2f [45; 48; 46; 50; 53]); VT].
Proof. exact ex_gsentence_wf. Qed.

(* stage 8: ranges over booleans, floats and doubles.  The float arithmetic of the recognisers
   (FloatArith.v: exact integer arithmetic + one rounding to nearest-even) leaves every other type
   to the integer / boolean arithmetic of Tok.v *)
Theorem C11_range_arith_conservative : forall l lhs r u dl st j,
  (is_flt lhs = false -> delta_x l lhs r u = delta_from_arg_vals l lhs r u) /\
  (is_flt dl = false -> range_arg_x dl st j = range_arg dl st j).
Proof. exact (fun l lhs r u dl st j => conj (delta_x_conservative l lhs r u) (range_arg_x_conservative dl st j)). Qed.

(* 2.5f - 1.5f = 1.0f, 0.2f - 0.1f = 0.1f, (0.5f - 0.1f) / 0.1f = 4.0f, (int)3.75f = 3,
   1.0 / 3.0 = 0x3fd5555555555555, (float)16777217 = 16777216.0f *)
Theorem C11_float_arith_examples :
  fl_sub 23 8 1075838976 1069547520 = Some 1065353216 /\
  fl_sub 23 8 1045220557 1036831949 = Some 1036831949 /\
  fl_div 23 8 1053609165 1036831949 = Some 1082130432 /\
  fl_trunc 23 8 1081081856 = Some 3 /\
  fl_div 52 11 4607182418800017408 4613937818241073152 = Some 4599676419421066581 /\
  fl_of_int 23 8 16777217 = 1266679808.
Proof. exact fl_examples. Qed.

(* "[true false ...]" is a:F:4 true R:0:1 true false; "[1.5 2.5 ...]" (hexadecimal literals) is
   a:f:4 1.5 R:0:1 1.0 2.5; "0.5 1.0 ... 2.5" is 0.5 R:4:1 0.5 1.0; in "0.5 1.0 ... 2.0 3.0 ... 5.0" the
   second range takes the last value of the first for its left neighbour; "nil 3.0d ... 0.5d" is rejected *)
Theorem C11_typed_range_examples : forall (dec2f dec2d : list Z -> Z),
  (count_printed_arg_vals dec2f dec2d ex_bool_open = Ok (true, 5) /\
   scan_arg_vals dec2f dec2d ex_bool_open 5 = Ok ([VArr 70 4; VT; VRep 0 1; VT; VF], [])) /\
  (count_printed_arg_vals dec2f dec2d ex_float_open = Ok (true, 5) /\
   scan_arg_vals dec2f dec2d ex_float_open 5
   = Ok ([VArr 102 4; VFl 1069547520; VRep 0 1; VFl 1065353216; VFl 1075838976], [])) /\
  (count_printed_arg_vals dec2f dec2d ex_float_fin = Ok (true, 4) /\
   scan_arg_vals dec2f dec2d ex_float_fin 4 = Ok ([VFl 1056964608; VRep 4 1; VFl 1056964608; VFl 1065353216], [])) /\
  (count_printed_arg_vals dec2f dec2d ex_float_two = Ok (true, 7) /\
   scan_arg_vals dec2f dec2d ex_float_two 7
   = Ok ([VFl 1056964608; VRep 3 1; VFl 1056964608; VFl 1065353216; VRep 3 1; VFl 1065353216; VFl 1077936128], [])) /\
  count_printed_arg_vals dec2f dec2d ex_double_unit = Ok (false, 2).
Proof. exact typed_range_examples. Qed.


(* finding float-range-inexact-step: "0.1 0.2 ... 0.5" (exact values spelt out)
   scanned, printed by the real printer (fri_reprint, the P2 field of the
   corpus line corpus/C11/float-range-inexact.txt) and scanned again gives other
   values: the element 0.4 is 0x3ecccccd in the first scan and 0x3ecccccd + 1 ulp
   in the second (start shifted by one element, step re-derived as 0.3 - 0.2).
   C11_reprint_partial excludes it with compress o = false. *)
Theorem C11_float_range_inexact_refuted :
  scan_arg_vals fri_no_oracle fri_no_oracle fri_text 4 = Ok (fri_first, []) /\
  scan_arg_vals fri_no_oracle fri_no_oracle fri_reprint 4 = Ok (fri_second, []) /\
  range_arg_x (VFl 1036831949) (VFl 1045220557) 2 = Some (VFl 1053609165) /\
  range_arg_x (VFl 1036831950) (VFl 1050253722) 1 = Some (VFl 1053609166).
Proof. exact float_range_inexact. Qed.

(* the alternative spelling "now" of a time tag: checker and scanner read it, in
   any sentence of tokens, as the time tag 1, which the printer writes in the
   canonical spelling "immediately" (and reads back: C10_timetag_tokof_immediately) *)
Theorem C11_now_is_immediately : forall (dec2f dec2d : list Z -> Z) o,
  tokof dec2f dec2d (VTm 1) kw_now /\ print_timetag o 1 = kw_immediately.
Proof. exact (fun a b o => conj (now_tokof a b) (now_canonical o)). Qed.
