(* C18 - Path utilities: '..' collapsing, lookup by address, child search.
   Only the property theorems, each closed by [exact]; models in
   Ports/PathModel.v, Ports/NameModel.v, proofs in Ports/PathProofs.v. *)
From Coq Require Import List ZArith.
From RtoscV Require Import Ports.NameModel Ports.PathModel Ports.PathProofs.
Import ListNotations.
Local Open Scope Z_scope.

(* Collapsing an absolute path (any number of components of any length, empty
   ones included): the backward in-place pass returns a position inside the
   same buffer; the string there is the path with every '..' cancelled against
   the nearest preceding ordinary component, surplus '..' at the root dropped,
   all other components unchanged and in order (the forward stack machine);
   nothing before that position was written, the buffer keeps its length and
   no access leaves it. *)
Theorem C18_collapse : forall p cs,
  components p = Some cs ->
  exists b' pos,
    collapse p = COk b' pos /\
    skipn pos b' = flat (stack_spec cs) /\
    (pos <= length p)%nat /\ length b' = length p /\
    firstn pos b' = firstn pos p.
Proof. exact collapse_is_stack_spec. Qed.

(* every absolute path is covered, and its components spell it *)
Theorem C18_collapse_all_absolute : forall p,
  hd 0 p = 47 -> exists cs, components p = Some cs /\ flat cs = p.
Proof.
  exact (fun p H => match absolute_components p H with
                    | ex_intro _ cs Hc => ex_intro _ cs (conj Hc (proj1 (components_flat p cs Hc)))
                    end).
Qed.

Theorem C18_collapse_nonvacuous :
  components [47;97;47;98;47;46;46;47] = Some [[97];[98];[46;46];[]] /\
  collapse_str [47;97;47;98;47;46;46;47] = Some (5%nat, [47;97;47]).
Proof. exact (conj components_ex collapse_ex3). Qed.
