(* C18 - Path utilities: '..' collapsing, lookup by address, child search.
   Only the property theorems, each closed by [exact]; models in
   Ports/PathModel.v, Ports/NameModel.v, proofs in Ports/PathProofs.v. *)
From Coq Require Import List ZArith Bool.
From Coq Require Import Permutation Sorting.Sorted.
From RtoscV Require Import Match.PatSpec Match.MatchModel Osc.OscModel Osc.OscReadProofs Ports.MetaModel Ports.NameModel Ports.PathModel
                           Ports.PathProofs Ports.SearchProofs Ports.PathRegress Ports.WalkModel Ports.WalkProofs Ports.LookupProofs
                           Ports.EnumProofs Ports.DispatchWalk Ports.LookupGen Ports.NamesModel Ports.NamesOk
                           Ports.LookupSpec Ports.LookupSpecProofs Ports.LookupAddr.
Import ListNotations.
Local Open Scope Z_scope.

(* Collapsing an absolute path (any number of components of any length, empty
   ones included): the backward in-place pass returns a position inside the
   same buffer; the string there is the path with every '..' cancelled against
   the nearest preceding ordinary component, surplus '..' at the root dropped,
   all other components unchanged and in order (the forward stack machine);
   nothing before that position was written, the buffer keeps its length and
   no access leaves it. *)
Theorem C18_collapse : forall p cs,
  components p = Some cs ->
  exists b' pos,
    collapse p = COk b' pos /\
    skipn pos b' = flat (stack_spec cs) /\
    (pos <= length p)%nat /\ length b' = length p /\
    firstn pos b' = firstn pos p.
Proof. exact collapse_is_stack_spec. Qed.

(* every absolute path is covered, and its components spell it *)
Theorem C18_collapse_all_absolute : forall p,
  hd 0 p = 47 -> exists cs, components p = Some cs /\ flat cs = p.
Proof.
  exact (fun p H => match absolute_components p H with
                    | ex_intro _ cs Hc => ex_intro _ cs (conj Hc (proj1 (components_flat p cs Hc)))
                    end).
Qed.

Theorem C18_collapse_nonvacuous :
  components [47;97;47;98;47;46;46;47] = Some [[97];[98];[46;46];[]] /\
  collapse_str [47;97;47;98;47;46;46;47] = Some (5%nat, [47;97;47]).
Proof. exact (conj components_ex collapse_ex3). Qed.

(* ---- child search ---------------------------------------------------------- *)
(* [addressed root loc = AdOk ch]: ch are the ports the location addresses (the
   root table for "" and "/", the children of the port apropos finds, or that
   port itself if it has none; C18_search_addressed below ties this to the
   Spec's own reading of an address); metadata blocks in the macro layout (C17) or
   absent.  Option unmodified: exactly the children whose names start with the
   needle, each paired with its metadata bytes, in table order. *)
Theorem C18_search_unmodified : forall root loc needle ch,
  addressed root loc = AdOk ch ->
  Forall (fun p => meta_wf (pmeta p)) ch ->
  path_search root loc needle Unmodified = SOk (map hit_of (spec_children needle ch)).
Proof. exact search_unmodified. Qed.

(* Option sorted: the same hits (duplicates kept), in string order. *)
Theorem C18_search_sorted : forall root loc needle ch,
  addressed root loc = AdOk ch ->
  Forall (fun p => meta_wf (pmeta p)) ch ->
  exists r, path_search root loc needle Sorted = SOk r /\
            Permutation r (map hit_of (spec_children needle ch)) /\
            StronglySorted hit_le r.
Proof. exact search_sorted. Qed.

(* Option sorted_and_unique_prefix: the hits whose name does not lie below a
   'name/' entry of the list (equivalently: of the returned list), duplicates
   kept, in string order.  Port names are non-empty. *)
Theorem C18_search_unique_prefix : forall root loc needle ch,
  addressed root loc = AdOk ch ->
  Forall (fun p => meta_wf (pmeta p)) ch ->
  Forall (fun p => pname p <> []) ch ->
  let found := spec_children needle ch in
  exists r, path_search root loc needle SortedUniquePrefix = SOk r /\
            Permutation r (map hit_of (spec_unique (map pname found) found)) /\
            StronglySorted hit_le r.
Proof. exact search_unique. Qed.

(* The reply of the message overload is the OSC 1.0 encoding (C01) of "/paths"
   with the type string (ss) sb sb ... and the found (name, metadata) pairs -
   a well-formed message in the sense of C01 (msg_wf: its length, type string,
   argument count and every argument read back exactly, C01_length_roundtrip /
   C01_iter / C01_decode_by_index) - or 0 and a zeroed buffer if it does not
   fit. *)
Theorem C18_reply_wellformed : forall root loc needle opt (rwq : bool) ch,
  addressed root loc = AdOk ch ->
  Forall port_ok ch -> Forall (fun p => pname p <> []) ch ->
  Forall (fun c => c <> 0) loc -> Forall (fun c => c <> 0) needle ->
  exists es,
    path_search root loc needle opt = SOk es /\ Forall hit_ok es /\
    let tags := (if rwq then [115; 115] else []) ++ reply_tags es in
    let args := (if rwq then [PStr loc; PStr needle] else []) ++ reply_args es in
    let enc := enc_spec paths_addr tags args in
    msg_wf paths_addr tags args /\
    forall buf,
      path_search_msg root loc needle opt rwq buf =
      if zlen buf <? zlen enc then ROk 0 (zeros (zlen buf))
      else ROk (zlen enc) (enc ++ skipn (length enc) buf).
Proof. exact search_reply. Qed.

(* regression witnesses: the code before the two "fix:" commits *)
Theorem C18_search_length_pinned_refuted :
  exists p, meta_wf (pmeta p) /\
    collect_one_pinned [] p <> Some [hit_of p] /\
    collect_one_pinned [] p =
      Some [{| e_name := Some (pname p); e_data := pmeta p;
               e_len := 1 + Z.of_nat (length d16_meta) |}] /\
    collect_one [] p = Some [hit_of p].
Proof. exact search_length_pinned_refuted. Qed.

Theorem C18_apropos_subtree_pinned_refuted :
  apropos_pinned d23_tree d23_addr = ANull /\
  apropos d23_tree d23_addr = AFound [0%nat; 0%nat] /\
  path_search d23_tree d23_addr [] Unmodified =
    SOk [{| e_name := Some [101]; e_data := None; e_len := 0 |}].
Proof. exact apropos_subtree_pinned_refuted. Qed.

(* the hypotheses of the search theorems are satisfiable: the header's own
   example "a/", "a/b", "a/" (plus "b") *)
Theorem C18_search_nonvacuous :
  addressed ex_table [] = AdOk ex_table /\
  Forall port_ok ex_table /\ Forall (fun p => pname p <> []) ex_table /\
  path_search ex_table [] [] Sorted =
    SOk (map hit_of [Port [97;47] None None; Port [97;47] None None;
                     Port [97;47;98] (Some [58;100;0;0]) None; Port [98] None None]) /\
  path_search ex_table [] [] SortedUniquePrefix =
    SOk (map hit_of [Port [97;47] None None; Port [97;47] None None; Port [98] None None]).
Proof. exact ex_search. Qed.

(* ---- which port a location addresses -------------------------------------------
   The search theorems above speak about [addressed root loc], which the model
   computes with its own apropos.  Independently of apropos:
   [addresses root id a] (coq/Ports/LookupSpec.v) - the relative address a names
   the port at index path id by structural descent: at every level the name of
   the port on the path, read as a C05 pattern (PatSpec.spells: literal text
   verbatim, at every '#N' a decimal index below N), spells the next part of
   a, and a ends with the name of the port itself (a sub-tree port: with its
   '/').  For trees with names_ok, apropos returns exactly that port - leaf or
   sub-tree, at any depth - and the table path_search looks at is its children
   (the port itself if it has none). *)
Theorem C18_addressed_port : forall root id a,
  names_ok root = true -> addr_ok a -> addresses root id a ->
  apropos (map render_port root) (47 :: a) = AFound id.
Proof. exact apropos_addresses. Qed.

Theorem C18_search_addressed : forall root id a q,
  names_ok root = true -> addr_ok a -> addresses root id a -> sport_at root id = Some q ->
  addressed (map render_port root) (47 :: a) = AdOk (children_of q).
Proof. exact addressed_is_spec. Qed.

(* composed with C18_search_unmodified: a search at the address of a port returns
   exactly the direct children of that port whose names start with the needle
   (C18_search_sorted / _unique_prefix / C18_reply_wellformed compose the same way) *)
Theorem C18_search_at_address : forall root id a q needle,
  names_ok root = true -> addr_ok a -> addresses root id a -> sport_at root id = Some q ->
  Forall (fun p => meta_wf (pmeta p)) (children_of q) ->
  path_search (map render_port root) (47 :: a) needle Unmodified =
    SOk (map hit_of (spec_children needle (children_of q))).
Proof. exact search_at_address. Qed.

(* a table that is neither the root nor a single child:
   "s/" -> { "osc#3/" -> { "vol" (doc), "qan:i", "pb/" -> { "l" }, "pa" }, "x" }, "t";
   "s/osc1/" (and "s/osc01/") names the port [0;0] with its four children *)
Theorem C18_search_addressed_nonvacuous :
  names_ok ex_nested = true /\
  addresses ex_nested [0%nat; 0%nat] [115; 47; 111; 115; 99; 49; 47] /\
  (exists q, sport_at ex_nested [0%nat; 0%nat] = Some q /\ length (children_of q) = 4%nat) /\
  path_search (map render_port ex_nested) [47; 115; 47; 111; 115; 99; 49; 47] [] Unmodified =
    SOk [{| e_name := Some [118; 111; 108]; e_data := Some [58; 100; 111; 99; 0; 61; 118; 0; 0]; e_len := 9 |};
         {| e_name := Some [113; 97; 110; 58; 105]; e_data := None; e_len := 0 |};
         {| e_name := Some [112; 98; 47]; e_data := None; e_len := 0 |};
         {| e_name := Some [112; 97]; e_data := None; e_len := 0 |}] /\
  path_search (map render_port ex_nested) [47; 115; 47; 111; 115; 99; 49; 47] [112] Sorted =
    SOk [{| e_name := Some [112; 97]; e_data := None; e_len := 0 |};
         {| e_name := Some [112; 98; 47]; e_data := None; e_len := 0 |}] /\
  addresses ex_nested [0%nat; 0%nat] [115; 47; 111; 115; 99; 48; 49; 47].
Proof. exact ex_nested_addressed. Qed.

(* ---- lookup of walked addresses ----------------------------------------------
   The clause of the property text:
     forall root (names of the documented shape), no concrete name of a port is a
       prefix of a concrete name of a sibling ->
       forall id a, In (id, a) (walk root) -> apropos root a = AFound id.
   It is FALSE of the faithful model and of the code (C18_lookup_refuted, replayed
   on the real apropos: corpus/C18/defects.txt; finding class
   lookup-leading-zero-alias): an enumeration accepts indices with leading zeros
   (C05), so "/a01b" - which the walk reports for the port "a01b" - is also an
   address of its sibling "a#4b", and apropos returns the first port that
   matches.  What is proved is the clause with the side condition
   no_digit_facing (C18_lookup_partial): reading two sibling names in step, a
   '#N' never meets a literal digit.  All four hypotheses are decidable
   (coq/Ports/LookupSpec.v) and evaluated on every generated tree by the tie. *)
Theorem C18_lookup_example : lookup_all (map render_port ex_numeric_s) = true.
Proof. exact lookup_example. Qed.

(* the text's proviso holds for { "a#4b", "a01b" } (shape, every enumeration
   non-empty, no concrete name a prefix of a sibling's); the walk reports
   (port 1, "/a01b"); apropos returns port 0 *)
Theorem C18_lookup_refuted :
  names_shape alias_stree = true /\ enums_pos alias_stree = true /\ sibling_prefix_free alias_stree = true /\
  no_digit_facing alias_stree = false /\
  exists out b, walk None (map render_port alias_stree) [] = WOk out b /\
    In ([1%nat], [47; 97; 48; 49; 98]) out /\
    apropos (map render_port alias_stree) [47; 97; 48; 49; 98] = AFound [0%nat].
Proof. exact lookup_text_refuted. Qed.

(* Every (port, address) the walk reports is found by apropos - any depth, '#N'
   at any level, leaf names with several '#', literal digits - for trees that
   satisfy what the text asks:
     names_shape          names of the documented shape (leaf: literal text and
                          '#N', not starting or ending with '/', optional ':...';
                          sub-tree: one or more components "text/" / "text#N/";
                          7-bit literal text without : { * #, the text behind a
                          '#N' does not begin with a digit),
     enums_pos            every enumeration has at least one index (1 <= N),
     sibling_prefix_free  no concrete name of a port (every '#N' expanded) is a
                          prefix of a concrete name of a sibling  [the proviso
                          of the property text],
   and the SIDE CONDITION
     no_digit_facing      reading two sibling names in step (literal characters
                          agree, '#N' against '#M' goes on behind both), a '#N'
                          never meets a literal digit
   - the complement of the finding class lookup-leading-zero-alias.  No hypothesis
   about type strings (apropos does not look at them). *)
Theorem C18_lookup_partial : forall root id a,
  names_shape root = true -> enums_pos root = true -> sibling_prefix_free root = true ->
  no_digit_facing root = true ->
  forall out b, walk None (map render_port root) [] = WOk out b ->
  In (id, a) out ->
  apropos (map render_port root) a = AFound id.
Proof. exact walk_lookup_text. Qed.

(* non-vacuity, with literal digits: { "osc1a", "osc2a", "v2#3/x7:i", "p10/q/" -> { "b2", "c" } }
   satisfies the four hypotheses and its walked addresses are found; { "a1", "a12" } is rejected
   (a prefix) *)
Theorem C18_lookup_partial_nonvacuous :
  names_shape ex_digits = true /\ enums_pos ex_digits = true /\ sibling_prefix_free ex_digits = true /\
  no_digit_facing ex_digits = true.
Proof. exact lookup_text_nonvacuous. Qed.

(* the same statement over NamesModel.names_ok (the hypothesis C09 uses; it also
   admits '#0'), and what names_ok is: the shape, the text's proviso read on the
   keys ('#N' as one token), and the side condition *)
Theorem C18_lookup_names_ok_partial : forall root id a,
  names_ok root = true ->
  forall out b, walk None (map render_port root) [] = WOk out b ->
  In (id, a) out ->
  apropos (map render_port root) a = AFound id.
Proof. exact walk_lookup_names. Qed.

Theorem C18_names_ok_is : forall root,
  names_ok root = names_shape root && key_prefix_free root && no_digit_facing root.
Proof. exact names_ok_split. Qed.

Theorem C18_text_proviso_gives_keys : forall root,
  enums_pos root = true -> sibling_prefix_free root = true -> key_prefix_free root = true.
Proof. exact text_proviso_keys. Qed.

Theorem C18_lookup_digits_nonvacuous :
  names_ok ex_digits = true /\
  names_ok [SPort [Lit [97; 49]] [] None None; SPort [Lit [97; 49; 50]] [] None None] = false /\
  (exists out b, walk None (map render_port ex_digits) [] = WOk out b /\ length out = 7%nat /\
                 In ([2%nat], [47; 118; 50; 50; 47; 120; 55]) out /\
                 In ([3%nat; 0%nat], [47; 112; 49; 48; 47; 113; 47; 98; 50]) out) /\
  apropos (map render_port ex_digits) [47; 118; 50; 50; 47; 120; 55] = AFound [2%nat] /\
  apropos (map render_port ex_digits) [47; 112; 49; 48; 47; 113; 47; 98; 50] = AFound [3%nat; 0%nat].
Proof. exact ex_digits_ok. Qed.

(* the semantic form: names of the documented shape ([lok]) and [lookup_disjoint]:
   a path one port of a table matches is not answered by another, where a port
   answers a path if its name matches it as a pattern or the path is a prefix
   of the raw name (the two tests apropos makes) *)
Theorem C18_lookup_semantic_partial : forall root id a ty,
  Forall sport_wf root -> Forall lok root -> lookup_disjoint root ->
  forall out b, walk None (map render_port root) [] = WOk out b ->
  In (id, a) out -> leaf_admits root id ty ->
  apropos (map render_port root) a = AFound id.
Proof. exact walk_lookup. Qed.

Theorem C18_lookup_nonvacuous : Forall lok ex_d /\ lookup_disjoint ex_d /\
  apropos (map render_port ex_d) [47; 97; 49; 49; 47; 99; 49; 47; 120] = AFound [0%nat; 0%nat].
Proof. exact ex_d_lok. Qed.

(* observation, outside the quantifier (names are non-empty): an empty port name
   makes the unique-prefix pass read one byte before the name *)
Theorem C18_empty_name_observation :
  path_search [Port [] None None; Port [98] None None] [] [] SortedUniquePrefix = SOob /\
  path_search [Port [] None None; Port [98] None None] [] [] Sorted =
    SOk [{| e_name := Some []; e_data := None; e_len := 0 |}; {| e_name := Some [98]; e_data := None; e_len := 0 |}].
Proof. exact empty_name_reads_before. Qed.
