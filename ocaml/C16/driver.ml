(* C16 model driver: same case lines and output as harness/h_C16.cpp
   (the list syntax is documented there).  OOB = the model read outside a
   list / a union member the tag does not select / ran out of fuel. *)
let z_of_hex (h:string) : z =
  let acc = ref Z0 in
  String.iter (fun ch ->
    let d = int_of_string ("0x" ^ String.make 1 ch) in
    acc := Z.add (Z.mul !acc (z_of_int 16)) (z_of_int d)) h;
  !acc
let two32 = z_of_string "4294967296"
let hex_of_z (w:int) (x:z) : string =       (* w = 8 or 16 hex digits, x >= 0 *)
  if w <= 8 then Printf.sprintf "%08x" (int_of_z x)
  else Printf.sprintf "%08x%08x" (int_of_z (Z.div x two32)) (int_of_z (Z.modulo x two32))

exception Bad
let parse_slot (tok:string) : slot =
  match String.split_on_char ':' tok with
  | ["T"] -> SV (z_of_int 84, VNone) | ["F"] -> SV (z_of_int 70, VNone)
  | ["N"] -> SV (z_of_int 78, VNone) | ["I"] -> SV (z_of_int 73, VNone)
  | [("i"|"c"|"r") as t; v] -> SV (z_of_int (Char.code t.[0]), VI (z_of_string v))
  | ["h"; v] -> SV (z_of_int 104, VH (z_of_string v))
  | ["t"; v] -> SV (z_of_int 116, VT (z_of_string v))
  | ["f"; v] -> SV (z_of_int 102, VF (z_of_hex v))
  | ["d"; v] -> SV (z_of_int 100, VD (z_of_hex v))
  | ["m"; v] -> SV (z_of_int 109, VM (bytes_of_hex v))
  | [("s"|"S") as t; v] ->
      SV (z_of_int (Char.code t.[0]), VS (if v = "N" then None else Some (bytes_of_hex v)))
  | ["b"; v] -> let d = bytes_of_hex v in SV (z_of_int 98, VB (z_of_int (List.length d), d))
  | ["a"; t; l] -> SArr (z_of_string t, z_of_string l)
  | ["R"; n; d] -> SRep (z_of_string n, z_of_string d)
  | _ -> raise Bad
let parse_list (s:string) : slot list =
  if s = "-" then [] else List.map parse_slot (String.split_on_char ',' s)

let sgn = function None -> "X" | Some Z0 -> "0" | Some (Zpos _) -> "+" | Some (Zneg _) -> "-"
let b01 = function None -> "X" | Some true -> "1" | Some false -> "0"
let zlen l = z_of_int (List.length l)
let msgbuf = List.init 1024 (fun _ -> z_of_int 170)   (* the harness's destination: 1024 bytes of 0xaa *)
let cmp a b = m_cmp a b (zlen a) (zlen b)
let eq a b = m_eq a b (zlen a) (zlen b)

let rec show_val (v:value) : string =
  match v with
  | Val (t, sv) ->
    let c = Char.chr (int_of_z t) in
    (match sv with
     | VNone -> String.make 1 c
     | VI x | VH x | VT x -> Printf.sprintf "%c:%s" c (z_to_string x)
     | VF x -> "f:" ^ hex_of_z 8 x
     | VD x -> "d:" ^ hex_of_z 16 x
     | VM m -> "m:" ^ hex_of_bytes m
     | VS None -> Printf.sprintf "%c:N" c
     | VS (Some s) -> Printf.sprintf "%c:%s" c (hex_of_bytes s)
     | VB (_, d) -> "b:" ^ hex_of_bytes d)
  | Arr (t, es) -> Printf.sprintf "a:%d[%s]" (int_of_z t) (show_vals ';' es)
and show_vals sep vs =
  if vs = [] then "-" else String.concat (String.make 1 sep) (List.map show_val vs)

let real_fields l = (* drop the trailing oracle fields *)
  let rec go = function [] -> [] | x :: r -> if x = "" || x.[0] = '#' then [] else x :: go r in go l

let () = each_line (fun line ->
  try
    match String.split_on_char ' ' line with
    | "laws" :: rest when rest <> [] ->
      let ls = List.map parse_list (real_fields rest) in
      let c = Buffer.create 16 and e = Buffer.create 16 in
      List.iter (fun x -> List.iter (fun y ->
        Buffer.add_string c (sgn (cmp x y)); Buffer.add_string e (b01 (eq x y))) ls) ls;
      print_endline ("cmp=" ^ Buffer.contents c ^ " eq=" ^ Buffer.contents e)
    | "comp" :: addr :: b :: rest when rest <> [] ->
      let addr = bytes_of_hex addr and b = parse_list b in
      let vs = List.map parse_list (real_fields rest) in
      let v0 = List.hd vs in
      let one v =
        let it = m_iterate v (zlen v) in
        let rec has_null = function
          | [] -> false | Val (_, VS None) :: _ -> true | _ :: r -> has_null r in
        let msg = match it with
          | Some l when has_null l -> "ERR"
          | _ when v = [] -> "-"
          | _ -> (match m_avmessage (Some msgbuf) addr v (zlen v) with
                  | Some (n, Some b) when int_of_z n > 0 ->
                    let k = int_of_z n in
                    let tail_ok = List.for_all (fun x -> int_of_z x = 170) (List.filteri (fun i _ -> i >= k) b) in
                    hex_of_bytes (List.filteri (fun i _ -> i < k) b) ^ (if tail_ok then "" else "TAIL")
                  | _ -> "ERR") in
        Printf.sprintf "e%s%sc%s%ss%s%s it=%s msg=%s"
          (b01 (eq v b)) (b01 (eq b v)) (sgn (cmp v b)) (sgn (cmp b v)) (sgn (cmp v v0)) (b01 (eq v v0))
          (match it with Some l -> show_vals ',' l | None -> "OOB") msg in
      print_endline (String.concat " | " (List.map one vs))
    | _ -> print_endline "BADCASE"
  with Bad | Failure _ | Invalid_argument _ -> print_endline "BADCASE")
