From Coq Require Import ExtrOcamlBasic ZArith.
From RtoscV Require Import ArgVal.AvModel ArgVal.AvFloat.
Extraction "model.ml" Z.add Z.mul Z.opp Z.div Z.modulo m_eq m_cmp m_iterate m_avmessage.
