From Coq Require Import ExtrOcamlBasic ZArith.
From Flocq Require Import IEEE754.Bits.
From RtoscV Require Import Auto.F32 Auto.AutoModel Auto.AutoMapModel.
Extraction "model.ml" Z.add Z.mul Z.opp Z.modulo b32_of_bits bits_of_b32 m_init m_step q_run.
