(* C19 model driver: one output line per case line (format: harness/h_C19.cpp).
   Text -> float conversions (atof + (float), logf, expf) are done here with
   OCaml's float_of_string / log / exp rounded to single: they are libc's in
   the implementation and oracles of the model. *)
let f32_of_float (x:float) : Model.binary32 =
  b32_of_bits (z_of_int ((Int32.to_int (Int32.bits_of_float x)) land 0xFFFFFFFF))
let float_of_f32 (x:Model.binary32) : float =
  Int32.float_of_bits (Int32.of_int (int_of_z (bits_of_b32 x)))
let f32_of_bitstr (s:string) : Model.binary32 = b32_of_bits (z_of_string s)
let bits (x:Model.binary32) : string = z_to_string (bits_of_b32 x)
let logf_o x = f32_of_float (log (float_of_f32 x))
let expf_o x = f32_of_float (exp (float_of_f32 x))
let bytes_of_string (s:string) : z list = List.init (String.length s) (fun i -> z_of_int (Char.code s.[i]))
let string_of_bytes (l:z list) : string = String.concat "" (List.map (fun b -> String.make 1 (Char.chr (int_of_z b))) l)
let rec nth_opt l n = match l with [] -> None | x :: t -> if n = 0 then Some x else nth_opt t (n-1)

let parse_param (p:string) : (string * param) option =
  match String.split_on_char ':' p with
  | [name; ty; mn; mx; flags] ->
    let opt s = if s = "-" then None else Some (f32_of_float (float_of_string s)) in
    Some (name, { p_path = bytes_of_string ("/" ^ name); p_type = z_of_int (Char.code ty.[0]);
                  p_min = opt mn; p_max = opt mx; p_log = String.contains flags 'l';
                  p_internal = String.contains flags 'x'; p_nolearn = String.contains flags 'n' })
  | _ -> None

let show_msg = function
  | MsgI (p, v) -> Printf.sprintf "%s/i/%s" (string_of_bytes p) (z_to_string (Z.modulo v (z_of_string "4294967296")))
  | MsgF (p, v) -> Printf.sprintf "%s/f/%s" (string_of_bytes p) (bits v)
  | MsgT (p, b) -> Printf.sprintf "%s/%s/" (string_of_bytes p) (if b then "T" else "F")
  | MsgUB p -> Printf.sprintf "%s/i/2147483648" (string_of_bytes p)   (* x86: integer indefinite *)

let show_state (st:mstate) : string =
  Printf.sprintf "q=%s s=%s" (z_to_string st.q.qlen)
    (String.concat ";" (List.map (fun s -> Printf.sprintf "%s/%s/%s" (z_to_string s.learning) (z_to_string s.cc) (z_to_string s.nrpn)) st.q.qslots))

let show_map (st:mstate) (slot:int) : string =
  match (if slot < 0 then None else nth_opt st.subs slot) with
  | None -> ""
  | Some l ->
    " M=" ^ String.concat ";" (List.map (fun s ->
      if not s.used then "0" else
        Printf.sprintf "1/%s/%s/%s/%d/%s/%s/%s/%s" (String.make 1 (Char.chr (int_of_z s.s_type))) (bits s.s_min) (bits s.s_max)
          (int_of_z s.s_scale) (bits s.gain) (bits s.offset) (bits s.cp1) (bits s.cp3)) l)

let () = each_line (fun line ->
  match String.split_on_char ' ' line with
  | "auto" :: ns :: per :: params :: rg :: ops :: _ ->
    let params = List.filter_map parse_param (split_on ';' params) in
    let r = match List.map z_of_string (String.split_on_char ',' rg) with
      | [a;b;c;d] -> { parhi = a; parlo = b; valhi = c; vallo = d }
      | _ -> { parhi = z_of_int (-1); parlo = z_of_int (-1); valhi = z_of_int (-1); vallo = z_of_int (-1) } in
    let st = ref (m_init (nat_of_int (int_of_string ns)) (nat_of_int (int_of_string per)) r) in
    let ops = if ops = "-" then [] else String.split_on_char ',' ops in
    let outs = List.map (fun o ->
      let a = String.split_on_char ':' o in
      let zi s = z_of_string s in
      let parsed = match a with
        | ["b"; slot; name; l] -> Some (MBind (nat_of_int (int_of_string slot), List.assoc_opt name params, l <> "0"), int_of_string slot, false)
        | ["cs"; slot] -> Some (MClearSlot (zi slot), int_of_string slot, false)
        | ["cu"; slot; sb] -> Some (MClearSub (zi slot, zi sb), int_of_string slot, false)
        | ["g"; slot; sb; v] -> Some (MGain (zi slot, zi sb, f32_of_bitstr v), int_of_string slot, false)
        | ["o"; slot; sb; v] -> Some (MOffset (zi slot, zi sb, f32_of_bitstr v), int_of_string slot, false)
        | ["u"; slot; sb] -> Some (MUpdate (zi slot, zi sb), int_of_string slot, false)
        | ["v"; slot; v] -> Some (MSetSlot (zi slot, f32_of_bitstr v), -1, false)
        | ["w"; slot; sb; v] -> Some (MSetSub (zi slot, zi sb, f32_of_bitstr v), -1, false)
        | ["m"; c; t; v] -> Some (MMidi (zi c, zi t, zi v), -1, true)
        | _ -> None in
      match parsed with
      | None -> "BADOP"
      | Some (op, mslot, is_midi) ->
        (match m_step logf_o expf_o !st op with
         | None -> "OOB"
         | Some ((st', ms), ret) ->
           st := st';
           Printf.sprintf "%se=%s %s%s" (if is_midi then Printf.sprintf "r=%s " (z_to_string ret) else "")
             (String.concat ";" (List.map show_msg ms)) (show_state st') (show_map st' mslot))) ops in
    print_endline (String.concat "|" outs)
  | "orc" :: _ -> print_endline "ORACLE"     (* libm evidence stream: judged by spec_check only *)
  | _ -> print_endline "BADCASE")
