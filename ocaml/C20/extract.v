From Coq Require Import ExtrOcamlBasic ZArith.
From RtoscV Require Import Midi.MidiModel Midi.MidiSpec.
Extraction "model.ml" Z.add Z.mul Z.opp dy_of_bits32 mval_bits mval_isint world0 run nocross pending_of.
