(* C20 model driver: one output line per case line (format: harness/h_C20.cpp) *)
let bool_of s = s <> "0"
let zi = z_of_int
let iz = int_of_z

let parse_port (s:string) : port =
  match String.split_on_char ':' s with
  | t :: _ :: _ :: mnb :: mxb :: _ ->
    { pint = (t = "i");
      pmin = dy_of_bits32 (zi (int_of_string ("0x" ^ mnb)));
      pmax = dy_of_bits32 (zi (int_of_string ("0x" ^ mxb))) }
  | _ -> failwith "port"

let parse_event (s:string) : event =
  let rest = String.sub s 1 (String.length s - 1) in
  let f = List.map int_of_string (if rest = "" then [] else String.split_on_char '.' rest) in
  match s.[0], f with
  | 'M', [a; c] -> EMap (zi a, c <> 0)
  | 'U', [a; c] -> EUnmap (zi a, c <> 0)
  | 'X', [] -> EClear
  | 'C', [p; v; ch; n] -> ECC (zi p, zi v, zi ch, n <> 0)
  | 'n', [] -> EDelN
  | 'r', [] -> EDelR
  | _ -> failwith "event"

let show_obs (o:obs) : string =
  match o with
  | OW -> "W" | OR -> "R" | OB -> "B" | OE -> "e"
  | OU id -> Printf.sprintf "U%d" (iz id)
  | OM m -> Printf.sprintf "m%d:%c:%08x" (iz m.maddr) (if mval_isint m.mvalue then 'i' else 'f')
              (iz (mval_bits m.mvalue))
  | OA (id, None) -> Printf.sprintf "A%d:-" (iz id)
  | OA (id, Some (a, c)) -> Printf.sprintf "A%d:%d:%d" (iz id) (iz a) (if c then 1 else 0)

let show_rec (r:obs list) : string =
  if r = [] then "." else String.concat "+" (List.map show_obs r)

let show_mapping (s:store option) : string =
  match s with
  | None -> "null"
  | Some s -> String.concat "," (List.map (fun ((id, c), ind) ->
      Printf.sprintf "%d.%d.%d" (iz id) (if c then 1 else 0) (iz ind)) s.mapping)

let show_state (nports:int) (w:world) : string =
  let n = w.wn and r = w.wr in
  let inv = List.concat (List.init nports (fun k ->
      match inv_find (zi k) n.inv_map with
      | None -> []
      | Some (((loc, co), fi), _) -> [Printf.sprintf "%d:%d:%d:%d" k (iz loc) (iz co) (iz fi)])) in
  let q = List.map (fun (a, c) -> Printf.sprintf "%d.%d" (iz a) (if c then 1 else 0)) n.learnQ in
  let ints l = String.concat "," (List.map (fun v -> string_of_int (iz v)) l) in
  Printf.sprintf "nrt{inv=%s;q=%s;map=%s;nc=%d;nv=%d}rt{map=%s;val=%s;pend=%s;pr=%d;pw=%d;ps=%d;w=%d}"
    (String.concat "," inv) (String.concat "," q) (show_mapping n.nstorage)
    (match n.nstorage with None -> -1 | Some s -> List.length s.callbacks)
    (match n.nstorage with None -> -1 | Some s -> List.length s.values)
    (show_mapping r.rstorage)
    (match r.rstorage with None -> "null" | Some s -> ints s.values)
    (ints r.pending.vals) (iz r.pending.pos_r) (iz r.pending.pos_w) (iz r.pending.psize) (iz r.watch)

let () = each_line (fun line ->
  match String.split_on_char ' ' line with
  | "hist" :: pf :: ef :: _ ->
    let ports = List.map parse_port (split_on ',' pf) in
    let evs = List.map parse_event (List.filter (fun s -> s <> "") (split_on ',' ef)) in
    let (tr, fin) = run ports world0 evs in
    let recs = List.map show_rec tr in
    (* the side condition of the theorems, evaluated by the extracted MidiSpec.nocross on the
       model's own records; the plug-in's canon() sets the Python value beside it.  #P = the pending
       controllers as the records imply them (MidiSpec.pending_of), #R = whether the model's ring
       holds exactly those *)
    let nc = if nocross evs tr then "#N=1" else "#N=0" in
    let pl = List.map iz (pending_of evs tr) in
    let ps = "#P=" ^ String.concat "," (List.map string_of_int pl) in
    (match fin with
     | Some w ->
       let q = w.wr.pending in
       let vals = Array.of_list (List.map iz q.vals) in
       let ring = List.init (iz q.psize) (fun i -> vals.((iz q.pos_r + i) mod 32)) in
       print_endline (String.concat ";" recs ^ "|" ^ show_state (List.length ports) w ^ nc ^ ps
                      ^ (if ring = pl then "#R=1" else "#R=0"))
     | None -> print_endline (String.concat ";" (recs @ ["CRASH"]) ^ nc ^ ps))
  | _ -> print_endline "BADCASE")
