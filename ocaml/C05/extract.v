From Coq Require Import ExtrOcamlBasic ZArith.
From RtoscV Require Import Match.PatSpec Match.MatchModel.
Extraction "model.ml" Z.add Z.mul Z.opp match_number match_options match_path match_args arg_matcher pm_match_args rtosc_match.
