(* C05 model driver: same case lines and output format as harness/h_C05.cpp *)
let rec drop_to_colon (p : z list) : z list =
  match p with
  | [] -> []
  | c :: t -> if int_of_z c = 58 then p else drop_to_colon t

let b2i b = if b then 1 else 0

(* (ret offset or -1, pe offset or -1) of match_path; FUEL -> (-2,-2) *)
let path_of (pat : z list) (addr : z list) : int * int =
  match match_path pat addr with
  | MNull -> (-1, -1)
  | MRet (p, pe) -> (List.length pat - List.length p, List.length addr - List.length pe)
  | MFuel -> (-2, -2)

let match_of (pat : z list) (addr : z list) (tys : z list) : int * int =
  match rtosc_match pat addr tys with
  | None -> (-2, -2)
  | Some (r, None) -> (b2i r, -1)
  | Some (r, Some pe) -> (b2i r, List.length addr - List.length pe)

let show_ret r = if r = -1 then "N" else if r = -2 then "FUEL" else string_of_int r

let () = each_line (fun line ->
  match String.split_on_char ' ' line with
  | "one" :: hp :: ha :: ht :: _ ->
    let pat = bytes_of_hex hp and addr = bytes_of_hex ha and tys = bytes_of_hex ht in
    let (ret, pe) = path_of pat addr in
    let (m, mpe) = match_of pat addr tys in
    let ap = drop_to_colon pat in
    Printf.printf "mp=%s:%d m=%d:%d am=%d pm=%d\n" (show_ret ret) pe m mpe
      (b2i (arg_matcher ap tys)) (b2i (pm_match_args ap tys))
  | "sweep" :: hp :: hal :: ml :: fst :: hts :: _ ->
    let pat = bytes_of_hex hp in
    let alph = Array.of_list (bytes_of_hex hal) in
    let na = Array.length alph in
    let maxlen = int_of_string ml and first = int_of_string fst in
    let tys = List.map bytes_of_hex (String.split_on_char ',' hts) in
    let n = ref 0 and anomalies = ref 0 in
    let buf = Buffer.create 256 in
    let firstm = ref true in
    let visit (addr : z list) =
      incr n;
      let (ret, pe) = path_of pat addr in
      let mask = ref 0 in
      List.iteri (fun k t ->
          let (m, mpe) = match_of pat addr t in
          if m = 1 then mask := !mask lor (1 lsl k);
          if mpe <> pe then incr anomalies) tys;
      if ret <> -1 || !mask <> 0 then begin
        if not !firstm then Buffer.add_char buf ';';
        firstm := false;
        Buffer.add_string buf (Printf.sprintf "%s/%s/%d/%x" (hex_of_bytes addr) (show_ret ret) pe !mask)
      end in
    (* by length, then lexicographically in alphabet order, first letter fixed *)
    let rec gen (len : int) (acc : z list) (k : int) =
      (* acc = reversed prefix of length k *)
      if k = len then visit (List.rev acc)
      else for i = 0 to na - 1 do gen len (alph.(i) :: acc) (k + 1) done in
    if first < 0 then visit []
    else for len = 1 to maxlen do gen len [alph.(first)] 1 done;
    let ap = drop_to_colon pat in
    let am = ref 0 and pm = ref 0 in
    List.iteri (fun k t ->
        if arg_matcher ap t then am := !am lor (1 lsl k);
        if pm_match_args ap t then pm := !pm lor (1 lsl k)) tys;
    Printf.printf "n=%d M=%s X=%d T=%x/%x\n" !n (Buffer.contents buf) !anomalies !am !pm
  | _ -> print_endline "BADCASE")
