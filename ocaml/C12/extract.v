From Coq Require Import ExtrOcamlBasic ZArith List.
From RtoscV Require Import Save.TopoModel Save.SaveModel Save.TopoTree Save.DeclModel.
Extraction "model.ml" Z.add Z.mul Z.opp initial send save_lines load_file dispatch_printed load_order exists_ live val_at port_at apropos_of_tree declared_b.
