From Coq Require Import ExtrOcamlBasic ZArith List.
From RtoscV Require Import Save.TopoModel Save.SaveModel Save.TopoTree Save.DeclModel Save.TreeApp Save.LinesModel Save.CondModel Ports.NamesModel.
Extraction "model.ml" Z.add Z.mul Z.opp initial send save_lines load_file dispatch_printed load_order exists_ live val_at port_at apropos_of_tree declared_b
  meta_value key_enabled_by app_of_tree sports_of tree_apply_line walk_tree switches_ok nohash len_id names_ok apply_line print_line good_line_b opts_default wf_app_b full_conditions_b ranked_b pushes defaults_stable_b msg_ok_b.
