(* C12 / C13 model driver: one output line per case line (formats: harness/h_C12.cpp,
   tools/props/save_common.py).
     save <tree> <flat> <ops> <apro> <mops>
     perm <tree> <flat> <ops> <groups> <apro> <mops>
     rej  <tree> <flat> <file hex> <appname> <apro> <abstract file>            *)
let chars_of_string (s:string) : z list = List.init (String.length s) (fun i -> z_of_int (Char.code s.[i]))
let string_of_chars (l:z list) : string = String.concat "" (List.map (fun c -> String.make 1 (Char.chr (int_of_z c land 255))) l)
let z_of_hex8 (h:string) : z = z_of_string (Printf.sprintf "%d" (int_of_string ("0x" ^ h)))
let hex8_of_z (b:z) : string = Printf.sprintf "%08x" (int_of_z b)
let opt f s = if s = "-" then None else Some (f s)
let rest s = String.sub s 1 (String.length s - 1)

let parse_scalar (v:string) : scalar =
  match v.[0] with
  | 'i' -> VI (z_of_string (rest v))
  | 'c' -> VC (z_of_string (rest v))
  | 'f' -> VF (z_of_hex8 (rest v))
  | 'T' -> VT true
  | 'F' -> VT false
  | 's' -> VS (bytes_of_hex (rest v))
  | 'S' -> VSym (bytes_of_hex (rest v))
  | _ -> failwith "scalar"
let parse_value (s:string) : scalar list = if s = "-" then [] else List.map parse_scalar (split_on ':' s)
let show_scalar = function
  | VI z -> "i" ^ z_to_string z
  | VC z -> "c" ^ z_to_string z
  | VF b -> "f" ^ hex8_of_z b
  | VT true -> "T" | VT false -> "F"
  | VS s -> "s" ^ hex_of_bytes s
  | VSym s -> "S" ^ hex_of_bytes s
(* field contents as the harness dumps them *)
let dump_scalar = function
  | VI z | VC z -> z_to_string z
  | VF b -> hex8_of_z b
  | VT true -> "1" | VT false -> "0"
  | VS s | VSym s -> hex_of_bytes s

let parse_kind (s:string) : skind =
  match s.[0] with
  | 'c' -> KC | 'i' -> KI | 'b' -> KB | 'f' -> KF | 't' -> KT | 'o' -> KO
  | 's' -> KS (nat_of_int (int_of_string (rest s)))
  | _ -> failwith "kind"
let idx_list s = if s = "-" then [] else List.map (fun x -> nat_of_int (int_of_string x)) (split_on '.' s)

let parse_port (s:string) : port =
  (* 12 columns (corpus lines written before ports without default existed) or 14 *)
  match (match split_on ',' s with
         | [a; b; c; d; e; f; g; h; i; j; k; l] -> [a; b; c; d; e; f; g; h; i; j; k; l; "0"; "-"]
         | x -> x) with
  | [path; kind; arr; len; mn; mx; opts; dflt; sel; table; hard; soft; nodef; init] ->
    { p_path = bytes_of_hex path; p_kind = parse_kind kind; p_array = (arr = "1");
      p_len = nat_of_int (int_of_string len);
      p_min = opt z_of_string mn; p_max = opt z_of_string mx;
      p_opts = (if opts = "-" then [] else List.map (fun kv ->
          match split_on '=' kv with [k; v] -> (z_of_string k, bytes_of_hex v) | _ -> failwith "opt") (split_on '+' opts));
      p_default = parse_value dflt;
      p_sel = opt (fun x -> nat_of_int (int_of_string x)) sel;
      p_table = (if table = "-" then [] else List.map (fun kv ->
          match split_on '=' kv with [k; v] -> (z_of_string k, parse_value v) | _ -> failwith "table") (split_on '+' table));
      p_hard = idx_list hard; p_soft = idx_list soft; p_nodef = (nodef = "1"); p_init = parse_value init }
  | _ -> failwith "port"
let parse_app (s:string) : port list = if s = "-" then [] else List.map parse_port (split_on ';' s)

(* apropos table: <path hex>,<eb>,<dep>,<dd>  with n = none, h<hex> = value *)
let parse_apro (s:string) : (z list -> pmeta option) =
  let ov x = if x = "n" then None else Some (let h = rest x in if h = "" then [] else bytes_of_hex h) in
  let tbl = if s = "-" then [] else List.map (fun e ->
      match split_on ',' e with
      | [p; a; b; c] -> ((if p = "-" then [] else bytes_of_hex p), { enabled_by = ov a; depends = ov b; default_depends = ov c; port_name = [] })
      | _ -> failwith "apro") (split_on ';' s) in
  fun p -> List.assoc_opt p tbl

(* the port tree of the case line (harness/h_C12_app.h), for Ports::apropos' model:
   <level0>|<level1>|<level2>, items p,<fid>,<name hex>,<metadata hex>; the ports of
   fid sub / arr / ptr carry the next level's table.  A "static@" prefix is dropped. *)
let tree_of (s:string) : port0 list =
  let s = if String.length s >= 7 && String.sub s 0 7 = "static@" then String.sub s 7 (String.length s - 7) else s in
  let levels = Array.of_list (String.split_on_char '|' s) in
  let rec table (t:int) : port0 list =
    if t >= Array.length levels then [] else
      List.filter_map (fun item ->
          match String.split_on_char ',' item with
          | ["p"; fid; nm; meta] ->
            let sub = if fid = "sub" || fid = "arr" || fid = "ptr" then Some (table (t + 1)) else None in
            Some (Port (bytes_of_hex nm, Some (bytes_of_hex meta), sub))
          | _ -> None) (split_on ';' levels.(t)) in
  table 0
let parse_apro_tree (tree:string) : (z list -> pmeta option) =
  let root = tree_of tree in
  let memo = Hashtbl.create 64 in
  fun p -> match Hashtbl.find_opt memo p with
    | Some r -> r
    | None -> let r = apropos_of_tree root p in Hashtbl.add memo p r; r

let fuel = nat_of_int 40

(* `declared a apropos` (hypothesis of C13_perm_invariant / C12's sorted pipeline),
   evaluated for the lookup of this case's port tree: when it does not hold the
   output line is marked, so the case shows up as a disagreement *)
let decl_mark (a:port list) (ap:z list -> pmeta option) : string =
  if declared_b a ap then "" else "UNDECLARED "

let run_ops (a:port list) (mops:string) (st:value list) : value list =
  if mops = "-" then st else
    List.fold_left (fun st o ->
        match split_on '.' o with
        | [i; k; v] -> send a (nat_of_int (int_of_string i)) (nat_of_int (int_of_string k)) (parse_scalar v) st
        | _ -> failwith "mop") st (split_on ';' mops)

let show_line (l:line) : string =
  string_of_chars l.l_path ^ (if l.l_array then "~[" else "") ^
  String.concat "" (List.map (fun v -> "~" ^ show_scalar v) l.l_vals)
let show_lines ls = if ls = [] then "-" else String.concat "|" (List.map show_line ls)

let dump (a:port list) (st:value list) : string =
  let n = List.length a in
  let out = ref [] in
  for i = 0 to n - 1 do
    let ni = nat_of_int i in
    if exists_ a st ni then begin
      let p = port_at a ni in
      let v = val_at st ni in
      out := (string_of_chars p.p_path ^ "=" ^ String.concat ":" (List.map dump_scalar v)) :: !out
    end
  done;
  if !out = [] then "-" else String.concat "," (List.rev !out)

(* the text lines of a saved body, bytewise sorted by their address-and-text:
   the harness sorts the raw text lines; the text of a line starts with its
   address followed by a space, so the order is the order of (address ^ " ") *)
let sort_lines (ls:line list) : line list =
  List.sort (fun x y -> compare (string_of_chars x.l_path ^ " ") (string_of_chars y.l_path ^ " ")) ls

let items_of_lines ls = List.map (fun l -> Msg (l, z_of_int 1)) ls

let parse_item (s:string) : item =
  match split_on ',' s with
  | ["j"] -> Junk
  | ["m"; p; arr; vals; rd] -> Msg ({ l_path = bytes_of_hex p; l_array = (arr = "1"); l_vals = parse_value vals }, z_of_string rd)
  | _ -> failwith "item"

let () = each_line (fun line ->
  try
    match String.split_on_char ' ' line with
    | "save" :: tree :: flat :: _ :: _ :: mops :: _ ->
      let a = parse_app flat in
      let ap = parse_apro_tree tree in
      let st0 = initial a in
      let sa = run_ops a mops st0 in
      let ls = save_lines a sa in
      let f = { f_h1 = Some (z_of_int 1); f_h2 = Some (chars_of_string "app", z_of_int 1); f_items = items_of_lines ls } in
      (match load_file ap fuel a (chars_of_string "app") f st0 with
       | None -> print_endline "NOFUEL"
       | Some (r, sb) ->
         Printf.printf "%shdr=1 lines=%s ret=%s A=%s B=%s fresh=%s\n" (decl_mark a ap) (show_lines ls) (z_to_string r)
           (dump a sa) (dump a sb) (show_lines (save_lines a st0)))
    | "perm" :: tree :: flat :: _ :: groups :: _ :: mops :: _ ->
      let a = parse_app flat in
      let ap = parse_apro_tree tree in
      let st0 = initial a in
      let sa = run_ops a mops st0 in
      let ls = Array.of_list (sort_lines (save_lines a sa)) in
      let n = Array.length ls in
      let gs = List.map (fun g ->
          let first = ref None in
          String.concat "!" (List.map (fun pm ->
              let idx = if pm = "-" then [] else List.map int_of_string (split_on '.' pm) in
              if List.exists (fun k -> k >= n) idx then "BADINDEX" else begin
                let sel = List.map (fun k -> ls.(k)) idx in
                let ms = List.map (fun l -> (l.l_path, l)) sel in
                match load_order ap fuel ms, dispatch_printed ap fuel a (items_of_lines sel) st0 with
                | Some order, Some (r, sb) ->
                  let names = List.map (fun i -> string_of_chars (List.nth sel (int_of_nat i)).l_path) order in
                  let d = dump a sb in
                  let shown = (match !first with
                      | None -> first := Some d; d
                      | Some d0 -> if d = d0 then "=" else d) in
                  Printf.sprintf "%s@%s@%s" (z_to_string r) (if names = [] then "-" else String.concat ">" names) shown
                | _, _ -> "NOFUEL"
              end) (split_on '/' g))) (split_on ';' groups) in
      Printf.printf "%sn=%d %s\n" (decl_mark a ap) n (String.concat ";" gs)
    | "macro" :: _ :: name :: meta :: _ -> Printf.printf "name=%s meta=%s\n" name meta
    | "rej" :: tree :: flat :: _ :: appname :: _ :: absf :: _ ->
      let a = parse_app flat in
      let ap = parse_apro_tree tree in
      let st0 = initial a in
      (match split_on ';' absf with
       | [h1; h2; items] ->
         let f = { f_h1 = (if h1 = "n" then None else Some (z_of_string h1));
                   f_h2 = (if h2 = "n" then None else
                             match split_on ':' h2 with
                             | [nm; b] -> Some (bytes_of_hex nm, z_of_string b)
                             | _ -> failwith "h2");
                   f_items = (if items = "-" then [] else List.map parse_item (split_on '+' items)) } in
         (match load_file ap fuel a (chars_of_string appname) f st0 with
          | None -> print_endline "NOFUEL"
          | Some (r, sb) -> Printf.printf "ret=%s B=%s\n" (z_to_string r) (dump a sb))
       | _ -> print_endline "BADCASE absfile")
    | _ -> print_endline "BADCASE"
  with Failure m -> print_endline ("BADCASE " ^ m) | Not_found -> print_endline "BADCASE notfound")
