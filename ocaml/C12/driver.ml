(* C12 / C13 model driver: one output line per case line (formats: harness/h_C12.cpp,
   tools/props/save_common.py).
     save <tree> <flat> <ops> <apro> <mops>
     perm <tree> <flat> <ops> <groups> <apro> <mops>
     rej  <tree> <flat> <file hex> <appname> <apro> <abstract file>            *)
let chars_of_string (s:string) : z list = List.init (String.length s) (fun i -> z_of_int (Char.code s.[i]))
let string_of_chars (l:z list) : string = String.concat "" (List.map (fun c -> String.make 1 (Char.chr (int_of_z c land 255))) l)
let z_of_hex8 (h:string) : z = z_of_string (Printf.sprintf "%d" (int_of_string ("0x" ^ h)))
let hex8_of_z (b:z) : string = Printf.sprintf "%08x" (int_of_z b)
let opt f s = if s = "-" then None else Some (f s)
let rest s = String.sub s 1 (String.length s - 1)

(* (the extraction renames what SaveModel shares with C14's SugarModel: scalar0, KI0 KF0 KT0 KO0 KS0,
   p_min0 p_max0) *)
let parse_scalar (v:string) : scalar0 =
  match v.[0] with
  | 'i' -> VI (z_of_string (rest v))
  | 'c' -> VC (z_of_string (rest v))
  | 'f' -> VF (z_of_hex8 (rest v))
  | 'T' -> VT true
  | 'F' -> VT false
  | 's' -> VS (bytes_of_hex (rest v))
  | 'S' -> VSym (bytes_of_hex (rest v))
  | _ -> failwith "scalar"
let parse_value (s:string) : scalar0 list = if s = "-" then [] else List.map parse_scalar (split_on ':' s)
let show_scalar = function
  | VI z -> "i" ^ z_to_string z
  | VC z -> "c" ^ z_to_string z
  | VF b -> "f" ^ hex8_of_z b
  | VT true -> "T" | VT false -> "F"
  | VS s -> "s" ^ hex_of_bytes s
  | VSym s -> "S" ^ hex_of_bytes s
(* field contents as the harness dumps them *)
let dump_scalar = function
  | VI z | VC z -> z_to_string z
  | VF b -> hex8_of_z b
  | VT true -> "1" | VT false -> "0"
  | VS s | VSym s -> hex_of_bytes s

let parse_kind (s:string) : skind =
  match s.[0] with
  | 'c' -> KC | 'i' -> KI0 | 'b' -> KB | 'f' -> KF0 | 't' -> KT0 | 'o' -> KO0
  | 's' -> KS0 (nat_of_int (int_of_string (rest s)))
  | _ -> failwith "kind"
let idx_list s = if s = "-" then [] else List.map (fun x -> nat_of_int (int_of_string x)) (split_on '.' s)

let parse_port (s:string) : port =
  (* 12 columns (corpus lines written before ports without default existed) or 14 *)
  match (match split_on ',' s with
         | [a; b; c; d; e; f; g; h; i; j; k; l] -> [a; b; c; d; e; f; g; h; i; j; k; l; "0"; "-"]
         | x -> x) with
  | [path; kind; arr; len; mn; mx; opts; dflt; sel; table; hard; soft; nodef; init] ->
    { p_path = bytes_of_hex path; p_kind = parse_kind kind; p_array = (arr = "1");
      p_len = nat_of_int (int_of_string len);
      p_min0 = opt z_of_string mn; p_max0 = opt z_of_string mx;
      p_opts = (if opts = "-" then [] else List.map (fun kv ->
          match split_on '=' kv with [k; v] -> (z_of_string k, bytes_of_hex v) | _ -> failwith "opt") (split_on '+' opts));
      p_default = parse_value dflt;
      p_sel = opt (fun x -> nat_of_int (int_of_string x)) sel;
      p_table = (if table = "-" then [] else List.map (fun kv ->
          match split_on '=' kv with [k; v] -> (z_of_string k, parse_value v) | _ -> failwith "table") (split_on '+' table));
      p_hard = idx_list hard; p_soft = idx_list soft; p_nodef = (nodef = "1"); p_init = parse_value init }
  | _ -> failwith "port"
let parse_app (s:string) : port list = if s = "-" then [] else List.map parse_port (split_on ';' s)

(* apropos table: <path hex>,<eb>,<dep>,<dd>  with n = none, h<hex> = value *)
let parse_apro (s:string) : (z list -> pmeta option) =
  let ov x = if x = "n" then None else Some (let h = rest x in if h = "" then [] else bytes_of_hex h) in
  let tbl = if s = "-" then [] else List.map (fun e ->
      match split_on ',' e with
      | [p; a; b; c] -> ((if p = "-" then [] else bytes_of_hex p), { enabled_by = ov a; depends = ov b; default_depends = ov c; port_name = [] })
      | _ -> failwith "apro") (split_on ';' s) in
  fun p -> List.assoc_opt p tbl

(* the port tree of the case line (harness/h_C12_app.h), for Ports::apropos' model:
   <level0>|<level1>|<level2>, items p,<fid>,<name hex>,<metadata hex>; the ports of
   fid sub / arr / ptr carry the next level's table.  A "static@" prefix is dropped. *)
let tree_of (s:string) : port0 list =
  let s = if String.length s >= 7 && String.sub s 0 7 = "static@" then String.sub s 7 (String.length s - 7) else s in
  let levels = Array.of_list (String.split_on_char '|' s) in
  let rec table (t:int) : port0 list =
    if t >= Array.length levels then [] else
      List.filter_map (fun item ->
          match String.split_on_char ',' item with
          | ["p"; fid; nm; meta] ->
            let sub = if fid = "sub" || fid = "arr" || fid = "ptr" then Some (table (t + 1)) else None in
            Some (Port (bytes_of_hex nm, Some (bytes_of_hex meta), sub))
          | _ -> None) (split_on ';' levels.(t)) in
  table 0
let parse_apro_tree (tree:string) : (z list -> pmeta option) =
  let root = tree_of tree in
  let memo = Hashtbl.create 64 in
  fun p -> match Hashtbl.find_opt memo p with
    | Some r -> r
    | None -> let r = apropos_of_tree root p in Hashtbl.add memo p r; r

let fuel = nat_of_int 40

(* ---- the tree stages (Save/TreeApp.v): the case's port tree as a [pt] - names and structure
   from the tree field, the data of a leaf from the flat application (the port of that name
   at that depth).  None: the tree is outside the class of TreeApp.v (a pointer sub-tree that
   never exists, the macro-made application). *)
exception Outside
let last_comp (p:z list) : z list =
  let s = string_of_chars p in
  match String.rindex_opt s '/' with
  | Some i -> chars_of_string (String.sub s (i + 1) (String.length s - i - 1))
  | None -> p
let depth_of (p:z list) : int = List.length (List.filter (fun c -> int_of_z c = 47) p)
let pt_of_case (tree:string) (a:port list) : pt list option =
  if String.length tree >= 7 && String.sub tree 0 7 = "static@" then None else
  let levels = Array.of_list (String.split_on_char '|' tree) in
  let rec table (t:int) : pt list =
    if t >= Array.length levels then [] else begin
      let items = List.map (String.split_on_char ',') (split_on ';' levels.(t)) in
      let enabler = List.fold_left (fun acc it -> match it with ["e"; f] -> Some f | _ -> acc) None items in
      let ptr_init = List.exists (fun it -> it = ["n"; "1"]) items in
      let leaf_name nm =
        let s = string_of_chars (bytes_of_hex nm) in
        let cut = (try String.index s '#' with Not_found -> (try String.index s ':' with Not_found -> String.length s)) in
        let arr = (match String.index_opt s '#' with
            | Some i ->
              let j = ref (i + 1) in
              while !j < String.length s && s.[!j] >= '0' && s.[!j] <= '9' do j := !j + 1 done;
              Some (nat_of_int (int_of_string (String.sub s (i + 1) (!j - i - 1))))
            | None -> None) in
        (chars_of_string (String.sub s 0 cut), arr) in
      let name_of_fid f =
        List.fold_left (fun acc it -> match it with
            | ["p"; f'; nm; _] when f' = f -> Some (fst (leaf_name nm))
            | _ -> acc) None items in
      List.filter_map (fun it ->
          match it with
          | ["p"; "self"; _; meta] ->            (* rSelf: the non-parameter port "self:" with its 'enabled by' *)
            Some (PAux (chars_of_string "self", meta_value (Some (bytes_of_hex meta)) key_enabled_by))
          | ["p"; "subp"; _; _] -> None          (* "name:" - the object pointer, no parameter *)
          | ["p"; fid; nm; meta] when fid = "sub" || fid = "arr" || fid = "ptr" ->
            let s = string_of_chars (bytes_of_hex nm) in
            let s = String.sub s 0 (String.length s - 1) in
            let (n, enum) = (match String.index_opt s '#' with
                | Some i -> (String.sub s 0 i, Some (nat_of_int (int_of_string (String.sub s (i + 1) (String.length s - i - 1)))))
                | None -> (s, None)) in
            let eb = meta_value (Some (bytes_of_hex meta)) key_enabled_by in
            let ptr = (if fid = "ptr" then
                         (match enabler with
                          | Some f -> (match name_of_fid f with Some x -> Some x | None -> raise Outside)
                          | None -> if ptr_init then None else raise Outside)
                       else None) in
            (* the literal value of the property: "tg" (a toggle of this table) or the inner-switch
               form "name/tg" / "name#N/tg" (TreeApp.sw_addr tells them apart as the code does) *)
            let sw = (if fid = "ptr" then None else eb) in
            Some (PSub (chars_of_string n, enum, ptr, sw, table (t + 1)))
          | ["p"; _; nm; _] ->
            let (n, arr) = leaf_name nm in
            (match List.find_opt (fun p -> depth_of p.p_path = t + 1 && last_comp p.p_path = n) a with
             | None -> raise Outside
             | Some p ->
               let sel = (match p.p_sel with
                   | Some j -> Some (last_comp (port_at a j).p_path)
                   | None -> None) in
               Some (PLeaf (n, arr, { ld_kind = p.p_kind; ld_min = p.p_min0; ld_max = p.p_max0; ld_opts = p.p_opts;
                                      ld_default = p.p_default; ld_sel = sel; ld_table = p.p_table;
                                      ld_nodef = p.p_nodef; ld_init = p.p_init })))
          | _ -> None) items
    end in
  try Some (table 0) with Outside -> None | Invalid_argument _ -> None | Failure _ -> None

(* some sub-tree port of the tree carries the inner-switch form / some table an rSelf port
   (statistics only) *)
let rec inner_form (t:pt list) : bool =
  List.exists (function
      | PLeaf _ | PAux _ -> false
      | PSub (_, _, _, sw, sub) ->
        (match sw with Some v -> List.exists (fun c -> int_of_z c = 47) v | None -> false) || inner_form sub) t
let rec self_form (t:pt list) : bool =
  List.exists (function
      | PLeaf _ -> false
      | PAux _ -> true
      | PSub (_, _, _, _, sub) -> self_form sub) t

(* the checks of the tree stages for one state: the flattening is the case's application,
   names_ok holds, walk_ports with the runtime object reaches the live ports, the saved lines
   handed to Ports::dispatch on the tree (C04 + C14) give what apply_line gives.  "" = all hold
   (or the tree is outside the class). *)
let tree_mark (tree:string) (a:port list) (ap:z list -> pmeta option) (sa:value list) : string =
  let stat x = if Sys.getenv_opt "TREEDBG" <> None then prerr_endline ("TREESTAT " ^ x) in
  match pt_of_case tree a with
  | None -> stat "outside"; ""
  | Some t ->
    let hyp = names_ok (sports_of t) && switches_ok t in
    stat (if hyp then (if self_form t then "checked-rself" else if inner_form t then "checked-inner" else "checked")
          else if names_ok (sports_of t) then "switches_ok=false" else "names_ok=false");
    (* the case's application lists the leaves of a table in front of its sub-trees, app_of_tree
       in table order (the walk's): compared port by port through the addresses *)
    let b = app_of_tree t in
    let path_of app i = (port_at app i).p_path in
    (* p_soft is a conjunction: when a sub-tree inside one with an inner switch is enabled by that
       same switch the walk asks it twice (app_of_tree lists it twice), the generator once *)
    let dedup l = List.rev (List.fold_left (fun acc x -> if List.mem x acc then acc else x :: acc) [] l) in
    let norm app = List.sort compare (List.mapi (fun _ p ->
        (p.p_path, (p.p_kind, p.p_array, p.p_len, p.p_min0, p.p_max0),
         (p.p_opts, p.p_default, p.p_table, p.p_nodef, p.p_init),
         ((match p.p_sel with Some j -> Some (path_of app j) | None -> None),
          List.map (path_of app) p.p_hard, dedup (List.map (path_of app) p.p_soft)))) app) in
    (* a non-parameter port ("self:") has an entry without default in app_of_tree, none in the
       case's application *)
    let is_aux p = p.p_nodef && last_comp p.p_path = chars_of_string "self" in
    let bp = List.filter (fun p -> not (is_aux p)) b in
    let norm' app = List.filter (fun (pa, _, _, _) -> List.exists (fun p -> p.p_path = pa) bp) (norm app) in
    if Sys.getenv_opt "TREEDBG" <> None && norm' b <> norm a then
      (try List.iter2 (fun (pa, _, _, (sa, ha, fa)) (pb, _, _, (sb, hb, fb)) ->
          if (pa, sa, ha, fa) <> (pb, sb, hb, fb) then
            prerr_endline (Printf.sprintf "TREEDIFF %s soft case=[%s] tree=[%s] hard case=[%s] tree=[%s]" (string_of_chars pa)
                             (String.concat " " (List.map string_of_chars fa)) (String.concat " " (List.map string_of_chars fb))
                             (String.concat " " (List.map string_of_chars ha)) (String.concat " " (List.map string_of_chars hb))))
        (norm a) (norm' b) with Invalid_argument _ -> prerr_endline "TREEDIFF different numbers of ports");
    if norm' b <> norm a then "TREEMODEL(flattening) "
    else if not hyp then ""       (* hypotheses of the tree theorems: e.g. q0n beside q#3/ is outside *)
    else begin
      (* the state in the order of b *)
      let idx_in_a p = let rec go i = function [] -> raise Not_found | q :: r -> if q.p_path = p then i else go (i + 1) r in go 0 a in
      let sb = List.map (fun p -> if is_aux p then [VI (z_of_int 0)] else val_at sa (nat_of_int (idx_in_a p.p_path))) b in
      let n = List.length b in
      let lives = List.filter (fun i -> live b sb (nat_of_int i)) (List.init n (fun i -> i)) in
      if List.map int_of_nat (walk_tree t sb) <> lives then "TREEMODEL(walk) "
      else begin
        let ls = save_lines b sb in
        let ms = List.map (fun l -> (l.l_path, l)) ls in
        match load_order ap fuel ms with
        | None -> ""
        | Some order ->
          let sorted = List.map (fun i -> List.nth ls (int_of_nat i)) order in
          let run f = List.fold_left (fun s l -> match s with Some s -> f l s | None -> None) (Some (initial b)) sorted in
          if run (fun l s -> tree_apply_line nohash len_id t l s) <> run (fun l s -> apply_line b l s)
          then "TREEMODEL(dispatch) " else ""
      end
    end

(* `declared a apropos` (hypothesis of C13_perm_invariant / C12's sorted pipeline),
   evaluated for the lookup of this case's port tree: when it does not hold the
   output line is marked, so the case shows up as a disagreement *)
let decl_mark (a:port list) (ap:z list -> pmeta option) : string =
  if declared_b a ap then "" else "UNDECLARED "

(* the side conditions of the round-trip / permutation theorems, evaluated for this case
   (Save/CondModel.v; sound by C12_wf_app_computed, C12_full_conditions_computed, C13_ranked_computed):
   wf = wf_app a, full = full_conditions a st (the state the file is saved from), rk = the edges the
   scan_deps model produces for the saved file are acyclic.  Informational field (the harness prints
   cond=-): the plug-in counts them into the evidence's input distribution. *)
(* every message of the case's history is msg_ok (ReachProofs: what it stores is stored again) *)
let mops_ok (a:port list) (mops:string) : bool =
  if mops = "-" then true else
    List.for_all (fun o ->
        match split_on '.' o with
        | [i; _; v] -> msg_ok_b (port_at a (nat_of_int (int_of_string i))) (parse_scalar v)
        | _ -> false) (split_on ';' mops)

let cond_text (a:port list) (ap:z list -> pmeta option) (st:value list) : string =
  let b x = if x then "1" else "0" in
  let ls = save_lines a st in
  let ms = List.map (fun l -> (l.l_path, l)) ls in
  let rk = (match pushes ap fuel ms with Some ps -> ranked_b ps | None -> false) in
  Printf.sprintf "wf%s,full%s,rk%s,ds%s" (b (wf_app_b a)) (b (full_conditions_b a st)) (b rk) (b (defaults_stable_b a))

let run_ops (a:port list) (mops:string) (st:value list) : value list =
  if mops = "-" then st else
    List.fold_left (fun st o ->
        match split_on '.' o with
        | [i; k; v] -> send a (nat_of_int (int_of_string i)) (nat_of_int (int_of_string k)) (parse_scalar v) st
        | _ -> failwith "mop") st (split_on ';' mops)

let show_line (l:line) : string =
  string_of_chars l.l_path ^ (if l.l_array then "~[" else "") ^
  String.concat "" (List.map (fun v -> "~" ^ show_scalar v) l.l_vals)
let show_lines ls = if ls = [] then "-" else String.concat "|" (List.map show_line ls)

let dump (a:port list) (st:value list) : string =
  let n = List.length a in
  let out = ref [] in
  for i = 0 to n - 1 do
    let ni = nat_of_int i in
    if exists_ a st ni then begin
      let p = port_at a ni in
      let v = val_at st ni in
      out := (string_of_chars p.p_path ^ "=" ^ String.concat ":" (List.map dump_scalar v)) :: !out
    end
  done;
  if !out = [] then "-" else String.concat "," (List.rev !out)

(* the text lines of a saved body, bytewise sorted by their address-and-text:
   the harness sorts the raw text lines; the text of a line starts with its
   address followed by a space, so the order is the order of (address ^ " ") *)
let sort_lines (ls:line list) : line list =
  List.sort (fun x y -> compare (string_of_chars x.l_path ^ " ") (string_of_chars y.l_path ^ " ")) ls

let items_of_lines ls = List.map (fun l -> Msg (l, z_of_int 1)) ls

(* the body save_to_file writes, as the printer's model (C10's print_message with the default options,
   Save/LinesModel.v print_line) prints the saved lines: one hex text per line without its line feed,
   sorted; cls = how many of the lines are in the class good_line_b of C12_roundtrip_tree_real_lines_partial
   (informational: the harness prints cls=- and the field is not compared) *)
let body_text (ls:line list) : string =
  let one l = match print_line opts_default l with
    | Some t -> let t' = (match List.rev t with _ :: r -> List.rev r | [] -> []) in hex_of_bytes t'
    | None -> "NONE" in
  if ls = [] then "-" else String.concat "|" (List.sort compare (List.map one ls))
let cls_text (ls:line list) : string =
  Printf.sprintf "%d/%d" (List.length (List.filter good_line_b ls)) (List.length ls)

let parse_item (s:string) : item =
  match split_on ',' s with
  | ["j"] -> Junk
  | ["m"; p; arr; vals; rd] -> Msg ({ l_path = bytes_of_hex p; l_array = (arr = "1"); l_vals = parse_value vals }, z_of_string rd)
  | _ -> failwith "item"

(* the output of one judged save: the state sa saved, the file loaded into a fresh instance st0 *)
let save_record (tree:string) (a:port list) (ap:z list -> pmeta option) (st0:value list) (sa:value list) (mo:bool) : string =
  let ls = save_lines a sa in
  let f = { f_h1 = Some (z_of_int 1); f_h2 = Some (chars_of_string "app", z_of_int 1); f_items = items_of_lines ls } in
  match load_file ap fuel a (chars_of_string "app") f st0 with
  | None -> "NOFUEL"
  | Some (r, sb) ->
    Printf.sprintf "%s%shdr=1 lines=%s ret=%s A=%s B=%s fresh=%s body=%s cls=%s cond=%s" (decl_mark a ap) (tree_mark tree a ap sa) (show_lines ls) (z_to_string r)
      (dump a sa) (dump a sb) (show_lines (save_lines a st0)) (body_text ls) (cls_text ls) (cond_text a ap sa ^ (if mo then ",mo1" else ",mo0"))

let () = each_line (fun line ->
  try
    match String.split_on_char ' ' line with
    | "save" :: tree :: flat :: _ :: _ :: mops :: _ ->
      let a = parse_app flat in
      let ap = parse_apro_tree tree in
      let st0 = initial a in
      let sa = run_ops a mops st0 in
      print_endline (save_record tree a ap st0 sa (mops_ok a mops))
    | "hist" :: tree :: flat :: _ :: _ :: mops :: _ ->
      (* one instance, several saves: the model is a function of the state, so every segment's
         messages go on from the state the previous segment left and the record of `save` is
         printed for the state at that moment (the file is loaded into a fresh instance) *)
      let a = parse_app flat in
      let ap = parse_apro_tree tree in
      let st0 = initial a in
      let (_, recs) = List.fold_left (fun (st, acc) seg ->
          let st' = run_ops a seg st in
          let ls = save_lines a st' in
          (st', (save_record tree a ap st0 st' (mops_ok a seg) ^ " cv=" ^ show_lines ls ^ " cv2=1 dv=-") :: acc))
          (st0, []) (String.split_on_char '!' mops) in
      print_endline (String.concat " ## " (List.rev recs))
    | "perm" :: tree :: flat :: _ :: groups :: _ :: mops :: _ ->
      let a = parse_app flat in
      let ap = parse_apro_tree tree in
      let st0 = initial a in
      let sa = run_ops a mops st0 in
      let ls = Array.of_list (sort_lines (save_lines a sa)) in
      let n = Array.length ls in
      let gs = List.map (fun g ->
          let first = ref None in
          String.concat "!" (List.map (fun pm ->
              let idx = if pm = "-" then [] else List.map int_of_string (split_on '.' pm) in
              if List.exists (fun k -> k >= n) idx then "BADINDEX" else begin
                let sel = List.map (fun k -> ls.(k)) idx in
                let ms = List.map (fun l -> (l.l_path, l)) sel in
                match load_order ap fuel ms, dispatch_printed ap fuel a (items_of_lines sel) st0 with
                | Some order, Some (r, sb) ->
                  let names = List.map (fun i -> string_of_chars (List.nth sel (int_of_nat i)).l_path) order in
                  let d = dump a sb in
                  let shown = (match !first with
                      | None -> first := Some d; d
                      | Some d0 -> if d = d0 then "=" else d) in
                  Printf.sprintf "%s@%s@%s" (z_to_string r) (if names = [] then "-" else String.concat ">" names) shown
                | _, _ -> "NOFUEL"
              end) (split_on '/' g))) (split_on ';' groups) in
      Printf.printf "%sn=%d %s cond=%s\n" (decl_mark a ap) n (String.concat ";" gs) (cond_text a ap sa ^ (if mops_ok a mops then ",mo1" else ",mo0"))
    | "macro" :: _ :: name :: meta :: _ -> Printf.printf "name=%s meta=%s\n" name meta
    | "rej" :: tree :: flat :: _ :: appname :: _ :: absf :: _ ->
      let a = parse_app flat in
      let ap = parse_apro_tree tree in
      let st0 = initial a in
      (match split_on ';' absf with
       | [h1; h2; items] ->
         let f = { f_h1 = (if h1 = "n" then None else Some (z_of_string h1));
                   f_h2 = (if h2 = "n" then None else
                             match split_on ':' h2 with
                             | [nm; b] -> Some (bytes_of_hex nm, z_of_string b)
                             | _ -> failwith "h2");
                   f_items = (if items = "-" then [] else List.map parse_item (split_on '+' items)) } in
         (match load_file ap fuel a (chars_of_string appname) f st0 with
          | None -> print_endline "NOFUEL"
          | Some (r, sb) -> Printf.printf "ret=%s B=%s\n" (z_to_string r) (dump a sb))
       | _ -> print_endline "BADCASE absfile")
    | _ -> print_endline "BADCASE"
  with Failure m -> print_endline ("BADCASE " ^ m) | Not_found -> print_endline "BADCASE notfound")
