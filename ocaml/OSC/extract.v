From Coq Require Import ExtrOcamlBasic ZArith List.
From RtoscV Require Import Osc.OscModel.
Extraction "model.ml" Z.add Z.mul Z.opp Z.sub Z.ltb Z.leb Z.eqb Z.modulo Z.div
  zlen zeros amessage size_null message_length message_length_pinned valid_message_p valid_message_p_pinned
  arg_string narguments narguments_pinned type_at argument itr_all cstr_at rd32
  bundle bundle_pinned bundle_elements bundle_fetch bundle_size bundle_p bundle_timetag elem_bytes
  message_ring_length enc_spec args_match subtree_serialize.
