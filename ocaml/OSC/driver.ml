(* Model driver for the byte codec streams (see harness/h_osc.cpp for the formats) *)
let zs = z_to_string
let zi = int_of_z
let show_res f = function Ok a -> f a | Oob -> "OOB" | Fuel -> "FUEL"
exception Stop of string
let get = function Ok a -> a | Oob -> raise (Stop "OOB") | Fuel -> raise (Stop "FUEL")

let parse_args (f:string) : payload list =
  if f = "-" then [] else
  List.map (fun p ->
    match String.split_on_char ':' p with
    | ["4"; d] -> P4 (z_of_string d)
    | ["8"; d] -> P8 (z_of_string d)
    | ["s"; h] -> PStr (bytes_of_hex h)
    | ["s"] -> PStr []
    | ["b"; l; "NULL"] -> PBlob (z_of_string l, None)
    | ["b"; l; h] -> PBlob (z_of_string l, Some (bytes_of_hex h))
    | _ -> failwith "bad payload") (String.split_on_char ';' f)

let show_av (v:argval) : string = match v with
  | V4 b -> "4:" ^ zs b
  | V8 b -> "8:" ^ zs b
  | VStr o -> "s:" ^ zs o
  | VBlob (l, o) -> "b:" ^ zs l ^ ":" ^ zs o
  | VT true -> "T" | VT false -> "F" | V0 -> "0"

let rec range a b = if a >= b then [] else a :: range (a+1) b
let fill n = List.init n (fun _ -> z_of_int 0xAA)

(* S= N= T= G= I= [P=]; n = 0: no payload-bounds field *)
let accessors (m:z list) (n:int) : string =
  let s = get (arg_string m) in
  let na = zi (get (narguments m)) in
  let types = List.map (fun i -> get (type_at m (z_of_int i))) (range 0 na) in
  let args = List.map (fun i -> get (argument m (z_of_int i))) (range 0 na) in
  let inside = List.for_all (fun v -> match v with
      | VStr o -> (match cstr_at m o with Ok _ -> zi o < n | _ -> false)
      | VBlob (l, o) -> zi o <= n && Z.leb l (z_of_int (n - zi o))
      | _ -> true) args in
  let it = get (itr_all m) in
  Printf.sprintf " S=%s N=%d T=%s G=%s I=%s%s" (zs s) na (hex_of_bytes types)
    (if args = [] then "-" else String.concat "," (List.map show_av args))
    (if it = [] then "-" else String.concat "," (List.map (fun (t, v) -> Printf.sprintf "%02x:" (zi t) ^ show_av v) it))
    (if n > 0 then (if inside then " P=ok" else " P=out") else "")

let rec parse_tree (s:string) (i:int ref) : elem =
  if s.[!i] = 'M' then begin
    incr i; let j = ref !i in
    while !j < String.length s && (match s.[!j] with '0'..'9' | 'a'..'f' | 'A'..'F' -> true | _ -> false) do incr j done;
    let h = String.sub s !i (!j - !i) in i := !j; Msg (bytes_of_hex (if h = "" then "-" else h))
  end else begin
    incr i; let j = ref !i in
    while s.[!j] <> '(' do incr j done;
    let tt = z_of_string (String.sub s !i (!j - !i)) in
    i := !j + 1;
    let kids = ref [] in
    while s.[!i] <> ')' do kids := parse_tree s i :: !kids; if s.[!i] = ',' then incr i done;
    incr i; Bun (tt, List.rev !kids)
  end

let z4 = [Z0; Z0; Z0; Z0]
(* the memory block of the k-th element, as the harness lays it out *)
let elem_block (k:int) (b:z list) : z list =
  let magic = bytes_of_hex "2362756e646c6500" in
  let is_bun = List.length b >= 8 && List.filteri (fun i _ -> i < 8) b = magic in
  if is_bun then b @ z4 else if k mod 2 = 1 then b @ (let j = z_of_int 170 in [j; j; j; j]) else b
(* builds bottom-up with the model of rtosc_bundle, one reader record per bundle (DFS) *)
let rec build (e:elem) (buf:Buffer.t) : z list =
  match e with
  | Msg b -> b
  | Bun (tt, kids) ->
    let sub = Buffer.create 64 in
    let kb = List.map (fun k -> build k sub) kids in
    let total = List.fold_left (fun a b -> a + 4 + List.length b) 16 kb in
    let mems = List.mapi elem_block kb in
    let (r, b) = get (bundle (fill total) tt mems) in
    let ri = zi r in
    let m = b in
    let cnt = zi (get (bundle_elements m r)) in
    let es = List.map (fun i ->
        Printf.sprintf "%s:%s" (zs (get (bundle_fetch m (z_of_int i)))) (zs (get (bundle_size m (z_of_int i))))) (range 0 cnt) in
    let firstn n l = List.filteri (fun i _ -> i < n) l in
    Buffer.add_string buf (Printf.sprintf "[r=%d p=%d n=%d tt=%s L=%s e=%s b=%s]" ri
      (if get (bundle_p m) then 1 else 0) cnt (zs (get (bundle_timetag m)))
      (zs (get (message_length m r)))
      (if es = [] then "-" else String.concat "," es) (hex_of_bytes (firstn ri m)));
    Buffer.add_buffer buf sub;
    firstn ri m

let () = each_line (fun line ->
  let f = String.split_on_char ' ' line in
  let out = try (match f with
    | "msg" :: ha :: ht :: ar :: _ ->
      let a = bytes_of_hex ha and t = bytes_of_hex ht and args = parse_args ar in
      let need = get (size_null a t args) in
      let (r, bo) = get (amessage (Some (fill (zi need))) a t args) in
      let b = match bo with Some b -> b | None -> [] in
      let l = get (message_length b need) in
      Printf.sprintf "p=%s r=%s b=%s L=%s V=same A=same%s" (zs need) (zs r) (hex_of_bytes b) (zs l)
        (if zi r > 0 then accessors b 0 else "")
    | "cap" :: cap :: ha :: ht :: ar :: _ ->
      let a = bytes_of_hex ha and t = bytes_of_hex ht and args = parse_args ar in
      let need = get (size_null a t args) in
      let (r, bo) = get (amessage (Some (fill (int_of_string cap))) a t args) in
      let b = match bo with Some b -> b | None -> [] in
      Printf.sprintf "p=%s r=%s b=%s V=same A=same" (zs need) (zs r) (hex_of_bytes b)
    | "bcap" :: cap :: tt :: es :: _ ->
      let mems = if es = "-" then [] else List.mapi (fun k h -> elem_block k (bytes_of_hex h)) (String.split_on_char ',' es) in
      let (r, b) = get (bundle (fill (int_of_string cap)) (z_of_string tt) mems) in
      Printf.sprintf "r=%s b=%s" (zs r) (hex_of_bytes b)
    | "bun" :: tr :: _ ->
      let e = parse_tree tr (ref 0) in
      let buf = Buffer.create 256 in
      ignore (build e buf); Buffer.contents buf
    | "rt" :: ha :: ht :: ar :: _ ->
      let a = bytes_of_hex ha and t = bytes_of_hex ht and args = parse_args ar in
      let (r, bo) = get (amessage (Some (fill 8192)) a t args) in
      let b = match bo with Some b -> b | None -> [] in
      let got = if zi r = 0 then "EMPTY" else hex_of_bytes (List.filteri (fun i _ -> i < zi r) b) in
      Printf.sprintf "rp=%s bc=%s" got got
    | "tl" :: mm :: nm :: ha :: ht :: ar :: _ ->
      let maxmsg = int_of_string mm and nm = int_of_string nm in
      let a = bytes_of_hex ha and t = bytes_of_hex ht and args = parse_args ar in
      let (r, bo) = get (amessage (Some (fill maxmsg)) a t args) in
      let b = match bo with Some b -> b | None -> [] in
      (* accepted iff it was encoded (r > 0) and fits the free space of the empty ring *)
      let got = if zi r = 0 || zi r > maxmsg * nm - 1 then "EMPTY" else hex_of_bytes (List.filteri (fun i _ -> i < zi r) b) in
      let ts = String.concat "" (List.map (fun c -> String.make 1 (Char.chr (zi c))) t) in
      let wshape = List.mem ts ["s"; "ss"; "b"; "is"; "sb"; ""] in
      Printf.sprintf "wa=%s w=%s" got (if wshape then got else "na")
    | "sub" :: cap :: va :: vb :: vc :: _ ->
      let cap = int_of_string cap in
      if cap = 0 then "r=0 b=-" else begin
        let i32 s = let v = int_of_string s in z_of_int (if v < 0 then v + 4294967296 else v) in
        let one name v = enc_spec (bytes_of_hex name) [z_of_int 105] [P4 (i32 v)] in
        let msgs = [one "2f61" va; one "2f626364" vb; one "2f6566676869" vc] in
        let (r, b) = get (subtree_serialize (fill cap) msgs) in
        Printf.sprintf "r=%s b=%s" (zs r) (hex_of_bytes b) end
    | "pm" :: h :: _ -> Printf.sprintf "p=%d" (if get (bundle_p (bytes_of_hex h)) then 1 else 0)
    | "ring" :: h :: cut :: _ ->
      let m = bytes_of_hex h in
      let n = List.length m in
      let cut = min (int_of_string cut) n in
      let s0 = List.filteri (fun i _ -> i < cut) m and s1 = List.filteri (fun i _ -> i >= cut) m in
      let l = get (message_ring_length { d0 = s0; n0 = z_of_int cut; d1 = s1; n1 = z_of_int (n - cut) }) in
      Printf.sprintf "RL=%s" (zs l)
    | "raw" :: h :: _ ->
      let m = bytes_of_hex h in
      let n = z_of_int (List.length m) in
      let l = get (message_length m n) in
      let v = get (valid_message_p m n) in
      Printf.sprintf "L=%s V=%d%s" (zs l) (if v then 1 else 0) (if v then accessors m (List.length m) else "")
    | _ -> "BADCASE") with Stop s -> s in
  print_endline out)
