From Coq Require Import ExtrOcamlBasic ZArith.
From RtoscV Require Import Ring.RingModel Ring.RingFrame.
Extraction "model.ml" Z.add Z.mul Z.opp init step settle macro_step finished quiet ring_length.
