(* C06 model driver: one output line per case line.
   case:  ring <N> <MM> <wscript> <rscript> <sched> [ignored fields...]
            wscript  comma list of  r<hex> (raw_write)  a<hex> (writeArray)  v<hex> (write), or -
            rscript  comma list of  h0 h1 (hasNext / hasNextLookahead)  t0 t1 (if(hasNext) read), or -
            sched    W R = one hook-level step of that thread; w r = run that
                     thread's current operation to its end; after the
                     schedule the writer, then the reader run to completion
          soak ...   (free-running two-thread run; the model has nothing to say)
   output: ev=<T><id>:<w>,<r>,<rl>,<bufhash>;... wo=A|D,... ro=H<la>:<b>,R<la>:<hex>,... fin=<w>,<r>,<rl>,<bufhex> err=<0|1> *)

let fnv (l : z list) : int =
  List.fold_left (fun h b -> ((h lxor (int_of_z b)) * 16777619) land 0xffffffff) 2166136261 l

let wid (p : wpc) : int = match p with
  | WIdle -> 0 | WSizeW _ -> 3 | WSizeR _ -> 4 | WNextW _ -> 5 | WCmpW _ -> 6 | WW1 _ -> 7
  | WBase1 _ -> 8 | WCopy1 _ -> 80 | WCopy2 _ -> 9 | WBaseC _ -> 10 | WCopyC _ -> 100 | WPublish _ -> 11
let rid (p : rpc) : int = match p with
  | RIdle -> 0 | RHasW _ -> 1 | RHasR _ -> 2 | RVecW _ -> 1 | RVecR _ -> 2 | RVecB _ -> 18
  | RFrame _ -> 19 | RReadR _ -> 12 | RCopy1 _ -> 13 | RCopy2 _ -> 14 | RCopyC _ -> 15
  | RStoreLA _ -> 16 | RStoreR _ -> 17 | RStoreRL _ -> 170

let parse_w (f : string) : wop list =
  if f = "-" then [] else
  List.map (fun o ->
    let h = String.sub o 1 (String.length o - 1) in
    match o.[0] with
    | 'r' -> WRaw (bytes_of_hex h)
    | _ -> WArr (bytes_of_hex h)) (split_on ',' f)
let parse_r (f : string) : rop list =
  if f = "-" then [] else
  List.map (fun o ->
    let la = o.[1] = '1' in
    match o.[0] with 'h' -> RHas la | _ -> RTry la) (split_on ',' f)

let () = each_line (fun line ->
  match String.split_on_char ' ' line with
  | "ring" :: sn :: smm :: fw :: fr :: sched :: _ ->
    let n = z_of_int (int_of_string sn) and mm = z_of_int (int_of_string smm) in
    let fuel = nat_of_int (2 * int_of_string sn + 16) in
    let ws = parse_w fw and rs = parse_r fr in
    let s = ref (init n ws rs) in
    let ev = Buffer.create 256 in
    s := settle n mm ring_length fuel !s Wr;
    s := settle n mm ring_length fuel !s Rd;
    let remaining t = match t with Wr -> List.length (!s).wscr | Rd -> List.length (!s).rscr in
    let hook t =
      if not (finished !s t) then begin
        let st = !s in
        let id = match t with Wr -> wid st.wp | Rd -> rid st.rp in
        Buffer.add_string ev (Printf.sprintf "%s%d:%d,%d,%d,%08x;" (match t with Wr -> "W" | Rd -> "R") id
          (int_of_z st.iw) (int_of_z st.ir) (int_of_z st.irl) (fnv st.buf));
        s := macro_step n mm ring_length fuel st t
      end in
    let whole t =
      let before = remaining t in
      let continue = ref (not (finished !s t)) in
      while !continue do
        hook t;
        if finished !s t || remaining t < before then continue := false
      done in
    String.iter (fun c -> match c with
      | 'W' -> hook Wr | 'R' -> hook Rd | 'w' -> whole Wr | 'r' -> whole Rd | _ -> ()) sched;
    while not (finished !s Wr) do hook Wr done;
    while not (finished !s Rd) do hook Rd done;
    let st = !s in
    let wo = List.filter_map (fun o -> match o with OAcc _ -> Some "A" | ODrop _ -> Some "D" | _ -> None) st.out in
    let ro = List.filter_map (fun o -> match o with
      | OHas (la, b, _, _, _) -> Some (Printf.sprintf "H%d:%d" (if la then 1 else 0) (if b then 1 else 0))
      | ORead (la, bs) -> Some (Printf.sprintf "R%d:%s" (if la then 1 else 0) (hex_of_bytes bs))
      | _ -> None) st.out in
    let cat l = if l = [] then "-" else String.concat "," l in
    Printf.printf "ev=%s wo=%s ro=%s fin=%d,%d,%d,%s err=%d\n"
      (if Buffer.length ev = 0 then "-" else Buffer.contents ev) (cat wo) (cat ro)
      (int_of_z st.iw) (int_of_z st.ir) (int_of_z st.irl) (hex_of_bytes st.buf)
      (if st.err then 1 else 0)
  | "soak" :: _ -> print_endline "soak ok"
  | _ -> print_endline "BADCASE")
