(* C03 model driver.  The model is the regenerated call graph; for a case
   line whose second field is g=<id>,<id>,... (the groups of RT entry points
   the case exercises) it prints
     clean   no forbidden symbol is reachable from any entry of those groups
     reach   some forbidden symbol is reachable
     FUEL    the search ran out of fuel (never happens: fuel = #roots + #edges + 1) *)
let n_of_int (i:int) : n = if i = 0 then N0 else Npos (pos_of_int i)
let memo : (int, bool option) Hashtbl.t = Hashtbl.create 16
let verdict (g:int) : bool option =
  match Hashtbl.find_opt memo g with
  | Some v -> v
  | None ->
    let v = group_clean direct indirect_table excluded forbidden (assoc_group entry_groups (n_of_int g)) in
    Hashtbl.add memo g v; v
let () = each_line (fun line ->
  match String.split_on_char ' ' line with
  | _ :: gs :: _ when String.length gs > 2 && String.sub gs 0 2 = "g=" ->
    let ids = List.map int_of_string (split_on ',' (String.sub gs 2 (String.length gs - 2))) in
    let vs = List.map verdict ids in
    if List.mem None vs then print_endline "FUEL"
    else if List.for_all (fun v -> v = Some true) vs then print_endline "clean"
    else print_endline "reach"
  | _ -> print_endline "BADCASE")
