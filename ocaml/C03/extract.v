From Coq Require Import ExtrOcamlBasic NArith ZArith.
From RtoscV Require Import RtGraph.ReachModel RtGraph.Graph_gen.
Extraction "model.ml" Z.add Z.mul Z.opp group_clean assoc_group direct indirect_table excluded forbidden entry_groups entries.
