(* C17 model driver: one output line per case line
   case:   meta <hexblock> <hexkey>,<hexkey>,...
   output: it=<t>:<v>;... len=<n> q=<t>:<v>,...      (offsets from the block start, -1 = NULL)
           OOB if the model reads outside the block *)
(* the C string at an offset of the block (what a returned pointer leads to) *)
let cstr_at (whole : z list) (o : int) : string =
  if o < 0 then "~" else begin
    let rec drop n l = if n = 0 then l else match l with [] -> [] | _ :: t -> drop (n - 1) t in
    let rec upto l = match l with [] -> [] | c :: t -> if int_of_z c = 0 then [] else c :: upto t in
    hex_of_bytes (upto (drop o whole))
  end

let () = each_line (fun line ->
  match String.split_on_char ' ' line with
  | "meta" :: hb :: hk :: _ ->
    let whole = bytes_of_hex hb in
    let keys = List.map bytes_of_hex (split_on ',' hk) in
    let out =
      match meta whole with
      | None -> "OOB"
      | Some p ->
        let its = match begin_ p with
          | None -> None
          | Some it -> iterate_pos_from whole (nat_of_int (List.length p + 1)) it in
        (match its, length_ p with
         | Some ps, Some n ->
           let qs = List.map (fun k -> match find p k with
               | None -> "OOB"
               | Some it -> Printf.sprintf "%d:%d" (int_of_z (off whole it.title))
                              (match it.title with Null -> -1 | At _ -> int_of_z (off whole it.value))) keys in
           let ents = List.map (fun (t,v) ->
               cstr_at whole (int_of_z t) ^ (if int_of_z v < 0 then "" else "=" ^ cstr_at whole (int_of_z v))) ps in
           let qvs = List.map (fun k -> match find p k with
               | None -> "OOB"
               | Some it -> (match it.title with Null -> "~" | At _ ->
                   (match it.value with Null -> "~" | At _ -> cstr_at whole (int_of_z (off whole it.value))))) keys in
           Printf.sprintf "it=%s len=%d q=%s ent=%s qv=%s"
             (String.concat ";" (List.map (fun (t,v) -> Printf.sprintf "%d:%d" (int_of_z t) (int_of_z v)) ps))
             (int_of_z n) (String.concat "," qs) (String.concat ";" ents) (String.concat "," qvs)
         | _ -> "OOB")
    in print_endline out
  | _ -> print_endline "BADCASE")
