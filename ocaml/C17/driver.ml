(* C17 model driver: one output line per case line
   case:   meta <hexblock> <hexkey>,<hexkey>,...
   output: it=<t>:<v>;... len=<n> q=<t>:<v>,...      (offsets from the block start, -1 = NULL)
           OOB if the model reads outside the block *)
let () = each_line (fun line ->
  match String.split_on_char ' ' line with
  | "meta" :: hb :: hk :: _ ->
    let whole = bytes_of_hex hb in
    let keys = List.map bytes_of_hex (split_on ',' hk) in
    let out =
      match meta whole with
      | None -> "OOB"
      | Some p ->
        let its = match begin_ p with
          | None -> None
          | Some it -> iterate_pos_from whole (nat_of_int (List.length p + 1)) it in
        (match its, length_ p with
         | Some ps, Some n ->
           let qs = List.map (fun k -> match find p k with
               | None -> "OOB"
               | Some it -> Printf.sprintf "%d:%d" (int_of_z (off whole it.title))
                              (match it.title with Null -> -1 | At _ -> int_of_z (off whole it.value))) keys in
           Printf.sprintf "it=%s len=%d q=%s"
             (String.concat ";" (List.map (fun (t,v) -> Printf.sprintf "%d:%d" (int_of_z t) (int_of_z v)) ps))
             (int_of_z n) (String.concat "," qs)
         | _ -> "OOB")
    in print_endline out
  | _ -> print_endline "BADCASE")
