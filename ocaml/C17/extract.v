From Coq Require Import ExtrOcamlBasic ZArith.
From RtoscV Require Import Ports.MetaModel.
Extraction "model.ml" Z.add Z.mul Z.opp meta begin_ iterate iterate_pos_from find off length_ lookup present render.
