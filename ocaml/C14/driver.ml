(* C14 model driver: one output line per case line (format: harness/h_C14.cpp)
   case:   sugar <kind> <depth> <name> <N> <mintext> <maxtext> <opts> <init> <ops> <minconv> <maxconv> [<tv0>] ...
   The model gets the converted bounds (fields 10, 11: decimal for the integer
   kinds, 8 hex digits = float bit pattern for F / AF), never the text. *)
let chars_of_string (s:string) : z list = List.init (String.length s) (fun i -> z_of_int (Char.code s.[i]))
let string_of_chars (l:z list) : string = String.concat "" (List.map (fun c -> String.make 1 (Char.chr (int_of_z c land 255))) l)
let z_of_hex8 (h:string) : z = z_of_string (Printf.sprintf "%d" (int_of_string ("0x" ^ h)))
let hex8_of_z (b:z) : string = Printf.sprintf "%08x" (int_of_z b)

let kind_of = function
  | "P" -> KP | "F" -> KF | "I" -> KI | "O" | "OE" | "OM" -> KO | "T" -> KT
  | "S1" -> KS (z_of_int 1) | "S5" -> KS (z_of_int 5) | "S16" -> KS (z_of_int 16)
  | "AI" | "PA" | "AIW" -> KAI | "AF" -> KAF | "AO" -> KAO | "AT" -> KAT
  | "PS" -> KPS (z_of_int 16)
  | "CO" -> KCO | "ATM" -> KATM
  | _ -> failwith "kind"
let is_float k = (k = "F" || k = "AF")
let is_str k = (k = "S1" || k = "S5" || k = "S16")

let show_arg = function
  | Ai v | Ac v -> Some (string_of_int (int_of_z v))
  | Af b -> Some (hex8_of_z b)
  | As s | ASy s -> Some (hex_of_bytes s)
  | Ab d -> Some (hex_of_bytes d)
  | ATrue | AFalse -> None
let tag_char a = String.make 1 (Char.chr (int_of_z (tag a)))
let show_msg (m:omsg) =
  Printf.sprintf "%s:%s:%s" (string_of_chars m.o_path)
    (String.concat "" (List.map tag_char m.o_args))
    (String.concat "," (List.filter_map show_arg m.o_args))
let show_out = function
  | Reply m -> "r:" ^ show_msg m
  | Bcast m -> "b:" ^ show_msg m

let parse_val (v:string) : arg =
  let rest = String.sub v 1 (String.length v - 1) in
  match v.[0] with
  | 'i' -> Ai (z_of_string rest)
  | 'c' -> Ac (z_of_string rest)
  | 'f' -> Af (z_of_hex8 rest)
  | 'S' -> ASy (bytes_of_hex rest)
  | 's' -> As (bytes_of_hex rest)
  | 'T' -> ATrue
  | 'F' -> AFalse
  | _ -> failwith "val"

let () = each_line (fun line ->
  match String.split_on_char ' ' line with
  | "sugar" :: kind :: depth :: name :: n :: _ :: _ :: opts :: init :: ops :: minc :: maxc :: rest ->
    (try
      let k = kind_of kind in
      let conv s = if s = "-" then None else Some (if is_float kind then z_of_hex8 s else z_of_string s) in
      let mp = if opts = "-" then [] else
          List.map (fun kv -> match String.index_opt kv '=' with
              | Some p -> (z_of_string (String.sub kv 0 p), chars_of_string (String.sub kv (p+1) (String.length kv - p - 1)))
              | None -> failwith "opt") (split_on ',' opts) in
      let arrayk = (match k with KAI | KAF | KAO | KAT | KATM -> true | _ -> false) in
      let e = { p_name = chars_of_string name; p_hash = arrayk; p_min = conv minc; p_max = conv maxc; p_map = mp } in
      let st0 = if is_str kind then bytes_of_hex init
        else List.map (fun s -> if is_float kind then z_of_hex8 s else z_of_string s) (split_on ',' init) in
      let st = ref st0 in
      (* the top-level table's own parameter: rParamI(tv, rLinear(-50, 50)) at "/tv" *)
      let e_top = { p_name = chars_of_string "tv"; p_hash = false; p_min = Some (z_of_int (-50)); p_max = Some (z_of_int 50); p_map = [] } in
      let tv = ref [ (match rest with t :: _ when t <> "-" -> z_of_string t | _ -> z_of_int 0) ] in
      let below = if kind = "OM" then "om/" else "sub/" in
      let pieces = List.map (fun o ->
          let body = String.sub o 1 (String.length o - 1) in
          let idx, args = match String.index_opt body '=' with
            | None -> body, []
            | Some p -> String.sub body 0 p, [parse_val (String.sub body (p+1) (String.length body - p - 1))] in
          let m = name ^ idx in
          let loc = "/" ^ (if depth = "1" then below else "") ^ m in
          if o.[0] = 't' then begin
            if depth <> "1" then "BADOP"
            else match step KI e_top (chars_of_string "/tv") (chars_of_string "tv") !tv args with
              | None -> "NONE"
              | Some (tv', outs) ->
                tv := tv';
                if outs = [] then "-" else String.concat "+" (List.map show_out outs)
          end
          else if not (dispatch_guard k (z_of_string n) (chars_of_string idx) args) then "NOMATCH"
          else match step k e (chars_of_string loc) (chars_of_string m) !st args with
            | None -> "NONE"
            | Some (st', outs) ->
              st := st';
              if outs = [] then "-" else String.concat "+" (List.map show_out outs)) (split_on ';' ops) in
      let state =
        if is_str kind then hex_of_bytes !st
        else String.concat "," (List.map (fun v -> if is_float kind then hex8_of_z v else string_of_int (int_of_z v)) !st) in
      let top = if depth = "1" then "@" ^ String.concat "," (List.map (fun v -> string_of_int (int_of_z v)) !tv) else "" in
      print_endline (String.concat ";" pieces ^ "#" ^ state ^ top)
    with Failure m -> print_endline ("BADCASE " ^ m))
  | _ -> print_endline "BADCASE")
