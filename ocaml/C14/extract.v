From Coq Require Import ExtrOcamlBasic ZArith.
From RtoscV Require Import Ports.SugarModel.
Extraction "model.ml" Z.add Z.mul Z.opp step dispatch_guard tag.
