From Coq Require Import ExtrOcamlBasic ZArith.
From RtoscV Require Import Undo.UndoModel.
Extraction "model.ml" Z.add Z.mul Z.opp Z.modulo init step estep zero_store.
