From Coq Require Import ExtrOcamlBasic ZArith.
From RtoscV Require Import Ports.SugarModel Undo.UndoModel Undo.UndoPortsModel.
Extraction "model.ml" Z.add Z.mul Z.opp Z.modulo init hstep pstep tag.
