(* C15 model driver: one output line per case line (format: harness/h_C15.cpp) *)
let u32 (s:string) : z = z_of_string s
let show_u32 (x:z) : string = z_to_string x
let ty_of (s:string) : z = z_of_int (Char.code s.[0])
let show_ty (t:z) : string = String.make 1 (Char.chr (int_of_z t))
let show_msg = function
  | SetMsg (a, ty, v) -> Printf.sprintf "%s/%s/%s" (hex_of_bytes a) (show_ty ty) (show_u32 v)
let show_hist (s:hstate) : string =
  Printf.sprintf "p=%d n=%d h=%s" (int_of_nat s.pos) (List.length s.hist)
    (String.concat ";" (List.map (fun e ->
       Printf.sprintf "%s/%s/%s/%s" (hex_of_bytes e.eaddr) (show_ty e.ety) (show_u32 e.eold) (show_u32 e.enew)) s.hist))
let show_seek (s:hstate) ms =
  Printf.sprintf "m=%s p=%d n=%d" (String.concat ";" (List.map show_msg ms)) (int_of_nat s.pos) (List.length s.hist)
(* a 'c' port stores a char: the value read back is the sign-extended low byte *)
let bytes_of_string (s:string) : z list = List.init (String.length s) (fun i -> z_of_int (Char.code s.[i]))
let s32_of_u32 (x:z) : int = let v = int_of_z x in if v >= 0x80000000 then v - 0x100000000 else v
let u32_of_int (v:int) : z = z_of_int (if v < 0 then v + 0x100000000 else v)

let run_hist ops =
  let st = ref init in
  let outs = List.map (fun o ->
    match String.split_on_char ':' o with
    | ["r"; a; ty; old; nw] ->
      (match hstep !st (Record (bytes_of_hex a, ty_of ty, u32 old, u32 nw)) with
       | Some (s, _) -> st := s; show_hist s
       | None -> "OOB")
    | ["s"; k] ->
      (match hstep !st (Seek (z_of_string k)) with
       | Some (s, ms) -> st := s; show_seek s ms
       | None -> "OOB")
    | ["t"; d] ->
      (match hstep !st (Tick (z_of_string d)) with
       | Some (s, _) -> st := s; "-"
       | None -> "OOB")
    | _ -> "BADOP") ops in
  String.concat "|" outs

(* e2e: the port table comes with the case line (field 3):
   name:kind:N:min:max:opts joined by ','   kind as in the C14 case lines, min/max decimal
   (float kinds: the binary32 bit pattern), opts k=sym/k=sym or '-' *)
let u32_of_z (v:z) : string =
  let i = int_of_z v in string_of_int (if i < 0 then i + 0x100000000 else i)
let parse_port (d:string) =
  match String.split_on_char ':' d with
  | [name; kind; n; mn; mx; opts] ->
    let n = int_of_string n in
    let k = (match kind with
        | "P" -> KP | "F" -> KF | "I" -> KI | "O" -> KO | "T" -> KT
        | "AI" | "PA" -> KAI | "AF" -> KAF | "AO" -> KAO | "AT" -> KAT
        | "PS" -> KPS (z_of_int n)
        | "CO" -> KCO
        | _ -> failwith "kind") in
    let arrayk = (match k with KAI | KAF | KAO | KAT -> true | _ -> false) in
    let conv t = if t = "-" then None else Some (z_of_string t) in
    let mp = if opts = "-" then [] else
        List.map (fun kv -> match String.index_opt kv '=' with
            | Some p -> (z_of_string (String.sub kv 0 p), bytes_of_string (String.sub kv (p+1) (String.length kv - p - 1)))
            | None -> failwith "opt") (String.split_on_char '/' opts) in
    let e = { p_name = bytes_of_string name; p_hash = arrayk; p_min = conv mn; p_max = conv mx; p_map = mp } in
    ({ pk = k; pe = e; pn = z_of_int n }, List.init (if arrayk || kind = "PS" then n else if kind = "CO" then 2 else 1) (fun _ -> Z0))
  | _ -> failwith "port"
let parse_arg (v:string) : arg =
  let rest = String.sub v 1 (String.length v - 1) in
  match v.[0] with
  | 'i' -> Ai (z_of_string rest)
  | 'c' -> Ac (z_of_string rest)
  | 'f' -> Af (z_of_string rest)
  | 'S' -> ASy (bytes_of_hex rest)
  | 'T' -> ATrue
  | 'F' -> AFalse
  | _ -> failwith "val"
let show_hist_e2e (s:hstate) : string =
  Printf.sprintf "p=%d n=%d h=%s" (int_of_nat s.pos) (List.length s.hist)
    (String.concat ";" (List.map (fun e ->
       Printf.sprintf "%s/%s/%s/%s" (hex_of_bytes e.eaddr) (show_ty e.ety) (u32_of_z e.eold) (u32_of_z e.enew)) s.hist))
let show_msg_e2e = function
  | SetMsg (a, ty, v) -> Printf.sprintf "%s/%s/%s" (hex_of_bytes a) (show_ty ty) (u32_of_z v)
let run_e2e ops table =
  let st = ref (List.map parse_port (String.split_on_char ',' table), init) in
  let show_app n =
    let cells = List.filter (fun (c, _) -> match c.pk with KPS _ -> false | _ -> true) (fst !st) in
    let show_cell (c, vs) = List.map (fun v -> match c.pk with
        | KF | KAF -> u32_of_z v | _ -> string_of_int (int_of_z v)) vs in
    Printf.sprintf " hit=%d a=%s" (int_of_z n) (String.concat "," (List.concat (List.map show_cell cells))) in
  let outs = List.map (fun o ->
    match String.split_on_char ':' o with
    | ["c"; p; v] ->
      (match pstep !st (PSet (bytes_of_string p, [parse_arg v])) with
       | Some ((s, _), n) -> st := s; show_hist_e2e (snd s) ^ show_app n
       | None -> "NONE")
    | ["q"; p] ->
      (match pstep !st (PSet (bytes_of_string p, [])) with
       | Some ((s, _), n) -> st := s; show_hist_e2e (snd s) ^ show_app n
       | None -> "NONE")
    | ["s"; k] ->
      (match pstep !st (PSeek (z_of_string k)) with
       | Some ((s, ms), n) -> st := s;
         Printf.sprintf "m=%s p=%d n=%d" (String.concat ";" (List.map show_msg_e2e ms)) (int_of_nat (snd s).pos) (List.length (snd s).hist)
         ^ show_app n
       | None -> "NONE")
    | ["t"; d] ->
      (match pstep !st (PTick (z_of_string d)) with
       | Some ((s, _), n) -> st := s; "-" ^ show_app n
       | None -> "NONE")
    | _ -> "BADOP") ops in
  String.concat "|" outs

let () = each_line (fun line ->
  match String.split_on_char ' ' line with
  | kind :: ops :: rest ->
    let ops = if ops = "-" then [] else String.split_on_char ',' ops in
    (match kind, rest with
     | "hist", _ -> print_endline (run_hist ops)
     | "e2e", table :: _ -> (try print_endline (run_e2e ops table) with Failure m -> print_endline ("BADCASE " ^ m))
     | _ -> print_endline "BADCASE")
  | _ -> print_endline "BADCASE")
