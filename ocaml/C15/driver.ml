(* C15 model driver: one output line per case line (format: harness/h_C15.cpp) *)
let u32 (s:string) : z = z_of_string s
let show_u32 (x:z) : string = z_to_string x
let ty_of (s:string) : z = z_of_int (Char.code s.[0])
let show_ty (t:z) : string = String.make 1 (Char.chr (int_of_z t))
let show_msg = function
  | SetMsg (a, ty, v) -> Printf.sprintf "%s/%s/%s" (hex_of_bytes a) (show_ty ty) (show_u32 v)
let show_hist (s:hstate) : string =
  Printf.sprintf "p=%d n=%d h=%s" (int_of_nat s.pos) (List.length s.hist)
    (String.concat ";" (List.map (fun e ->
       Printf.sprintf "%s/%s/%s/%s" (hex_of_bytes e.eaddr) (show_ty e.ety) (show_u32 e.eold) (show_u32 e.enew)) s.hist))
let show_seek (s:hstate) ms =
  Printf.sprintf "m=%s p=%d n=%d" (String.concat ";" (List.map show_msg ms)) (int_of_nat s.pos) (List.length s.hist)
(* a 'c' port stores a char: the value read back is the sign-extended low byte *)
let bytes_of_string (s:string) : z list = List.init (String.length s) (fun i -> z_of_int (Char.code s.[i]))
let s32_of_u32 (x:z) : int = let v = int_of_z x in if v >= 0x80000000 then v - 0x100000000 else v
let u32_of_int (v:int) : z = z_of_int (if v < 0 then v + 0x100000000 else v)

let run_hist ops =
  let st = ref init in
  let outs = List.map (fun o ->
    match String.split_on_char ':' o with
    | ["r"; a; ty; old; nw] ->
      (match step !st (Record (bytes_of_hex a, ty_of ty, u32 old, u32 nw)) with
       | Some (s, _) -> st := s; show_hist s
       | None -> "OOB")
    | ["s"; k] ->
      (match step !st (Seek (z_of_string k)) with
       | Some (s, ms) -> st := s; show_seek s ms
       | None -> "OOB")
    | ["t"; d] ->
      (match step !st (Tick (z_of_string d)) with
       | Some (s, _) -> st := s; "-"
       | None -> "OOB")
    | _ -> "BADOP") ops in
  String.concat "|" outs

let run_e2e ops =
  let st = ref (zero_store, init) in
  let show_app () =
    let f = fst !st in
    Printf.sprintf " a=%d,%d,%d,%s,%s,%s,%s" (s32_of_u32 (f (bytes_of_string "/b"))) (s32_of_u32 (f (bytes_of_string "/i")))
      (s32_of_u32 (f (bytes_of_string "/j"))) (show_u32 (f (bytes_of_string "/x"))) (show_u32 (f (bytes_of_string "/a0")))
      (show_u32 (f (bytes_of_string "/a1"))) (show_u32 (f (bytes_of_string "/a2"))) in
  let outs = List.map (fun o ->
    match String.split_on_char ':' o with
    | ["c"; p; v] ->
      let isf = (p = "x" || p.[0] = 'a') in
      let ty = if p = "b" then "c" else if isf then "f" else "i" in
      let value = if isf then u32 v else u32_of_int (int_of_string v) in
      (match estep !st (Change (bytes_of_string ("/" ^ p), ty_of ty, value)) with
       | Some (s, _) -> st := s; show_hist (snd s) ^ show_app ()
       | None -> "OOB")
    | ["s"; k] ->
      (match estep !st (ESeek (z_of_string k)) with
       | Some (s, ms) -> st := s; show_seek (snd s) ms ^ show_app ()
       | None -> "OOB")
    | ["t"; d] ->
      (match estep !st (ETick (z_of_string d)) with
       | Some (s, _) -> st := s; "-" ^ show_app ()
       | None -> "OOB")
    | _ -> "BADOP") ops in
  String.concat "|" outs

let () = each_line (fun line ->
  match String.split_on_char ' ' line with
  | kind :: ops :: _ ->
    let ops = if ops = "-" then [] else String.split_on_char ',' ops in
    (match kind with
     | "hist" -> print_endline (run_hist ops)
     | "e2e" -> print_endline (run_e2e ops)
     | _ -> print_endline "BADCASE")
  | _ -> print_endline "BADCASE")
