(* C18 model driver: one output line per case line (formats: harness/h_C18.cpp) *)
let rec parse_ports (toks : string list) : port list * string list =
  match toks with
  | n :: rest ->
    let n = int_of_string n in
    let rec go k toks acc =
      if k = 0 then (List.rev acc, toks)
      else match toks with
        | hn :: hm :: fl :: rest ->
          let meta = if hm = "N" then None else Some (bytes_of_hex hm) in
          if fl = "1" then
            let (sub, rest') = parse_ports rest in
            go (k-1) rest' (Port (bytes_of_hex hn, meta, Some sub) :: acc)
          else go (k-1) rest (Port (bytes_of_hex hn, meta, None) :: acc)
        | _ -> failwith "tree" in
    go n rest []
  | [] -> failwith "tree"
let parse_tree (s : string) : port list = fst (parse_ports (String.split_on_char ',' s))


(* raw port tree -> structured tree (literal runs and '#<digits>'); names_ok is
   evaluated on it only if it renders back to the raw tree that was run *)
let rec parse_segs (s : z list) : seg list =
  let is_digit c = let v = int_of_z c in v >= 48 && v <= 57 in
  let rec lit acc s = match s with
    | c :: t when int_of_z c <> 35 -> lit (c :: acc) t
    | _ -> (List.rev acc, s) in
  match s with
  | [] -> []
  | c :: t when int_of_z c = 35 ->
    let rec digs acc s = match s with d :: r when is_digit d -> digs (d :: acc) r | _ -> (List.rev acc, s) in
    let (ds, rest) = digs [] t in
    let n = List.fold_left (fun a d -> Z.add (Z.mul a (z_of_int 10)) (z_of_int (int_of_z d - 48))) Z0 ds in
    Enum n :: parse_segs rest
  | _ -> let (l, rest) = lit [] s in Lit l :: parse_segs rest
let rec structure (p : port) : sport =
  let Port (name, meta, sub) = p in
  let rec split acc s = match s with
    | c :: t when int_of_z c <> 58 -> split (c :: acc) t
    | _ -> (List.rev acc, s) in
  let (path, args) = split [] name in
  (* a sub-tree name is structured by components: every literal cut behind each of its '/' *)
  let rec cut acc cur s = match s with
    | [] -> List.rev (if cur = [] then acc else Lit (List.rev cur) :: acc)
    | c :: t when int_of_z c = 47 -> cut (Lit (List.rev (c :: cur)) :: acc) [] t
    | c :: t -> cut acc (c :: cur) t in
  let comps l = List.concat (List.map (fun sg -> match sg with Lit t -> cut [] [] t | e -> [e]) l) in
  let segs = parse_segs path in
  SPort ((if sub = None then segs else comps segs), args, meta,
         (match sub with Some l -> Some (List.map structure l) | None -> None))
(* names_ok and the predicates of Ports/LookupSpec.v, one bit each (compared with the
   generator's mirrors by the plug-in) *)
let names_bits (t : port list) : string =
  let st = List.map structure t in
  let rt = List.map render_port st = t in
  String.concat "" (List.map (fun g -> if rt && g st then "1" else "0")
    [names_ok; names_shape; enums_pos; sibling_prefix_free; key_prefix_free; no_digit_facing])
let show_id (id : nat list) = String.concat "." (List.map (fun n -> string_of_int (int_of_nat n)) id)
let show_ares = function
  | ANull -> "-" | AFound id -> show_id id | ACrash -> "CRASH" | AUnsupported -> "UNSUP"
let show_entry (e : hit) =
  Printf.sprintf "%s:%d:%s"
    (match e.e_name with Some n -> hex_of_bytes n | None -> "NULL")
    (int_of_z e.e_len)
    (match e.e_data with Some d -> hex_of_bytes d | None -> "N")
let opt_of = function "0" -> Unmodified | "1" -> Sorted | _ -> SortedUniquePrefix
let show_sres = function SOk _ -> "OK" | SOob -> "OOB" | SUnsupported -> "UNSUP" | SCrash -> "CRASH"

let () = each_line (fun line ->
  let out =
    try
      match String.split_on_char ' ' line with
      | "collapse" :: hp :: _ ->
        let p = bytes_of_hex hp in
        (match collapse p with
         | COk (b, pos) ->
           let pos = int_of_nat pos in
           let rec drop k l = if k = 0 then l else match l with [] -> [] | _ :: t -> drop (k-1) t in
           Printf.sprintf "off=%d str=%s buf=%s" pos (hex_of_bytes (drop pos b)) (hex_of_bytes b)
         | COob -> "OOB" | CFuel -> "FUEL")
      | "lookup" :: tr :: addrs :: names :: _ ->
        let t = parse_tree tr in
        let a = List.map (fun h -> show_ares (apropos t (bytes_of_hex h))) (split_on ';' addrs) in
        let i = List.map (fun h -> match index_op t (bytes_of_hex h) with
            | Some n -> string_of_int (int_of_nat n) | None -> "-") (split_on ';' names) in
        Printf.sprintf "a=%s i=%s ok=%s" (String.concat ";" a) (String.concat ";" i) (names_bits t)
      | "search" :: tr :: hl :: hn :: o :: bs :: rq :: _ ->
        let t = parse_tree tr in
        let loc = bytes_of_hex hl and needle = bytes_of_hex hn in
        let opt = opt_of o in
        (match path_search t loc needle opt with
         | SOk es ->
           let bufsize = int_of_string bs in
           let buf = List.init bufsize (fun _ -> z_of_int 0xAA) in
           let m = match path_search_msg t loc needle opt (rq = "1") buf with
             | ROk (n, b) ->
               let n = int_of_z n in
               let rec take k l = if k = 0 then [] else match l with [] -> [] | x :: r -> x :: take (k-1) r in
               Printf.sprintf "%d:%s" n (hex_of_bytes (take n b))
             | RFail w -> show_sres w in
           Printf.sprintf "q=%s n=%d e=%s msg=%s"
             (if rq = "1" then hl ^ ":" ^ hn else "N") (List.length es)
             (if es = [] then "-" else String.concat ";" (List.map show_entry es)) m
         | w -> show_sres w)
      | _ -> "BADCASE"
    with _ -> "BADCASE" in
  print_endline out)
