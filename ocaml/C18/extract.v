From Coq Require Import ExtrOcamlBasic ZArith.
From RtoscV Require Import Ports.NameModel Ports.PathModel Ports.WalkModel Ports.NamesModel Ports.LookupSpec.
Extraction "model.ml" Z.add Z.mul Z.opp collapse index_op apropos path_search path_search_msg get_port names_ok render_port names_shape enums_pos sibling_prefix_free key_prefix_free no_digit_facing.
