From Coq Require Import ExtrOcamlBasic ZArith.
From RtoscV Require Import Ports.NameModel Ports.PathModel Ports.WalkModel Ports.NamesModel.
Extraction "model.ml" Z.add Z.mul Z.opp collapse index_op apropos path_search path_search_msg get_port names_ok render_port.
