From Coq Require Import ExtrOcamlBasic ZArith.
From RtoscV Require Import Match.PatSpec Match.MatchModel Ports.DispatchModel Ports.DispatchReuse.
Extraction "model.ml" Z.add Z.mul Z.opp dispatch dispatch_reused tables_of tab_of subs_of.
