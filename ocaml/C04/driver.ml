(* C04 model driver: same case lines and output format as harness/h_C04.cpp *)
let ints s = if s = "-" || s = "?" then [] else List.map int_of_string (String.split_on_char '_' s)

let rec parse (tk : string array) (k : int ref) : tree =
  if tk.(!k) <> "T" then failwith "T";
  let tid = int_of_string tk.(!k + 1) in
  let dflt = tk.(!k + 2) = "1" in
  let n = int_of_string tk.(!k + 3) in
  let pos = ints tk.(!k + 4) in
  let sparse = ints tk.(!k + 5) in
  let assoc =
    if pos = [] then []
    else begin
      let a = Array.make 256 0 in
      let rec fill = function
        | c :: v :: r -> (if c >= 0 && c < 256 then a.(c) <- v); fill r
        | _ -> () in
      fill sparse; Array.to_list a
    end in
  k := !k + 6;
  let ports = ref [] and subs = ref [] in
  for _ = 1 to n do
    let name = bytes_of_hex tk.(!k) in
    let hs = tk.(!k + 1) = "1" in
    k := !k + 2;
    let sub = if hs then Some (parse tk k) else None in
    ports := (name, hs) :: !ports;
    subs := sub :: !subs
  done;
  Node ({ t_id = z_of_int tid; t_dflt = dflt; t_ports = List.rev !ports;
          t_pos = List.map z_of_int pos; t_assoc = List.map z_of_int assoc }, List.rev !subs)

let lochex = function None -> "~" | Some l -> hex_of_bytes l

let show_event (alen : int) (e : event) : string =
  match e with
  | Ev (tid, i, msg, o, l, p, leaf) ->
    let pok = match p with Some (a, b) -> int_of_z a = int_of_z tid && int_of_z b = int_of_z i | None -> false in
    Printf.sprintf "%d:%d@%d/%s/%s/%d/%s" (int_of_z tid) (int_of_z i) (alen - List.length msg)
      (z_to_string o) (lochex l) (if pok then 1 else 0) (if leaf then "L" else "I")
  | EvDefault (tid, msg, o, l) ->
    Printf.sprintf "D%d@%d/%s/%s" (int_of_z tid) (alen - List.length msg) (z_to_string o) (lochex l)
  | EvError -> "ERR"

(* stale: what the location buffer held before the root dispatch (a reused buffer) *)
let run ?stale (t : tree) (addr : z list) (tys : z list) (withloc : bool) : string =
  let st = match stale with
    | Some s when withloc -> dispatch_reused t addr tys s (z_of_int (-7)) (z_of_int 1)
    | _ -> dispatch t addr tys withloc (z_of_int 1) in
  let evs = List.rev_map (show_event (List.length addr)) st.log in
  let body = if evs = [] then "-" else String.concat ";" evs in
  let s = Printf.sprintf "%s m=%d obj=%s" body (int_of_z st.matches) (z_to_string st.obj) in
  if withloc then s ^ " loc=" ^ lochex st.loc else s

let rec walk (t : tree) (f : table -> unit) =
  f (tab_of t);
  List.iter (function Some s -> walk s f | None -> ()) (subs_of t)

let () = each_line (fun line ->
  match String.split_on_char ' ' line with
  | "disp" :: tr :: ha :: ht :: rest ->
    (try
      let tk = Array.of_list (String.split_on_char '.' tr) in
      let k = ref 0 in
      let t = parse tk k in
      let addr = bytes_of_hex ha and tys = bytes_of_hex ht in
      let stale = match rest with _ :: h :: _ when h <> "-" -> Some (bytes_of_hex h) | _ -> None in
      let l = run ?stale t addr tys true and n = run t addr tys false in
      let rs = ref [] in
      walk t (fun tb ->
        let r = match tables_of tb with
          | None -> "-"
          | Some h -> if h.h_remap = [] then "-" else String.concat "_" (List.map (fun x -> string_of_int (int_of_z x)) h.h_remap) in
        rs := Printf.sprintf "%d=%s" (int_of_z tb.t_id) r :: !rs);
      Printf.printf "L %s | N %s | R %s T=ok\n" l n (String.concat ";" (List.rev !rs))
    with _ -> print_endline "BADCASE")
  | _ -> print_endline "BADCASE")
