(* C10/C11 model driver: one output line per case line (formats: see
   harness/h_C10.cpp).  Cases whose kind starts with 'x' are evaluated on the
   implementation only (Spec oracle); the driver answers SKIP. *)
let two32 = z_of_string "4294967296"
let z_hi x = Z.div x two32
let z_lo x = Z.modulo x two32
let hex32 (x:z) = Printf.sprintf "%08x" (int_of_z x)
let hex64 (x:z) = hex32 (z_hi x) ^ hex32 (z_lo x)
let z_of_hex (h:string) : z =
  let acc = ref Z0 in
  String.iter (fun ch ->
    let d = int_of_string ("0x" ^ String.make 1 ch) in
    acc := Z.add (Z.mul !acc (z_of_int 16)) (z_of_int d)) h;
  !acc
let string_of_bytes (l:z list) = String.init (List.length l) (fun i -> Char.chr (int_of_z (List.nth l i) land 255))

(* oracles: libc's value of a decimal floating point literal *)
let dec2d (t:z list) : z =
  let f = try float_of_string (string_of_bytes t) with _ -> 0.0 in
  z_of_string (Printf.sprintf "%Lu" (Int64.bits_of_float f))
let dec2f (t:z list) : z =
  let f = try float_of_string (string_of_bytes t) with _ -> 0.0 in
  z_of_string (Printf.sprintf "%lu" (Int32.bits_of_float f))

let parse_val (tok:string) : av =
  match String.split_on_char ':' tok with
  | ["i"; v] -> VI (z_of_string v)
  | ["h"; v] -> VH (z_of_string v)
  | ["c"; v] -> VC (z_of_string v)
  | ["T"] -> VT | ["F"] -> VF | ["N"] -> VN | ["I"] -> VInf
  | ["s"; h] -> VS (bytes_of_hex h)
  | ["S"; h] -> VSym (bytes_of_hex h)
  | ["b"; h] -> VB (bytes_of_hex h)
  | ["m"; h] -> (match bytes_of_hex h with [a;b;c;d] -> VM (a,b,c,d) | _ -> failwith "m")
  | ["r"; h] -> VR (z_of_hex h)
  | ["f"; h] -> VFl (z_of_hex h)
  | ["d"; h] -> VD (z_of_hex h)
  | ["t"; h] -> VTm (z_of_hex h)
  | ["a"; t; n] -> VArr (z_of_string t, z_of_string n)
  | ["R"; n; d] -> VRep (z_of_string n, z_of_string d)
  | _ -> failwith ("bad value " ^ tok)

let parse_vals (s:string) : av list =
  if s = "-" then [] else List.map parse_val (String.split_on_char ';' s)

let show_val (v:av) : string =
  match v with
  | VI v -> "i:" ^ z_to_string v
  | VH v -> "h:" ^ z_to_string v
  | VC v -> "c:" ^ z_to_string v
  | VT -> "T" | VF -> "F" | VN -> "N" | VInf -> "I"
  | VS s -> "s:" ^ hex_of_bytes s
  | VSym s -> "S:" ^ hex_of_bytes s
  | VB d -> "b:" ^ hex_of_bytes d
  | VM (a,b,c,d) -> "m:" ^ hex_of_bytes [a;b;c;d]
  | VR v -> "r:" ^ hex32 v
  | VFl v -> "f:" ^ hex32 v
  | VD v -> "d:" ^ hex64 v
  | VTm v -> "t:" ^ hex64 v
  | VArr (t,n) -> "a:" ^ z_to_string t ^ ":" ^ z_to_string n
  | VRep (n,d) -> "R:" ^ z_to_string n ^ ":" ^ z_to_string d
  | VSpc n -> "?32"

let show_vals (l:av list) = if l = [] then "-" else String.concat ";" (List.map show_val l)

let count_scan (text:z list) : string =
  match count_printed_arg_vals dec2f dec2d text with
  | Ok (ok, n) ->
    let n = int_of_z n in
    let c = if ok then n else -n in
    if c <= 0 then Printf.sprintf "C=%d N=-1 R=-1 V=-" c
    else (match scan_arg_vals dec2f dec2d text (z_of_int c) with
        | Ok (vs, rest) ->
          Printf.sprintf "C=%d N=%d R=%d V=%s" c (List.length vs)
            (List.length text - List.length rest) (show_vals vs)
        | Null -> Printf.sprintf "C=%d SCAN-NULL" c
        | Unmod -> Printf.sprintf "C=%d SCAN-UNMODELLED" c
        | NoFuel -> Printf.sprintf "C=%d SCAN-NOFUEL" c)
  | Null -> "COUNT-NULL" | Unmod -> "COUNT-UNMODELLED" | NoFuel -> "COUNT-NOFUEL"

let () = each_line (fun line ->
  let out =
    try
      match String.split_on_char ' ' line with
      | k :: _ when String.length k > 0 && k.[0] = 'x' -> "SKIP"
      | "pp" :: ll :: pr :: co :: lo :: vals :: _ ->
        let o = { lossless = (lo <> "0"); prec = z_of_string pr; linelength = z_of_string ll;
                  compress = (co <> "0") } in
        (match print_arg_vals o (parse_vals vals) Z0 with
         | None -> "PRINT-UNMODELLED"
         | Some (text, wrt) ->
           Printf.sprintf "P=%s W=%s %s" (hex_of_bytes text) (z_to_string wrt) (count_scan text))
      | "pm" :: ll :: pr :: co :: lo :: vals :: addr :: _ ->
        let o = { lossless = (lo <> "0"); prec = z_of_string pr; linelength = z_of_string ll;
                  compress = (co <> "0") } in
        (match print_message o (bytes_of_hex addr) (parse_vals vals) Z0 with
         | None -> "PRINT-UNMODELLED"
         | Some (text, wrt) ->
           let head = Printf.sprintf "P=%s W=%s " (hex_of_bytes text) (z_to_string wrt) in
           head ^ (match count_printed_arg_vals_of_msg dec2f dec2d text with
             | Ok (ok, n) ->
               let n = int_of_z n in
               let c = if ok then n else -n in
               if c < 0 || not ok then Printf.sprintf "C=%d N=-1 R=-1 V=- A=-" c
               else (match scan_message dec2f dec2d text (z_of_int c) with
                   | Ok ((a, vs), rest) ->
                     Printf.sprintf "C=%d N=%d R=%d V=%s A=%s" c (List.length vs)
                       (List.length text - List.length rest) (show_vals vs) (hex_of_bytes a)
                   | Null -> "SCAN-NULL" | Unmod -> "SCAN-UNMODELLED" | NoFuel -> "SCAN-NOFUEL")
             | Null -> "COUNT-NULL" | Unmod -> "COUNT-UNMODELLED" | NoFuel -> "COUNT-NOFUEL"))
      | "cal" :: secs :: _ ->
        (* the calendar of the model: localtime, and mktime of its result *)
        let s = z_of_string secs in
        let (((((y, mo), d), h), mi), se) = date_of_secs s in
        Printf.sprintf "D=%s-%s-%s-%s-%s-%s S=%s" (z_to_string y) (z_to_string mo) (z_to_string d)
          (z_to_string h) (z_to_string mi) (z_to_string se) (z_to_string (secs_of_date y mo d h mi se))
      | "sc" :: h :: _ -> count_scan (bytes_of_hex h)
      | _ -> "BADCASE"
    with Failure m -> "DRIVER-ERROR " ^ m
  in print_endline out)
