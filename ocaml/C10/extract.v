From Coq Require Import ExtrOcamlBasic ZArith.
From RtoscV Require Import Pretty.Tok Pretty.FloatFmt Pretty.TimeFmt Pretty.PrintModel Pretty.ScanModel.
Extraction "model.ml" Z.add Z.mul Z.opp Z.sub Z.div Z.modulo print_arg_vals print_message count_printed_arg_vals scan_arg_vals count_printed_arg_vals_of_msg scan_message date_of_secs secs_of_date.
