From Coq Require Import ExtrOcamlBasic ZArith.
From RtoscV Require Import Ports.NameModel Ports.PathModel Ports.WalkModel.
Extraction "model.ml" Z.add Z.mul Z.opp walk apropos.
