From Coq Require Import ExtrOcamlBasic ZArith.
From RtoscV Require Import Ports.NameModel Ports.PathModel Ports.WalkModel Ports.NamesModel Ports.EnabledModel.
Extraction "model.ml" Z.add Z.mul Z.opp walk walk_rt apropos names_ok render_port.
