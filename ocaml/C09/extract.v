From Coq Require Import ExtrOcamlBasic ZArith.
From RtoscV Require Import Ports.NameModel Ports.PathModel Ports.WalkModel Ports.NamesModel.
Extraction "model.ml" Z.add Z.mul Z.opp walk apropos names_ok render_port.
