(* C09 model driver (formats: harness/h_C09.cpp) *)
let rec parse_ports (toks : string list) : port list * string list =
  match toks with
  | n :: rest ->
    let n = int_of_string n in
    let rec go k toks acc =
      if k = 0 then (List.rev acc, toks)
      else match toks with
        | hn :: hm :: fl :: rest ->
          let meta = if hm = "N" then None else Some (bytes_of_hex hm) in
          if fl = "1" then
            let (sub, rest') = parse_ports rest in
            go (k-1) rest' (Port (bytes_of_hex hn, meta, Some sub) :: acc)
          else go (k-1) rest (Port (bytes_of_hex hn, meta, None) :: acc)
        | _ -> failwith "tree" in
    go n rest []
  | [] -> failwith "tree"
let parse_tree (s : string) : port list = fst (parse_ports (String.split_on_char ',' s))

(* raw port tree -> structured tree (literal runs and '#<digits>'); names_ok is
   evaluated on it only if it renders back to the raw tree that was run *)
let rec parse_segs (s : z list) : seg list =
  let is_digit c = let v = int_of_z c in v >= 48 && v <= 57 in
  let rec lit acc s = match s with
    | c :: t when int_of_z c <> 35 -> lit (c :: acc) t
    | _ -> (List.rev acc, s) in
  match s with
  | [] -> []
  | c :: t when int_of_z c = 35 ->
    let rec digs acc s = match s with d :: r when is_digit d -> digs (d :: acc) r | _ -> (List.rev acc, s) in
    let (ds, rest) = digs [] t in
    let n = List.fold_left (fun a d -> Z.add (Z.mul a (z_of_int 10)) (z_of_int (int_of_z d - 48))) Z0 ds in
    Enum n :: parse_segs rest
  | _ -> let (l, rest) = lit [] s in Lit l :: parse_segs rest
let rec structure (p : port) : sport =
  let Port (name, meta, sub) = p in
  let rec split acc s = match s with
    | c :: t when int_of_z c <> 58 -> split (c :: acc) t
    | _ -> (List.rev acc, s) in
  let (path, args) = split [] name in
  (* a sub-tree name is structured by components: every literal cut behind each of its '/' *)
  let rec cut acc cur s = match s with
    | [] -> List.rev (if cur = [] then acc else Lit (List.rev cur) :: acc)
    | c :: t when int_of_z c = 47 -> cut (Lit (List.rev (c :: cur)) :: acc) [] t
    | c :: t -> cut acc (c :: cur) t in
  let comps l = List.concat (List.map (fun sg -> match sg with Lit t -> cut [] [] t | e -> [e]) l) in
  let segs = parse_segs path in
  SPort ((if sub = None then segs else comps segs), args, meta,
         (match sub with Some l -> Some (List.map structure l) | None -> None))
let names_ok_raw (t : port list) : bool =
  let st = List.map structure t in
  List.map render_port st = t && names_ok st
let show_id (id : nat list) = String.concat "." (List.map (fun n -> string_of_int (int_of_nat n)) id)
let addr_list (f : string) : z list list = if f = "-" then [] else List.map bytes_of_hex (split_on ';' f)

let () = each_line (fun line ->
  let out =
    try
      match String.split_on_char ' ' line with
      | "walk" :: tr :: _ :: hb :: rt :: nulls :: dis :: selfoff :: more ->
        let t = parse_tree tr in
        let mem l a = List.mem a l in
        (* the case lists addresses relative to the root "/": the buffer's content comes in front *)
        let b0 = bytes_of_hex hb in
        let pre = if b0 = [] then [z_of_int 47] else b0 in
        let abs l = List.map (fun a -> pre @ (match a with [] -> [] | _ :: t -> t)) l in
        let nl = abs (addr_list nulls) and dl = abs (addr_list dis) and sl = abs (addr_list selfoff) in
        let o = if rt = "1" then Some { o_null = mem nl; o_disabled = mem dl; o_selfoff = mem sl } else None in
        (* tg=<addresses of the toggles that answer false>: the pruning oracle is not taken
           from the case (dis / selfoff, the generator's own evaluation) but computed by the
           model of port_is_enabled (Ports/EnabledModel.v) from the toggles' answers *)
        let tg = List.fold_left (fun acc f ->
                   if String.length f >= 3 && String.sub f 0 3 = "tg="
                   then Some (abs (addr_list (String.sub f 3 (String.length f - 3)))) else acc) None more in
        let res = match tg, rt with
          | Some offl, "1" -> walk_rt (fun tbl n -> not (List.mem (tbl @ n) offl)) nl t (bytes_of_hex hb)
          | _ -> walk o t (bytes_of_hex hb) in
        (match res with
         | WOk (reps, b) ->
           Printf.sprintf "w=%s buf=%s ok=%d"
             (if reps = [] then "-" else
                String.concat ";" (List.map (fun (id, a) -> show_id id ^ "@" ^ hex_of_bytes a) reps))
             (hex_of_bytes b) (if names_ok_raw t then 1 else 0)
         | WFail -> "FAIL")
      | _ -> "BADCASE"
    with _ -> "BADCASE" in
  print_endline out)
