(* C09 model driver (formats: harness/h_C09.cpp) *)
let rec parse_ports (toks : string list) : port list * string list =
  match toks with
  | n :: rest ->
    let n = int_of_string n in
    let rec go k toks acc =
      if k = 0 then (List.rev acc, toks)
      else match toks with
        | hn :: hm :: fl :: rest ->
          let meta = if hm = "N" then None else Some (bytes_of_hex hm) in
          if fl = "1" then
            let (sub, rest') = parse_ports rest in
            go (k-1) rest' (Port (bytes_of_hex hn, meta, Some sub) :: acc)
          else go (k-1) rest (Port (bytes_of_hex hn, meta, None) :: acc)
        | _ -> failwith "tree" in
    go n rest []
  | [] -> failwith "tree"
let parse_tree (s : string) : port list = fst (parse_ports (String.split_on_char ',' s))
let show_id (id : nat list) = String.concat "." (List.map (fun n -> string_of_int (int_of_nat n)) id)
let addr_list (f : string) : z list list = if f = "-" then [] else List.map bytes_of_hex (split_on ';' f)

let () = each_line (fun line ->
  let out =
    try
      match String.split_on_char ' ' line with
      | "walk" :: tr :: _ :: hb :: rt :: nulls :: dis :: selfoff :: _ ->
        let t = parse_tree tr in
        let mem l a = List.mem a l in
        (* the case lists addresses relative to the root "/": the buffer's content comes in front *)
        let b0 = bytes_of_hex hb in
        let pre = if b0 = [] then [z_of_int 47] else b0 in
        let abs l = List.map (fun a -> pre @ (match a with [] -> [] | _ :: t -> t)) l in
        let nl = abs (addr_list nulls) and dl = abs (addr_list dis) and sl = abs (addr_list selfoff) in
        let o = if rt = "1" then Some { o_null = mem nl; o_disabled = mem dl; o_selfoff = mem sl } else None in
        (match walk o t (bytes_of_hex hb) with
         | WOk (reps, b) ->
           Printf.sprintf "w=%s buf=%s"
             (if reps = [] then "-" else
                String.concat ";" (List.map (fun (id, a) -> show_id id ^ "@" ^ hex_of_bytes a) reps))
             (hex_of_bytes b)
         | WFail -> "FAIL")
      | _ -> "BADCASE"
    with _ -> "BADCASE" in
  print_endline out)
